//! E3 — type-level witnesses for the clauses that rustc itself enforces.
//! Every `compile_fail,E0xxx` doc-test is paired with a compiling twin (`no_run`) that differs only in the
//! offending line, so that a witness cannot "pass" merely because a path or a name is wrong.
//! Run with `cargo +nightly test --doc --offline` (the error codes are only checked on nightly).

/// C03 / C08: a committed batch is consumed — nothing can be added to it afterwards.
///
/// ```compile_fail,E0382
/// let dir = tempfile::tempdir().unwrap();
/// let db = fjall::Database::builder(&dir).open().unwrap();
/// let ks = db.keyspace("a", fjall::KeyspaceCreateOptions::default).unwrap();
/// let mut batch = db.batch();
/// batch.insert(&ks, "k", "v");
/// batch.commit().unwrap();
/// batch.insert(&ks, "late", "v"); // use of moved value: `batch`
/// ```
///
/// twin:
/// ```no_run
/// let dir = tempfile::tempdir().unwrap();
/// let db = fjall::Database::builder(&dir).open().unwrap();
/// let ks = db.keyspace("a", fjall::KeyspaceCreateOptions::default).unwrap();
/// let mut batch = db.batch();
/// batch.insert(&ks, "k", "v");
/// batch.insert(&ks, "late", "v");
/// batch.commit().unwrap();
/// ```
pub struct BatchIsConsumedByCommit;

/// C03 / C08: a committed or rolled-back transaction cannot be used again (single-writer flavour).
///
/// ```compile_fail,E0382
/// use fjall::Readable;
/// let dir = tempfile::tempdir().unwrap();
/// let db = fjall::SingleWriterTxDatabase::builder(&dir).open().unwrap();
/// let ks = db.keyspace("a", fjall::KeyspaceCreateOptions::default).unwrap();
/// let mut tx = db.write_tx();
/// tx.insert(&ks, "k", "v");
/// tx.commit().unwrap();
/// let _ = tx.get(&ks, "k"); // use of moved value: `tx`
/// ```
///
/// ```compile_fail,E0382
/// let dir = tempfile::tempdir().unwrap();
/// let db = fjall::SingleWriterTxDatabase::builder(&dir).open().unwrap();
/// let ks = db.keyspace("a", fjall::KeyspaceCreateOptions::default).unwrap();
/// let mut tx = db.write_tx();
/// tx.rollback();
/// tx.insert(&ks, "k", "v"); // use of moved value: `tx`
/// ```
///
/// twin:
/// ```no_run
/// use fjall::Readable;
/// let dir = tempfile::tempdir().unwrap();
/// let db = fjall::SingleWriterTxDatabase::builder(&dir).open().unwrap();
/// let ks = db.keyspace("a", fjall::KeyspaceCreateOptions::default).unwrap();
/// let mut tx = db.write_tx();
/// tx.insert(&ks, "k", "v");
/// let _ = tx.get(&ks, "k");
/// tx.commit().unwrap();
/// ```
pub struct SingleWriterTxIsConsumed;

/// C03 / C08: same for the optimistic flavour.
///
/// ```compile_fail,E0382
/// use fjall::Readable;
/// let dir = tempfile::tempdir().unwrap();
/// let db = fjall::OptimisticTxDatabase::builder(&dir).open().unwrap();
/// let ks = db.keyspace("a", fjall::KeyspaceCreateOptions::default).unwrap();
/// let mut tx = db.write_tx().unwrap();
/// tx.insert(&ks, "k", "v");
/// let _ = tx.commit().unwrap();
/// let _ = tx.get(&ks, "k"); // use of moved value: `tx`
/// ```
///
/// twin:
/// ```no_run
/// use fjall::Readable;
/// let dir = tempfile::tempdir().unwrap();
/// let db = fjall::OptimisticTxDatabase::builder(&dir).open().unwrap();
/// let ks = db.keyspace("a", fjall::KeyspaceCreateOptions::default).unwrap();
/// let mut tx = db.write_tx().unwrap();
/// tx.insert(&ks, "k", "v");
/// let _ = tx.get(&ks, "k");
/// let _ = tx.commit().unwrap();
/// ```
pub struct OptimisticTxIsConsumed;

/// C08: a single-writer write transaction carries the mutex guard borrowed from its database, so it cannot
/// outlive the database handle it was started from.
///
/// ```compile_fail,E0597
/// let dir = tempfile::tempdir().unwrap();
/// let tx = {
///     let db = fjall::SingleWriterTxDatabase::builder(&dir).open().unwrap();
///     db.write_tx() // `db` does not live long enough
/// };
/// tx.rollback();
/// ```
///
/// twin:
/// ```no_run
/// let dir = tempfile::tempdir().unwrap();
/// let db = fjall::SingleWriterTxDatabase::builder(&dir).open().unwrap();
/// let tx = {
///     db.write_tx()
/// };
/// tx.rollback();
/// ```
pub struct SingleWriterTxBorrowsItsDatabase;

/// C05: an iterator owns its snapshot registration (`'static`), it may outlive the keyspace handle it came from.
///
/// ```no_run
/// fn assert_static<T: 'static>(_: &T) {}
/// let dir = tempfile::tempdir().unwrap();
/// let db = fjall::Database::builder(&dir).open().unwrap();
/// let it = {
///     let ks = db.keyspace("a", fjall::KeyspaceCreateOptions::default).unwrap();
///     ks.iter()
/// };
/// assert_static(&it);
/// let snapshot = db.snapshot();
/// assert_static(&snapshot);
/// let _ = it.count();
/// ```
pub struct IterOwnsItsSnapshot;

/// C05 / C13 / C14: the registration token, the poison flag and the journal lock are not reachable from outside
/// the crate, so no user code can forge a snapshot registration, clear the poison flag or write to the journal
/// without going through the audited entry points.
///
/// ```compile_fail,E0603
/// use fjall::snapshot_nonce::SnapshotNonce; // module `snapshot_nonce` is private
/// ```
///
/// ```compile_fail,E0603
/// use fjall::poison::PoisonSignal; // module `poison` is private
/// ```
///
/// ```compile_fail,E0603
/// use fjall::journal::Journal; // module `journal` is private
/// ```
///
/// ```compile_fail,E0616
/// let dir = tempfile::tempdir().unwrap();
/// let db = fjall::Database::builder(&dir).open().unwrap();
/// let _ = &db.supervisor.journal; // field `journal` of struct `SupervisorInner` is private
/// ```
///
/// ```compile_fail,E0616
/// let dir = tempfile::tempdir().unwrap();
/// let db = fjall::Database::builder(&dir).open().unwrap();
/// let _ = &db.is_poisoned; // field `is_poisoned` is private
/// ```
///
/// twin (the doc-hidden but public parts ARE reachable, so the paths above are not merely misspelt):
/// ```no_run
/// use fjall::PersistMode;
/// let dir = tempfile::tempdir().unwrap();
/// let db = fjall::Database::builder(&dir).open().unwrap();
/// let _ = &db.supervisor.snapshot_tracker;
/// let _ = &db.supervisor.seqno;
/// db.persist(PersistMode::SyncAll).unwrap();
/// ```
pub struct InternalsAreSealed;
