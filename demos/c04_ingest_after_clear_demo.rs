// C04: "Close and reopen reproduces exactly the same logical content ... This includes data that reached disk by ...
// bulk ingestion, keyspaces that were cleared" (quantifier: "clear, bulk ingestion (into empty and non-empty keyspaces,
// over keys that already exist)"; why tests can't: "No test ... ingests after a clear").
// Clear is journaled and re-executed on replay as `tree.clear()`, which drops ALL tables of the keyspace. Ingested
// data is NOT journaled. So data ingested AFTER a clear whose record is still in a journal is wiped by the next reopen.
//
// run: cp demos/c04_ingest_after_clear_demo.rs <fjall checkout>/tests/ && cargo test --offline --test c04_ingest_after_clear_demo
use fjall::{Database, KeyspaceCreateOptions};

fn content(ks: &fjall::Keyspace) -> Vec<(Vec<u8>, Vec<u8>)> {
    ks.iter().map(|g| { let (k, v) = g.into_inner().unwrap(); (k.to_vec(), v.to_vec()) }).collect()
}

#[test]
fn ingestion_after_clear_survives_reopen() -> fjall::Result<()> {
    let folder = tempfile::tempdir()?;
    let before;
    {
        let db = Database::builder(folder.path()).open()?;
        let ks = db.keyspace("default", KeyspaceCreateOptions::default)?;
        ks.insert("a", "old")?;
        ks.clear()?;
        let mut ing = ks.start_ingestion()?;
        ing.write("x", "1")?;
        ing.write("y", "2")?;
        ing.finish()?;
        before = content(&ks);
        assert_eq!(2, before.len());
    }
    {
        let db = Database::builder(folder.path()).open()?;
        let ks = db.keyspace("default", KeyspaceCreateOptions::default)?;
        assert_eq!(before, content(&ks), "content after reopen differs from content before close");
    }
    Ok(())
}

// the same through a SEALED journal (kept alive by another keyspace's unflushed write)
#[test]
fn ingestion_after_clear_survives_reopen_with_sealed_journal() -> fjall::Result<()> {
    let folder = tempfile::tempdir()?;
    let before;
    {
        let db = Database::builder(folder.path()).open()?;
        let ks = db.keyspace("default", KeyspaceCreateOptions::default)?;
        let pin = db.keyspace("pin", KeyspaceCreateOptions::default)?;
        let big = db.keyspace("big", KeyspaceCreateOptions::default)?;
        ks.insert("a", "old")?;
        ks.clear()?;
        let mut ing = ks.start_ingestion()?;
        ing.write("x", "1")?;
        ing.write("y", "2")?;
        ing.finish()?;
        pin.insert("p", "unflushed: keeps the journal once it is sealed")?;
        let mut x = 0x9E3779B97F4A7C15u64;
        for i in 0..70u32 {
            let v: Vec<u8> = (0..1_000_000).map(|_| { x ^= x << 13; x ^= x >> 7; x ^= x << 17; x as u8 }).collect();
            big.insert(format!("k{i}"), v)?;
        }
        big.rotate_memtable_and_wait()?;
        assert!(db.journal_count() >= 2, "demo needs a sealed journal (got {})", db.journal_count());
        before = content(&ks);
        assert_eq!(2, before.len());
    }
    {
        let db = Database::builder(folder.path()).open()?;
        let ks = db.keyspace("default", KeyspaceCreateOptions::default)?;
        assert_eq!(before, content(&ks), "content after reopen differs from content before close");
    }
    Ok(())
}

// Ingestion over a key whose older write is still in the journal: after reopen the journal replay puts the OLD write back
// into the memtable (seqno s1), the ingested table holds the NEW value (seqno s2 > s1).
#[test]
fn ingestion_over_a_journaled_key_survives_reopen() -> fjall::Result<()> {
    let folder = tempfile::tempdir()?;
    let before;
    {
        let db = Database::builder(folder.path()).open()?;
        let ks = db.keyspace("default", KeyspaceCreateOptions::default)?;
        ks.insert("k", "old")?;
        let mut ing = ks.start_ingestion()?;
        ing.write("k", "new")?;
        ing.finish()?;
        assert_eq!(Some(b"new".to_vec()), ks.get("k")?.map(|v| v.to_vec()));
        before = content(&ks);
    }
    {
        let db = Database::builder(folder.path()).open()?;
        let ks = db.keyspace("default", KeyspaceCreateOptions::default)?;
        assert_eq!(Some(b"new".to_vec()), ks.get("k")?.map(|v| v.to_vec()), "point read after reopen");
        assert_eq!(before, content(&ks), "scan after reopen");
        // ... and after the recovered memtable is flushed and compacted
        ks.rotate_memtable_and_wait()?;
        ks.major_compact()?;
        assert_eq!(Some(b"new".to_vec()), ks.get("k")?.map(|v| v.to_vec()), "point read after reopen + flush + compaction");
    }
    Ok(())
}

// ... and through a SEALED journal that also holds a later, unflushed record of the same keyspace (so the rebuilt
// memtable is kept): the old write sits in a sealed memtable in front of the ingested table.
#[test]
fn ingestion_over_a_journaled_key_survives_reopen_with_sealed_journal() -> fjall::Result<()> {
    let folder = tempfile::tempdir()?;
    {
        let db = Database::builder(folder.path()).open()?;
        let ks = db.keyspace("default", KeyspaceCreateOptions::default)?;
        let big = db.keyspace("big", KeyspaceCreateOptions::default)?;
        ks.insert("k", "old")?;
        let mut ing = ks.start_ingestion()?;
        ing.write("k", "new")?;
        ing.finish()?;
        ks.insert("z", "later, unflushed")?;
        let mut x = 0x9E3779B97F4A7C15u64;
        for i in 0..70u32 {
            let v: Vec<u8> = (0..1_000_000).map(|_| { x ^= x << 13; x ^= x >> 7; x ^= x << 17; x as u8 }).collect();
            big.insert(format!("k{i}"), v)?;
        }
        big.rotate_memtable_and_wait()?;
        assert!(db.journal_count() >= 2, "demo needs a sealed journal (got {})", db.journal_count());
        assert_eq!(Some(b"new".to_vec()), ks.get("k")?.map(|v| v.to_vec()));
    }
    {
        let db = Database::builder(folder.path()).open()?;
        let ks = db.keyspace("default", KeyspaceCreateOptions::default)?;
        assert_eq!(Some(b"new".to_vec()), ks.get("k")?.map(|v| v.to_vec()), "point read after reopen");
    }
    Ok(())
}
