// C03 (power-loss variant of the write-ahead rule): tables are fsynced when a memtable is flushed or an ingestion
// finishes, while the journal is only written to the OS. After a power loss (everything of the journal after its last
// fsync is gone) ONE keyspace's part of a batch is already in a table and the rest of the batch is nowhere.
// (The process-crash variant — records still in the journal writer's user-space buffer when an ingestion flushes the
// memtable — was repaired; see demos/hunt/c03_hunt_demo.rs `manual_persist_*`.)
//
// run: cp demos/c03_write_ahead_demo.rs <fjall checkout>/tests/ && cargo test --offline --test c03_write_ahead_demo
use fjall::{Database, KeyspaceCreateOptions};
use std::path::{Path, PathBuf};

fn journal(dir: &Path) -> PathBuf {
    let mut v: Vec<PathBuf> = std::fs::read_dir(dir).unwrap().map(|d| d.unwrap().path()).filter(|p| p.extension().is_some_and(|e| e == "jnl")).collect();
    v.sort();
    v.pop().unwrap()
}

fn used_len(path: &Path) -> usize {
    let b = std::fs::read(path).unwrap();
    b.iter().rposition(|&x| x != 0).map_or(0, |i| i + 1)
}

fn copy_dir(src: &Path, dst: &Path) {
    std::fs::create_dir_all(dst).unwrap();
    for e in std::fs::read_dir(src).unwrap() {
        let e = e.unwrap();
        let to = dst.join(e.file_name());
        if e.file_type().unwrap().is_dir() { copy_dir(&e.path(), &to); } else { std::fs::copy(e.path(), to).unwrap(); }
    }
}

fn power_loss_after(make_tables: impl FnOnce(&fjall::Keyspace)) -> (bool, bool) {
    let folder = tempfile::tempdir().unwrap();
    let db = Database::builder(folder.path()).worker_threads(1).open().unwrap();
    let a = db.keyspace("a", KeyspaceCreateOptions::default).unwrap();
    let b = db.keyspace("b", KeyspaceCreateOptions::default).unwrap();
    a.insert("pre", "1").unwrap();
    db.persist(fjall::PersistMode::SyncAll).unwrap();
    let synced_len = used_len(&journal(folder.path()));

    let mut batch = db.batch();
    batch.insert(&a, "k", "from-batch");
    batch.insert(&b, "k", "from-batch");
    batch.commit().unwrap(); // default durability: written to the OS, not synced

    make_tables(&a); // a's memtable becomes an fsynced table; the journal is not synced
    std::thread::sleep(std::time::Duration::from_millis(300));

    let tmp = tempfile::tempdir().unwrap();
    let img = tmp.path().join("img");
    copy_dir(folder.path(), &img);
    {
        // power loss: the journal ends at its last fsync
        let j = journal(&img);
        let len = j.metadata().unwrap().len();
        let f = std::fs::OpenOptions::new().write(true).open(&j).unwrap();
        f.set_len(synced_len as u64).unwrap();
        f.set_len(len).unwrap();
    }
    let db2 = Database::builder(&img).open().unwrap();
    let a2 = db2.keyspace("a", KeyspaceCreateOptions::default).unwrap();
    let b2 = db2.keyspace("b", KeyspaceCreateOptions::default).unwrap();
    (a2.get("k").unwrap().is_some(), b2.get("k").unwrap().is_some())
}

#[test]
fn batch_is_all_or_nothing_after_flush_and_power_loss() {
    let (in_a, in_b) = power_loss_after(|a| a.rotate_memtable_and_wait().unwrap());
    assert_eq!(in_a, in_b, "batch was recovered partially (a.k present = {in_a}, b.k present = {in_b})");
}

#[test]
fn batch_is_all_or_nothing_after_ingestion_and_power_loss() {
    let (in_a, in_b) = power_loss_after(|a| {
        let mut ing = a.start_ingestion().unwrap();
        ing.write("zzz", "ingested").unwrap();
        ing.finish().unwrap();
    });
    assert_eq!(in_a, in_b, "batch was recovered partially (a.k present = {in_a}, b.k present = {in_b})");
}
