// Validation harness for repair 10 (journal replay skips records that are already persisted) — NOT a registered check:
// a seeded random differential test of close/reopen and crash/reopen against a BTreeMap model, mixing single writes,
// batches over two keyspaces, clear, bulk ingestion (into non-empty keyspaces, over existing keys, after a clear),
// memtable rotation + flush, major compaction, journal rotation (a > 64 MB burst into a third keyspace), clean
// reopen and crash images (directory copied while the database is open).
//
// run: cp demos/recovery_model_fuzz.rs <fjall checkout>/tests/ && SEEDS=200 cargo test --release --offline --test recovery_model_fuzz -- --nocapture
use fjall::{Database, Keyspace, KeyspaceCreateOptions};
use std::collections::BTreeMap;
use std::path::Path;

struct Rng(u64);
impl Rng {
    fn next(&mut self) -> u64 { self.0 ^= self.0 << 13; self.0 ^= self.0 >> 7; self.0 ^= self.0 << 17; self.0 }
    fn below(&mut self, n: u64) -> u64 { self.next() % n }
}

type Model = BTreeMap<Vec<u8>, Vec<u8>>;

fn key(i: u64) -> Vec<u8> { format!("k{:02}", i).into_bytes() }

fn content(ks: &Keyspace) -> Model {
    ks.iter().map(|g| { let (k, v) = g.into_inner().unwrap(); (k.to_vec(), v.to_vec()) }).collect()
}

fn check(db_path: &Path, models: &[Model; 2], what: &str, trace: &[String]) {
    let db = Database::builder(db_path).open().unwrap();
    for (i, m) in models.iter().enumerate() {
        let ks = db.keyspace(&format!("ks{i}"), KeyspaceCreateOptions::default).unwrap();
        let got = content(&ks);
        if &got != m {
            panic!("{what}: scan of ks{i} differs from the model\n model: {:?}\n got:   {:?}\n trace:\n  {}", show(m), show(&got), trace.join("\n  "));
        }
        for k in 0..16 {
            let k = key(k);
            let g = ks.get(&k).unwrap().map(|v| v.to_vec());
            if g.as_ref() != m.get(&k) {
                panic!("{what}: get({}) of ks{i} = {:?}, model {:?}\n trace:\n  {}", String::from_utf8_lossy(&k), g.map(|v| String::from_utf8_lossy(&v).to_string()), m.get(&k).map(|v| String::from_utf8_lossy(v).to_string()), trace.join("\n  "));
            }
        }
    }
}

fn show(m: &Model) -> Vec<(String, String)> {
    m.iter().map(|(k, v)| (String::from_utf8_lossy(k).to_string(), String::from_utf8_lossy(v).to_string())).collect()
}

fn try_copy_dir(src: &Path, dst: &Path) -> std::io::Result<()> {
    std::fs::create_dir_all(dst)?;
    for e in std::fs::read_dir(src)? {
        let e = e?;
        let to = dst.join(e.file_name());
        if e.file_type()?.is_dir() { try_copy_dir(&e.path(), &to)?; } else if e.file_name() != "lock" { std::fs::copy(e.path(), to)?; } else { std::fs::File::create(to)?; }
    }
    Ok(())
}

// a file can vanish under the copy (a background compaction deleting an obsolete table): such an image is not a crash
// state, so start over
fn copy_dir(src: &Path, dst: &Path) {
    for _ in 0..20 {
        let _ = std::fs::remove_dir_all(dst);
        if try_copy_dir(src, dst).is_ok() { return; }
        std::thread::sleep(std::time::Duration::from_millis(50));
    }
    panic!("could not take a crash image of {}", src.display());
}

fn run(seed: u64) {
    let mut rng = Rng(seed.wrapping_mul(0x9E3779B97F4A7C15) | 1);
    let folder = tempfile::tempdir().unwrap();
    let path = folder.path().join("db");
    let mut models: [Model; 2] = [Model::new(), Model::new()];
    let mut trace: Vec<String> = vec![format!("seed {seed}")];
    let mut bursts = 0;
    let mut session = 0;
    let steps = 40 + rng.below(40);
    let mut step = 0;
    while step < steps {
        session += 1;
        trace.push(format!("-- session {session}"));
        let db = Database::builder(&path).open().unwrap();
        let kss: Vec<Keyspace> = (0..2).map(|i| db.keyspace(&format!("ks{i}"), KeyspaceCreateOptions::default).unwrap()).collect();
        let big = db.keyspace("big", KeyspaceCreateOptions::default).unwrap();
        for (i, m) in models.iter().enumerate() { assert_eq!(&content(&kss[i]), m, "after open, ks{i}\n trace:\n  {}", trace.join("\n  ")); }
        loop {
            step += 1;
            if step >= steps { break; }
            let w = rng.below(2) as usize;
            match rng.below(100) {
                0..=29 => { let k = key(rng.below(16)); let v = format!("v{}", rng.below(1000)).into_bytes(); trace.push(format!("insert ks{w} {} {}", String::from_utf8_lossy(&k), String::from_utf8_lossy(&v))); kss[w].insert(k.clone(), v.clone()).unwrap(); models[w].insert(k, v); }
                30..=39 => { let k = key(rng.below(16)); trace.push(format!("remove ks{w} {}", String::from_utf8_lossy(&k))); kss[w].remove(k.clone()).unwrap(); models[w].remove(&k); }
                40..=49 => {
                    let mut b = db.batch();
                    let n = 2 + rng.below(3);
                    let mut t = String::from("batch");
                    for _ in 0..n {
                        let w = rng.below(2) as usize; let k = key(rng.below(16));
                        if rng.below(4) == 0 { b.remove(&kss[w], k.clone()); models[w].remove(&k); t += &format!(" rm ks{w} {}", String::from_utf8_lossy(&k)); }
                        else { let v = format!("b{}", rng.below(1000)).into_bytes(); b.insert(&kss[w], k.clone(), v.clone()); models[w].insert(k.clone(), v.clone()); t += &format!(" ins ks{w} {}={}", String::from_utf8_lossy(&k), String::from_utf8_lossy(&v)); }
                    }
                    trace.push(t);
                    b.commit().unwrap();
                }
                50..=55 => { trace.push(format!("clear ks{w}")); kss[w].clear().unwrap(); models[w].clear(); }
                56..=67 => {
                    // bulk ingestion of an ascending key set (over existing keys too)
                    let mut ks_: Vec<u64> = (0..16).filter(|_| rng.below(3) == 0).collect();
                    if ks_.is_empty() { ks_.push(rng.below(16)); }
                    let mut ing = kss[w].start_ingestion().unwrap();
                    let mut t = format!("ingest ks{w}");
                    for i in ks_ {
                        let k = key(i);
                        if rng.below(6) == 0 { ing.write_tombstone(k.clone()).unwrap(); models[w].remove(&k); t += &format!(" {}=<del>", String::from_utf8_lossy(&k)); }
                        else { let v = format!("i{}", rng.below(1000)).into_bytes(); ing.write(k.clone(), v.clone()).unwrap(); models[w].insert(k.clone(), v.clone()); t += &format!(" {}={}", String::from_utf8_lossy(&k), String::from_utf8_lossy(&v)); }
                    }
                    trace.push(t);
                    ing.finish().unwrap();
                }
                68..=77 => { trace.push(format!("rotate+flush ks{w}")); kss[w].rotate_memtable_and_wait().unwrap(); }
                78..=83 => { trace.push(format!("major_compact ks{w}")); kss[w].major_compact().unwrap(); }
                84..=86 if bursts < 2 => {
                    bursts += 1;
                    trace.push("burst: 66 MB into `big`, rotate+flush big (journal rotation)".into());
                    let mut x = rng.next() | 1;
                    for i in 0..66u32 { let v: Vec<u8> = (0..1_000_000).map(|_| { x ^= x << 13; x ^= x >> 7; x ^= x << 17; x as u8 }).collect(); big.insert(format!("b{i}"), v).unwrap(); }
                    big.rotate_memtable_and_wait().unwrap();
                }
                87..=92 => {
                    trace.push("crash image (copy while open) -> reopen the copy".into());
                    let img = folder.path().join(format!("img{step}"));
                    copy_dir(&path, &img);
                    check(&img, &models, "crash image", &trace);
                    std::fs::remove_dir_all(&img).unwrap();
                }
                93..=99 => { trace.push("clean close + reopen".into()); break; }
                _ => {}
            }
            for (i, m) in models.iter().enumerate() {
                if rng.below(8) == 0 { assert_eq!(&content(&kss[i]), m, "live content of ks{i}\n trace:\n  {}", trace.join("\n  ")); }
            }
        }
        drop(kss); drop(big); drop(db);
    }
    check(&path, &models, "final reopen", &trace);
    check(&path, &models, "second reopen", &trace);
}

#[test]
fn reopen_and_crash_images_match_the_model() {
    let n: u64 = std::env::var("SEEDS").ok().and_then(|s| s.parse().ok()).unwrap_or(30);
    let first: u64 = std::env::var("FIRST").ok().and_then(|s| s.parse().ok()).unwrap_or(1);
    let mut failed = vec![];
    for seed in first..first + n {
        let r = std::panic::catch_unwind(|| run(seed));
        if let Err(e) = r {
            let msg = e.downcast_ref::<String>().cloned().unwrap_or_else(|| "panic".into());
            eprintln!("SEED {seed} FAILED: {}", msg.lines().take(4).collect::<Vec<_>>().join(" | "));
            failed.push(seed);
            if std::env::var("FULL").is_ok() { eprintln!("{msg}"); }
        }
    }
    assert!(failed.is_empty(), "failing seeds: {failed:?}");
}
