#!/bin/bash
# usage: c13_demo.sh <scratch worktree of fjall>   (never /repo itself)
set -e
W="$1"; D=$(mktemp -d)/db
cp "$(dirname "$0")/c13_ingest_demo.rs" "$W/tests/verif_c13.rs"
cd "$W"
BIN=$(CARGO_TARGET_DIR="$W-target" cargo test --offline --test verif_c13 --no-run 2>&1 | sed -n 's/.*Executable.*(\(.*\)).*/\1/p')
C13_DIR=$D C13_PHASE=create "$BIN" --nocapture >/dev/null
J=$(ls $D/*.jnl | head -1)
C13_DIR=$D C13_PHASE=fault strace -f -qq -o /dev/null -e trace=write -e inject=write:error=ENOSPC:when=1 -P "$J" "$BIN" --nocapture 2>&1 | grep -E "BATCH_RESULT|AFTER_FAILURE"
C13_DIR=$D C13_PHASE=verify "$BIN" --nocapture 2>&1 | grep RECOVERED
rm -rf "$(dirname $D)"
