// C18: "an item [the filter] removes or replaces is at any time either in its original form or in the filtered form,
// staying filtered once observed so until it is written again".
// On the pinned tree an item that a compaction filter has removed (observed: gone) comes BACK after a clean close and
// reopen while its insert record is still in the active journal: recovery replays the journal into the memtable.
//
// run: cp demos/c18_refilter_demo.rs <fjall checkout>/tests/ && cargo test --offline --test c18_refilter_demo
use fjall::{Database, KeyspaceCreateOptions};
use lsm_tree::compaction::filter::{CompactionFilter, Context, Factory, ItemAccessor, Verdict};
use std::sync::Arc;

struct DropB;
impl CompactionFilter for DropB {
    fn filter_item(&mut self, item: ItemAccessor<'_>, _ctx: &Context) -> lsm_tree::Result<Verdict> {
        Ok(if item.key().starts_with(b"b") { Verdict::Remove } else { Verdict::Keep })
    }
}
struct F;
impl Factory for F {
    fn name(&self) -> &str {
        "dropb"
    }
    fn make_filter(&self, _ctx: &Context) -> Box<dyn CompactionFilter> {
        Box::new(DropB)
    }
}

fn open(path: &std::path::Path) -> fjall::Result<Database> {
    Database::builder(path)
        .with_compaction_filter_factories(Arc::new(|name| match name {
            "items" => Some(Arc::new(F)),
            _ => None,
        }))
        .open()
}

#[test]
fn filtered_item_stays_filtered_across_reopen() -> fjall::Result<()> {
    let folder = tempfile::tempdir()?;
    {
        let db = open(folder.path())?;
        let ks = db.keyspace("items", KeyspaceCreateOptions::default)?;
        ks.insert("a", "keep")?;
        ks.insert("b", "drop me")?;
        ks.rotate_memtable_and_wait()?;
        ks.major_compact()?;
        assert!(ks.contains_key("a")?);
        assert!(!ks.contains_key("b")?, "the filter removed b: observed in filtered form");
    }
    {
        let db = open(folder.path())?;
        let ks = db.keyspace("items", KeyspaceCreateOptions::default)?;
        assert!(ks.contains_key("a")?);
        assert!(!ks.contains_key("b")?, "b was observed filtered before the reopen and was not written again, but it is back in its original form");
    }
    Ok(())
}

// Same defect through a SEALED journal: the record of the filtered item sits in a sealed journal that is kept because a
// later record of the same keyspace in it is not flushed yet; recovery rebuilds a memtable from the whole sealed journal.
#[test]
fn filtered_item_stays_filtered_across_reopen_with_sealed_journal() -> fjall::Result<()> {
    let folder = tempfile::tempdir()?;
    {
        let db = open(folder.path())?;
        let ks = db.keyspace("items", KeyspaceCreateOptions::default)?;
        let big = db.keyspace("big", KeyspaceCreateOptions::default)?;
        ks.insert("a1", "keep")?;
        ks.insert("b1", "drop me")?;
        ks.rotate_memtable_and_wait()?;
        ks.major_compact()?;
        assert!(ks.contains_key("a1")?);
        assert!(!ks.contains_key("b1")?, "the filter removed b1: observed in filtered form");
        // a later, unflushed record of the same keyspace keeps the journal alive once it is sealed
        ks.insert("a2", "later")?;
        // > 64 MB of incompressible journal data in another keyspace, then a flush: the worker seals (rotates) the journal
        let mut x = 0x9E3779B97F4A7C15u64;
        for i in 0..70u32 {
            let v: Vec<u8> = (0..1_000_000).map(|_| { x ^= x << 13; x ^= x >> 7; x ^= x << 17; x as u8 }).collect();
            big.insert(format!("k{i}"), v)?;
        }
        big.rotate_memtable_and_wait()?;
        assert!(db.journal_count() >= 2, "demo needs a sealed journal (got {} journals)", db.journal_count());
        assert!(!ks.contains_key("b1")?);
    }
    {
        let db = open(folder.path())?;
        let ks = db.keyspace("items", KeyspaceCreateOptions::default)?;
        assert!(ks.contains_key("a1")?);
        assert!(ks.contains_key("a2")?);
        assert!(!ks.contains_key("b1")?, "b1 was observed filtered before the reopen and was not written again, but the sealed-journal replay brought it back");
    }
    Ok(())
}
