// The options closure handed to `Database::keyspace` runs under the keyspaces write lock. If it panics (and the
// application survives the panic: a worker thread dies, a request handler catches it), the lock is poisoned.
// `DatabaseInner::drop` then panics itself at `.expect("lock is poisoned")`, before it has broken the handle
// cycles: the keyspace handles (and their clones of the folder lock) are never released, and the folder cannot
// be opened again in this process although every handle is gone.
// run: cargo test --offline --test drop_poison_demo -- --nocapture
use fjall::{Database, KeyspaceCreateOptions};

#[test]
fn folder_can_be_reopened_after_the_options_closure_panicked() {
    let dir = tempfile::tempdir().unwrap();

    {
        let db = Database::builder(dir.path()).open().unwrap();
        let ks = db.keyspace("a", KeyspaceCreateOptions::default).unwrap();
        ks.insert("k", "v").unwrap();

        let db2 = db.clone();
        let res = std::thread::spawn(move || {
            let _ = db2.keyspace("b", || panic!("options could not be built"));
        })
        .join();
        assert!(res.is_err(), "the closure's panic kills that thread only");

        drop(ks);
        // the last handle goes away on another thread, as it would in a server shutting down a connection
        let dropped = std::thread::spawn(move || drop(db)).join();
        eprintln!("drop of the last handle panicked: {}", dropped.is_err());
    }

    match Database::builder(dir.path()).open() {
        Ok(db) => {
            let ks = db.keyspace("a", KeyspaceCreateOptions::default).unwrap();
            assert_eq!(&*ks.get("k").unwrap().unwrap(), b"v");
        }
        Err(e) => panic!("every handle is gone, but the folder cannot be opened again: {e:?}"),
    }
}
