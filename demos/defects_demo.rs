// Demonstrations of the genuine defects found by the static rules on the pinned tree.
// Copied into <scratch>/tests/ of a scratch worktree; each test FAILS on the unrepaired tree
// and PASSES after the corresponding `fix:` commit.  (Used only to classify alarms as genuine.)
use fjall::{Database, KeyspaceCreateOptions, OptimisticTxDatabase, Readable};

// R-C05.2 / R-C06.3: Keyspace::range / prefix iterators must be frozen at creation like iter()
#[test]
fn demo_range_prefix_iter_frozen() -> fjall::Result<()> {
    let folder = tempfile::tempdir()?;
    let db = Database::builder(&folder).open()?;
    let tree = db.keyspace("default", KeyspaceCreateOptions::default)?;
    tree.insert("a#1", "a")?;
    tree.insert("a#2", "b")?;
    let it_iter = tree.iter();
    let it_range = tree.range::<&str, _>(..);
    let it_prefix = tree.prefix("a#");
    tree.insert("a#3", "c")?;
    tree.insert("a#4", "d")?;
    assert_eq!(2, it_iter.count(), "iter()");
    assert_eq!(2, it_range.count(), "range(..) must not see later writes");
    assert_eq!(2, it_prefix.count(), "prefix() must not see later writes");
    Ok(())
}

// R-C07.1: size_of is a read and must be tracked for conflict detection
#[test]
fn demo_ssi_size_of_tracked() -> Result<(), Box<dyn std::error::Error>> {
    let folder = tempfile::tempdir()?;
    let db = OptimisticTxDatabase::builder(&folder).open()?;
    let tree = db.keyspace("default", KeyspaceCreateOptions::default)?;
    tree.insert("k", "1")?;

    // control: the same history with get() is refused
    let mut t1 = db.write_tx()?;
    let _ = t1.get(&tree, "k")?;
    let mut t2 = db.write_tx()?;
    t2.insert(&tree, "k", "22");
    t2.commit()??;
    t1.insert(&tree, "derived", "x");
    assert!(t1.commit()?.is_err(), "control: get() is tracked");

    let mut t1 = db.write_tx()?;
    let sz = t1.size_of(&tree, "k")?;
    assert_eq!(Some(2), sz);
    let mut t2 = db.write_tx()?;
    t2.insert(&tree, "k", "333");
    t2.commit()??;
    t1.insert(&tree, "derived", format!("{sz:?}"));
    assert!(t1.commit()?.is_err(), "size_of() observation was invalidated by a concurrent commit: must conflict");
    Ok(())
}

// R-C05.1: committing one optimistic tx must not unregister the snapshot of another one opened
// at the same instant
#[test]
fn demo_double_unregistration() -> Result<(), Box<dyn std::error::Error>> {
    let folder = tempfile::tempdir()?;
    let db = OptimisticTxDatabase::builder(&folder).open()?;
    let tree = db.keyspace("default", KeyspaceCreateOptions::default)?;
    tree.insert("k", "v0")?;

    let mut t1 = db.write_tx()?;
    let t2 = db.write_tx()?; // same instant as t1
    let tracker = &db.inner().supervisor.snapshot_tracker;
    assert_eq!(2, tracker.open_snapshots());
    t1.insert(&tree, "other", "x");
    t1.commit()??;
    assert_eq!(1, tracker.open_snapshots(), "t2 is still live and must stay registered");

    // with the registration gone the GC watermark overtakes t2's instant
    for i in 0..3 {
        tree.insert("k", format!("v{}", i + 1))?;
        tree.inner().rotate_memtable_and_wait()?;
    }
    assert_eq!(Some("v0".as_bytes().into()), t2.get(&tree, "k")?, "live snapshot must still read its version");
    Ok(())
}
