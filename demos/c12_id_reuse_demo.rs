// C12: "neither the keyspace nor anything ever written to it reappears: not after reopen or crash, ... and not in any
// other keyspace created afterwards".
// Internal keyspace ids are handed out from a counter that recovery re-seeds from the keyspace DIRECTORIES that still
// exist. Deleting the keyspace with the highest id removes its directory, so after a reopen the next keyspace created
// gets the SAME id — while the journal still holds the deleted keyspace's records under that id. The reopen after
// that replays them into the new keyspace.
//
// run: cp demos/c12_id_reuse_demo.rs <fjall checkout>/tests/ && cargo test --offline --test c12_id_reuse_demo
use fjall::{Database, KeyspaceCreateOptions};

#[test]
fn deleted_keyspace_content_does_not_reappear_in_a_later_keyspace() -> fjall::Result<()> {
    let folder = tempfile::tempdir()?;
    {
        let db = Database::builder(folder.path()).open()?;
        let _a = db.keyspace("a", KeyspaceCreateOptions::default)?;
        let b = db.keyspace("b", KeyspaceCreateOptions::default)?;
        b.insert("secret", "written to b")?; // stays in the active journal (never flushed)
        db.delete_keyspace(b)?;
        assert!(!db.keyspace_exists("b"));
    }
    {
        // reopen #1: b is gone; create a brand-new keyspace under another name
        let db = Database::builder(folder.path()).open()?;
        assert!(!db.keyspace_exists("b"));
        let c = db.keyspace("c", KeyspaceCreateOptions::default)?;
        assert!(c.is_empty()?, "a newly created keyspace is empty");
        c.insert("own", "written to c")?;
        assert_eq!(1, c.len()?);
    }
    {
        // reopen #2: c must contain exactly what was written to c
        let db = Database::builder(folder.path()).open()?;
        let c = db.keyspace("c", KeyspaceCreateOptions::default)?;
        let keys: Vec<Vec<u8>> = c.iter().map(|g| g.key().unwrap().to_vec()).collect();
        assert_eq!(vec![b"own".to_vec()], keys, "keyspace c contains data that was written to the deleted keyspace b");
    }
    Ok(())
}
