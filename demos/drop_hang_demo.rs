// C17 stress: many tiny databases opened and dropped concurrently on an oversubscribed machine (like the doc-tests
// under load). Every drop must return.
use fjall::{Database, KeyspaceCreateOptions};
use std::sync::atomic::{AtomicU64, Ordering};
use std::sync::Arc;

#[test]
fn tiny_databases_drop_under_cpu_oversubscription() {
    let threads: usize = std::env::var("THREADS").ok().and_then(|x| x.parse().ok()).unwrap_or(96);
    let rounds: u64 = std::env::var("ROUNDS").ok().and_then(|x| x.parse().ok()).unwrap_or(60);
    let done = Arc::new(AtomicU64::new(0));
    // burners to keep the scheduler busy
    for _ in 0..32 {
        let d = done.clone();
        std::thread::spawn(move || { let mut x = 1u64; while d.load(Ordering::Relaxed) != u64::MAX { x = x.wrapping_mul(6364136223846793005).wrapping_add(1); std::hint::black_box(x); } });
    }
    let mut hs = vec![];
    for t in 0..threads {
        let done = done.clone();
        hs.push(std::thread::spawn(move || {
            for r in 0..rounds {
                let folder = tempfile::tempdir().unwrap();
                let db = Database::builder(&folder).open().unwrap();
                let ks = db.keyspace("default", KeyspaceCreateOptions::default).unwrap();
                ks.insert("a", "my_value").unwrap();
                assert!(ks.get("a").unwrap().is_some());
                drop(ks);
                drop(db);
                done.fetch_add(1, Ordering::Relaxed);
                let _ = (t, r);
            }
        }));
    }
    let total = threads as u64 * rounds;
    let mut last = 0;
    let mut stuck = 0;
    loop {
        std::thread::sleep(std::time::Duration::from_secs(2));
        let cur = done.load(Ordering::Relaxed);
        if cur >= total { break; }
        if cur == last { stuck += 1; } else { stuck = 0; last = cur; }
        if stuck >= 20 {
            eprintln!("HANG: {} of {} open/drop cycles finished, no progress for 40 s", cur, total);
            if std::env::var("HANG_WAIT").is_ok() { loop { std::thread::sleep(std::time::Duration::from_secs(3600)); } }
            std::process::exit(3);
        }
    }
    done.store(u64::MAX, Ordering::Relaxed);
    for h in hs { h.join().unwrap(); }
}
