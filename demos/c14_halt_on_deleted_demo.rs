// Demonstration for repair 38 (C14 liveness): a writer that is halted on a keyspace (>= 30 L0 runs) while another thread
// deletes that keyspace waited forever: compactions of a deleted keyspace are declined.
// Run: cargo test --offline --test c14_halt_on_deleted_demo -- --nocapture
use fjall::{Database, KeyspaceCreateOptions};
use std::sync::atomic::{AtomicBool, Ordering};
use std::sync::Arc;
use std::time::{Duration, Instant};

#[test]
fn halted_writer_is_released_when_its_keyspace_is_deleted() {
    let folder = tempfile::tempdir().unwrap();
    // no compaction can lower L0: the strategy only compacts at 250 tables
    let db = Database::builder(&folder).worker_threads(2).open().unwrap();
    let ks = db
        .keyspace("victim", || {
            KeyspaceCreateOptions::default().compaction_strategy(Arc::new(fjall::compaction::Leveled::default().with_l0_threshold(250)))
        })
        .unwrap();
    // build 30 L0 runs
    for i in 0..31u32 {
        ks.insert("a", i.to_be_bytes()).unwrap();
        ks.insert("z", i.to_be_bytes()).unwrap();
        ks.rotate_memtable_and_wait().unwrap();
    }
    eprintln!("l0 runs = {}, tables = {}", fjall::AbstractTree::l0_run_count(&ks.tree), ks.table_count());
    assert!(fjall::AbstractTree::l0_run_count(&ks.tree) >= 30);
    let returned = Arc::new(AtomicBool::new(false));
    {
        let (ks, returned) = (ks.clone(), returned.clone());
        std::thread::spawn(move || {
            // enough data to trigger the maintenance path (back-pressure) of insert
            let _ = ks.insert("k", vec![1u8; 1024]);
            returned.store(true, Ordering::SeqCst);
        });
    }
    std::thread::sleep(Duration::from_millis(500));
    assert!(!returned.load(Ordering::SeqCst), "the writer should be halted (>= 30 L0 runs, no compaction possible)");
    db.delete_keyspace(ks.clone()).unwrap();
    let start = Instant::now();
    while !returned.load(Ordering::SeqCst) && start.elapsed() < Duration::from_secs(10) {
        std::thread::sleep(Duration::from_millis(50));
    }
    assert!(returned.load(Ordering::SeqCst), "the writer is still halted 10 s after its keyspace was deleted: it waits for a compaction that is declined for deleted keyspaces");
}
