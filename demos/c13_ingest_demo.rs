// C13 demonstration (fault injection with strace; see demos/c13_demo.sh).
// phase "create": make a database with one keyspace.
// phase "fault":  reopen (run under `strace -e inject=write:error=ENOSPC:when=1 -P <journal>`):
//                 a large batch commit fails with an I/O error; the next small insert must then be
//                 refused (fail-stop). Prints ACKED_AFTER_FAILURE if it is acknowledged instead.
// phase "verify": reopen and report whether the acknowledged insert survived.
use fjall::{Database, KeyspaceCreateOptions};

#[test]
fn c13_demo() -> Result<(), Box<dyn std::error::Error>> {
    let dir = std::env::var("C13_DIR").unwrap_or_default();
    let phase = std::env::var("C13_PHASE").unwrap_or_default();
    if dir.is_empty() {
        return Ok(());
    }
    match phase.as_str() {
        "create" => {
            let db = Database::builder(&dir).open()?;
            let ks = db.keyspace("default", KeyspaceCreateOptions::default)?;
            ks.insert("before", "1")?;
        }
        "fault" => {
            let db = Database::builder(&dir).open()?;
            let ks = db.keyspace("default", KeyspaceCreateOptions::default)?;
            let mut batch = db.batch();
            // incompressible payloads, so the item bypasses the 8 KiB journal buffer
            let mut x = 0x9E37_79B9_7F4A_7C15u64;
            let mut noise = |n: usize| -> Vec<u8> {
                (0..n).map(|_| { x ^= x << 13; x ^= x >> 7; x ^= x << 17; (x >> 24) as u8 }).collect()
            };
            batch.insert(&ks, "big1", noise(20_000));
            batch.insert(&ks, "big2", noise(20_000));
            let r = batch.commit();
            println!("BATCH_RESULT {:?}", r.as_ref().map_err(|e| e.to_string()));
            assert!(r.is_err(), "the injected journal write error must surface");
            let r2 = ks.insert("after", "2");
            {
                let ing = ks.start_ingestion();
                let r3 = ing.and_then(|mut i| { i.write("ingested", "3")?; i.finish() });
                match r3 { Ok(()) => println!("INGEST_ACKED_AFTER_FAILURE"), Err(e) => println!("INGEST_REFUSED_AFTER_FAILURE {e}") }
                match db.keyspace("created_after_failure", KeyspaceCreateOptions::default) { Ok(_) => println!("CREATE_ACKED_AFTER_FAILURE"), Err(e) => println!("CREATE_REFUSED_AFTER_FAILURE {e}") }
            }
            match r2 {
                Ok(()) => println!("ACKED_AFTER_FAILURE"),
                Err(e) => println!("REFUSED_AFTER_FAILURE {e}"),
            }
        }
        "verify" => {
            let db = Database::builder(&dir).open()?;
            let ks = db.keyspace("default", KeyspaceCreateOptions::default)?;
            println!("RECOVERED before={:?} after={:?} big1={} ingested={:?} created={}", ks.get("before")?.is_some(), ks.get("after")?.is_some(), ks.get("big1")?.is_some(), ks.get("ingested")?.is_some(), db.keyspace_exists("created_after_failure"));
        }
        _ => {}
    }
    Ok(())
}
