// C06: "Every snapshot ... sees each write batch ... either entirely or not at all ... This holds ... while flushes and
// compactions complete in the background."
// lsm-tree draws a sequence number from the SHARED generator for every version change (flush, compaction, ...) and
// raises the SHARED visible counter to it. fjall's flush and compaction workers call into lsm-tree WITHOUT the journal
// lock, so such a version change can complete between two applies of a batch that drew its seqno earlier: the visible
// counter jumps past the in-flight batch and a snapshot opened now sees the half that is already in the memtable.
//
// The schedule is reproduced deterministically: the in-flight batch with the crate's doc-hidden hooks (as the
// repository's own tests/keyspace_snapshot.rs `keyspace_torn_read` does), the background flush by calling the very
// lsm-tree entry point the flush worker calls (`tree.flush(&tree.get_flush_lock(), watermark)`), with zero worker
// threads so nothing else interferes.
//
// run: cp demos/c06_flush_publishes_demo.rs <fjall checkout>/tests/ && cargo test --offline --test c06_flush_publishes_demo
use fjall::{AbstractTree, Database, KeyspaceCreateOptions, Readable};

#[test]
fn snapshot_never_sees_half_a_batch_while_a_flush_completes() -> fjall::Result<()> {
    let folder = tempfile::tempdir()?;
    let db = Database::builder(&folder).worker_threads_unchecked(0).open()?;
    let ks = db.keyspace("default", KeyspaceCreateOptions::default)?;
    let other = db.keyspace("other", KeyspaceCreateOptions::default)?;

    ks.insert("a", "old")?;
    ks.insert("b", "old")?;
    other.insert("x", "1")?;
    // `other` has a sealed memtable waiting for the flush worker
    assert!(other.tree.rotate_memtable().is_some());

    // a batch {a := new, b := new} takes its seqno and applies its FIRST item ...
    let batch_seqno = db.supervisor.seqno.next();
    ks.tree.insert("a", "new", batch_seqno);

    // ... meanwhile the background flush of `other` completes (what flush::worker::run does, it takes no journal lock)
    {
        let lock = other.tree.get_flush_lock();
        other.tree.flush(&lock, db.supervisor.snapshot_tracker.get_seqno_safe_to_gc())?;
    }

    // ... a reader opens a snapshot now
    let snapshot = db.snapshot();
    let a = snapshot.get(&ks, "a")?.map(|v| v.to_vec());
    let b = snapshot.get(&ks, "b")?.map(|v| v.to_vec());

    // ... the batch applies its second item and publishes
    ks.tree.insert("b", "new", batch_seqno);
    db.supervisor.snapshot_tracker.publish(batch_seqno);

    assert_eq!(a, b, "the snapshot saw the batch half applied: a={:?} b={:?}", a.as_deref().map(String::from_utf8_lossy), b.as_deref().map(String::from_utf8_lossy));
    Ok(())
}

fn torn_by(version_change: impl FnOnce(&Database, &fjall::Keyspace) -> fjall::Result<()>) -> fjall::Result<(Option<Vec<u8>>, Option<Vec<u8>>)> {
    let folder = tempfile::tempdir()?;
    let db = Database::builder(&folder).worker_threads_unchecked(0).open()?;
    let ks = db.keyspace("default", KeyspaceCreateOptions::default)?;
    let other = db.keyspace("other", KeyspaceCreateOptions::default)?;
    ks.insert("a", "old")?;
    ks.insert("b", "old")?;
    // two tables in `other`, so that a compaction has something to do
    for round in 0..2 {
        other.insert(format!("x{round}"), "1")?;
        assert!(other.tree.rotate_memtable().is_some());
        let lock = other.tree.get_flush_lock();
        other.tree.flush(&lock, 0)?;
    }
    let batch_seqno = db.supervisor.seqno.next();
    ks.tree.insert("a", "new", batch_seqno);
    version_change(&db, &other)?;
    let snapshot = db.snapshot();
    let a = snapshot.get(&ks, "a")?.map(|v| v.to_vec());
    let b = snapshot.get(&ks, "b")?.map(|v| v.to_vec());
    ks.tree.insert("b", "new", batch_seqno);
    db.supervisor.snapshot_tracker.publish(batch_seqno);
    Ok((a, b))
}

// the public API Keyspace::major_compact, called by a user thread while another thread's batch is in flight
#[test]
fn snapshot_never_sees_half_a_batch_while_major_compact_completes() -> fjall::Result<()> {
    let (a, b) = torn_by(|_db, other| other.major_compact())?;
    assert_eq!(a, b, "the snapshot saw the batch half applied (a={a:?} b={b:?})");
    Ok(())
}

// what compaction::worker::run does for a Compact message (no journal lock either)
#[test]
fn snapshot_never_sees_half_a_batch_while_a_compaction_completes() -> fjall::Result<()> {
    let (a, b) = torn_by(|db, other| {
        let strategy = std::sync::Arc::new(fjall::compaction::Leveled::default().with_l0_threshold(2));
        other.tree.compact(strategy, db.supervisor.snapshot_tracker.get_seqno_safe_to_gc())?;
        Ok(())
    })?;
    assert_eq!(a, b, "the snapshot saw the batch half applied (a={a:?} b={b:?})");
    Ok(())
}

// Creating or deleting a keyspace writes the meta keyspace through an lsm-tree ingestion (and compacts it): new tree
// versions again. They take keyspaces.write, which a batch only excludes from the moment it has taken keyspaces.read —
// AFTER it drew its seqno. So: batch draws its seqno; another thread creates/deletes a keyspace (visible counter jumps
// past the batch); a snapshot is opened; the batch applies item by item: the "frozen" snapshot changes under the reader.
fn torn_snapshot_by(meta_op: impl FnOnce(&Database) -> fjall::Result<()>) -> fjall::Result<(Option<Vec<u8>>, Option<Vec<u8>>)> {
    let folder = tempfile::tempdir()?;
    let db = Database::builder(&folder).worker_threads_unchecked(0).open()?;
    let ks = db.keyspace("default", KeyspaceCreateOptions::default)?;
    let _victim = db.keyspace("victim", KeyspaceCreateOptions::default)?;
    ks.insert("a", "old")?;
    ks.insert("b", "old")?;
    let batch_seqno = db.supervisor.seqno.next(); // WriteBatch::commit: seqno drawn under the journal lock ...
    meta_op(&db)?; // ... another thread creates / deletes a keyspace before the batch takes keyspaces.read
    let snapshot = db.snapshot();
    ks.tree.insert("a", "new", batch_seqno); // ... the batch applies its first item
    let a = snapshot.get(&ks, "a")?.map(|v| v.to_vec());
    let b = snapshot.get(&ks, "b")?.map(|v| v.to_vec());
    ks.tree.insert("b", "new", batch_seqno);
    db.supervisor.snapshot_tracker.publish(batch_seqno);
    Ok((a, b))
}

#[test]
fn snapshot_never_sees_half_a_batch_while_a_keyspace_is_created() -> fjall::Result<()> {
    let (a, b) = torn_snapshot_by(|db| db.keyspace("brand_new", KeyspaceCreateOptions::default).map(|_| ()))?;
    assert_eq!(a, b, "the snapshot saw the batch half applied (a={a:?} b={b:?})");
    Ok(())
}

#[test]
fn snapshot_never_sees_half_a_batch_while_a_keyspace_is_deleted() -> fjall::Result<()> {
    let (a, b) = torn_snapshot_by(|db| {
        let v = db.keyspace("victim", KeyspaceCreateOptions::default)?;
        db.delete_keyspace(v)
    })?;
    assert_eq!(a, b, "the snapshot saw the batch half applied (a={a:?} b={b:?})");
    Ok(())
}
