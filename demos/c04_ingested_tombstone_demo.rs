// C04 (residual of repair 11): journal replay skips records up to get_highest_persisted_seqno() — the maximum over the
// CURRENT tables. A bulk-ingested tombstone is not journaled; when a last-level compaction evicts it together with the
// value it deletes, that maximum falls back below the value's (still journaled) record, which is then replayed:
// the deleted key is back after a reopen. (Found by the round-4 C01 hunter.)
//
// run: cp demos/c04_ingested_tombstone_demo.rs <fjall checkout>/tests/ && cargo test --offline --test c04_ingested_tombstone_demo
use fjall::{Database, KeyspaceCreateOptions};

#[test]
fn ingested_tombstone_stays_effective_after_major_compact_and_reopen() -> fjall::Result<()> {
    let folder = tempfile::tempdir()?;
    {
        let db = Database::builder(folder.path()).open()?;
        let ks = db.keyspace("default", KeyspaceCreateOptions::default)?;
        ks.insert("a", "1")?;
        ks.insert("k", "v1")?;
        let mut ing = ks.start_ingestion()?;
        ing.write_tombstone("k")?;
        ing.finish()?;
        assert!(ks.get("k")?.is_none());
        ks.major_compact()?;
        assert!(ks.get("k")?.is_none());
    }
    let db = Database::builder(folder.path()).open()?;
    let ks = db.keyspace("default", KeyspaceCreateOptions::default)?;
    assert_eq!(None, ks.get("k")?.map(|v| v.to_vec()), "k was deleted (by an ingested tombstone) before the close, and is back after the reopen");
    assert_eq!(1, ks.len()?);
    Ok(())
}

// the same with the value's record in a SEALED journal (kept alive by a later, unflushed record of the same keyspace)
#[test]
fn ingested_tombstone_stays_effective_with_sealed_journal() -> fjall::Result<()> {
    let folder = tempfile::tempdir()?;
    {
        let db = Database::builder(folder.path()).open()?;
        let ks = db.keyspace("default", KeyspaceCreateOptions::default)?;
        let big = db.keyspace("big", KeyspaceCreateOptions::default)?;
        ks.insert("a", "1")?;
        ks.insert("k", "v1")?;
        let mut ing = ks.start_ingestion()?;
        ing.write_tombstone("k")?;
        ing.finish()?;
        ks.major_compact()?;
        assert!(ks.get("k")?.is_none());
        ks.insert("z", "later, unflushed")?;
        let mut x = 0x9E3779B97F4A7C15u64;
        for i in 0..70u32 {
            let v: Vec<u8> = (0..1_000_000).map(|_| { x ^= x << 13; x ^= x >> 7; x ^= x << 17; x as u8 }).collect();
            big.insert(format!("k{i}"), v)?;
        }
        big.rotate_memtable_and_wait()?;
        assert!(db.journal_count() >= 2, "demo needs a sealed journal");
        assert!(ks.get("k")?.is_none());
    }
    let db = Database::builder(folder.path()).open()?;
    let ks = db.keyspace("default", KeyspaceCreateOptions::default)?;
    assert_eq!(None, ks.get("k")?.map(|v| v.to_vec()), "k was deleted (by an ingested tombstone) before the close, and is back after the reopen");
    Ok(())
}
