// C03 demonstration: a torn item header followed by the zero padding of the pre-allocated journal must be
// discarded as an incomplete batch; it must not make recovery panic.
// Copy to <scratch>/tests/ and run `cargo test --offline --test torn_header_demo` (debug profile).
use fjall::{Database, KeyspaceCreateOptions};
use std::io::{Seek, SeekFrom, Write};

#[test]
fn torn_item_header_with_zero_padding_is_discarded() -> fjall::Result<()> {
    let folder = tempfile::tempdir()?;
    {
        let db = Database::builder(&folder).open()?;
        let ks = db.keyspace("default", KeyspaceCreateOptions::default)?;
        ks.insert("a", "1")?; // complete batch, must survive
        ks.insert("b", "xyz")?; // this one will be torn inside its item header
    }
    let jnl = std::fs::read_dir(folder.path())?
        .filter_map(|e| e.ok())
        .map(|e| e.path())
        .find(|p| p.extension().is_some_and(|x| x == "jnl"))
        .expect("journal");
    let bytes = std::fs::read(&jnl)?;
    // batch 1: Start(13) + Item(21 header + 1 key + 1 value) + End(1+8+4) = 49 bytes
    let b1 = 13 + 21 + 1 + 1 + 13;
    assert_eq!(bytes[b1], 1, "second batch starts with a Start tag");
    assert_eq!(bytes[b1 + 13], 2, "followed by an Item tag");
    // keep the second batch up to and including the `value_len` field of its item header (offset 17 in the item),
    // then zero padding, as a pre-allocated journal has after a torn write
    let cut = b1 + 13 + 17;
    let mut f = std::fs::OpenOptions::new().write(true).open(&jnl)?;
    f.set_len(cut as u64)?;
    f.seek(SeekFrom::End(0))?;
    f.write_all(&[0u8; 4096])?;
    f.sync_all()?;
    drop(f);

    let db = Database::builder(&folder).open()?; // must not panic
    let ks = db.keyspace("default", KeyspaceCreateOptions::default)?;
    assert!(ks.get("a")?.is_some(), "complete earlier batch is recovered");
    assert!(ks.get("b")?.is_none(), "torn batch is discarded as a whole");
    ks.insert("c", "3")?;
    drop(ks);
    drop(db);
    let db = Database::builder(&folder).open()?;
    let ks = db.keyspace("default", KeyspaceCreateOptions::default)?;
    assert!(ks.get("c")?.is_some(), "appends after the repair are recoverable");
    Ok(())
}
