// C12 ("re-creating a name yields an empty keyspace, while opening an existing name returns the existing content") and
// C11 ("sequence numbers handed out after the reopen are larger than every sequence number present in any journal or
// table of any keyspace"): the generator is restored from the USER keyspaces' trees only. The meta keyspace (name <-> id
// rows, option rows) is a tree too, written with numbers from the same generator. After a reopen the generator can
// restart below the numbers of existing meta rows and TOMBSTONES (left by a deleted keyspace). A keyspace created then
// — legitimately reusing the deleted keyspace's id — gets meta rows with LOWER sequence numbers than the old tombstones
// of the same keys; once the meta tree compacts, the tombstones win and the new keyspace is gone after the next reopen,
// with its data.
//
// run: cp demos/c12_meta_seqno_demo.rs <fjall checkout>/tests/ && cargo test --offline --test c12_meta_seqno_demo
use fjall::{Database, KeyspaceCreateOptions};

#[test]
fn keyspace_created_after_reopen_survives_the_next_reopen() -> fjall::Result<()> {
    let folder = tempfile::tempdir()?;
    {
        let db = Database::builder(folder.path()).open()?;
        let _a = db.keyspace("a", KeyspaceCreateOptions::default)?;
        let b = db.keyspace("b", KeyspaceCreateOptions::default)?;
        db.delete_keyspace(b)?;
    }
    {
        let db = Database::builder(folder.path()).open()?;
        let c = db.keyspace("c", KeyspaceCreateOptions::default)?;
        c.insert("k", "v")?;
        // a few more keyspaces, so that the meta keyspace's tree compacts
        for i in 0..6 {
            db.keyspace(&format!("filler{i}"), KeyspaceCreateOptions::default)?;
        }
        assert!(db.keyspace_exists("c"));
    }
    {
        let db = Database::builder(folder.path()).open()?;
        assert!(db.keyspace_exists("c"), "keyspace c (created and written after a reopen) no longer exists; names: {:?}", db.list_keyspace_names());
        let c = db.keyspace("c", KeyspaceCreateOptions::default)?;
        assert_eq!(Some(b"v".to_vec()), c.get("k")?.map(|v| v.to_vec()));
    }
    Ok(())
}
