// A worker thread cannot be created (address-space limit: the 2 MiB stack mapping fails) while `Database::open`
// starts its pool. `WorkerPool::start` has already counted ALL threads; it takes back one. The failed open drops
// the half-built database, whose drop waits for the counter to reach zero: forever.
// run: cargo test --offline --test wp_spawn_demo -- --nocapture
use std::sync::mpsc;
use std::time::Duration;

#[repr(C)]
struct RLimit {
    cur: u64,
    max: u64,
}
extern "C" {
    fn getrlimit(resource: i32, rlim: *mut RLimit) -> i32;
    fn setrlimit(resource: i32, rlim: *const RLimit) -> i32;
}
const RLIMIT_AS: i32 = 9;

fn vm_size() -> u64 {
    let statm = std::fs::read_to_string("/proc/self/statm").unwrap();
    statm.split_whitespace().next().unwrap().parse::<u64>().unwrap() * 4096
}

#[test]
fn failed_open_returns_instead_of_hanging_when_a_worker_cannot_be_spawned() {
    let dir = tempfile::tempdir().unwrap();

    // warm up: allocator arenas, lazily initialised statics
    {
        let warm = tempfile::tempdir().unwrap();
        let db = fjall::Database::builder(warm.path()).worker_threads_unchecked(0).open().unwrap(); // (no worker threads: glibc would cache their stacks and the spawns below would reuse them)
        let ks = db.keyspace("a", fjall::KeyspaceCreateOptions::default).unwrap();
        ks.insert("k", "v").unwrap();
    }

    // watchdog, created while threads can still be created
    let (tx, rx) = mpsc::channel::<&'static str>();
    let watchdog = std::thread::spawn(move || match rx.recv_timeout(Duration::from_secs(20)) {
        Ok(msg) => msg,
        Err(_) => {
            eprintln!("HANG: Database::open did not return within 20 s after a worker thread could not be spawned");
            std::process::exit(101);
        }
    });

    let mut old = RLimit { cur: 0, max: 0 };
    assert_eq!(unsafe { getrlimit(RLIMIT_AS, &mut old) }, 0);
    // less than one thread stack of head room
    let limit = RLimit { cur: vm_size() + 1536 * 1024, max: old.max };
    assert_eq!(unsafe { setrlimit(RLIMIT_AS, &limit) }, 0);

    let res = fjall::Database::builder(dir.path()).worker_threads(4).open();

    assert_eq!(unsafe { setrlimit(RLIMIT_AS, &old) }, 0);
    if let Err(e) = &res { eprintln!("open error: {e:?}"); }
    tx.send(if res.is_err() { "open failed and returned" } else { "open succeeded" }).unwrap();
    eprintln!("{}", watchdog.join().unwrap());
    drop(res);
}
