use fjall::{Database, KeyspaceCreateOptions};
#[test]
fn empty_key_insert_does_not_brick_the_database() {
    let folder = tempfile::tempdir().unwrap();
    {
        let db = Database::builder(folder.path()).open().unwrap();
        let ks = db.keyspace("default", KeyspaceCreateOptions::default).unwrap();
        ks.insert("a", "1").unwrap();
        let ks2 = ks.clone();
        let r = std::panic::catch_unwind(std::panic::AssertUnwindSafe(|| ks2.insert("", "boom")));
        assert!(r.is_err(), "an empty key is rejected with a panic (as the tree does)");
        // the instance is still usable: nothing was journaled, no lock was poisoned
        ks.insert("b", "2").expect("writes keep working after a rejected key");
    }
    let db = Database::builder(folder.path()).open().expect("the database can be reopened");
    let ks = db.keyspace("default", KeyspaceCreateOptions::default).unwrap();
    assert!(ks.get("a").unwrap().is_some());
    assert!(ks.get("b").unwrap().is_some());
}
