// Demonstration for repair 34 (C02, R-C02.10): a crash during the very first open used to leave a directory that could
// never be opened.  Copy to <worktree>/tests/ and run: cargo test --offline --test c02_first_open_crash_demo
// Before the repair both tests failed (the second one with the marker created under its FINAL name and still empty,
// which the new creation protocol — write `version.tmp`, rename — cannot produce any more).
use fjall::Database;

/// the process died in Database::create_new after 0.jnl was created, before the version marker
#[test]
fn died_before_the_version_marker() {
    let folder = tempfile::tempdir().unwrap();
    let dir = folder.path().join("db");
    std::fs::create_dir_all(dir.join("keyspaces")).unwrap();
    std::fs::write(dir.join("lock"), b"").unwrap();
    std::fs::write(dir.join("0.jnl"), vec![0u8; 1024]).unwrap();
    let res = Database::builder(&dir).open();
    assert!(res.is_ok(), "reopen after a crash during the first open failed: {:?}", res.err());
}

/// the process died while writing the version marker (now: a half-written `version.tmp`)
#[test]
fn died_while_writing_the_version_marker() {
    let folder = tempfile::tempdir().unwrap();
    let dir = folder.path().join("db");
    std::fs::create_dir_all(dir.join("keyspaces")).unwrap();
    std::fs::write(dir.join("lock"), b"").unwrap();
    std::fs::write(dir.join("0.jnl"), vec![0u8; 1024]).unwrap();
    std::fs::write(dir.join("version.tmp"), b"F").unwrap();
    let res = Database::builder(&dir).open();
    assert!(res.is_ok(), "reopen after a crash during the first open failed: {:?}", res.err());
}
