// CARGO_TARGET_DIR=/tmp/hunt-C13/target cargo test --offline --test hunt_demo -- --test-threads=1 --nocapture
//
// RESULT OF THE HUNT (property C13, fail-stop after a journal I/O failure): NO violation found. Every test in this
// file PASSES on the unchanged code; they are kept as the record of the histories that were tried (needs `strace`).
// The whole file takes about 30 minutes; run single hypotheses with e.g. `... -- --test-threads=1 --nocapture h1_`.
// NOTE: strace's `when=N` counters are per thread; h8 attaches strace late for that reason.
//
// Harness: every scenario re-executes this test binary as a child under `strace` with a fault
// injected into the n-th write/fsync/... of the journal file. The child runs a deterministic
// workload, logs the result of every API call into a side file, and checks fail-stop itself
// (after the first Err no call may return Ok). The parent then reopens the database and compares
// it against the model built from the acknowledged calls (the first failed call may be applied
// completely or not at all).

use fjall::{Database, KeyspaceCreateOptions, KvSeparationOptions, PersistMode};
use std::collections::BTreeMap;
use std::io::Write;
use std::path::{Path, PathBuf};
use std::process::Command;

#[repr(C)]
struct RLimit {
    cur: u64,
    max: u64,
}
extern "C" {
    fn setrlimit(resource: i32, rlim: *const RLimit) -> i32;
    fn signal(signum: i32, handler: usize) -> usize;
}
const RLIMIT_FSIZE: i32 = 1;
const SIGXFSZ: i32 = 25;
const SIG_IGN: usize = 1;

fn set_fsize_limit(bytes: Option<u64>) {
    unsafe {
        signal(SIGXFSZ, SIG_IGN);
        let l = RLimit {
            cur: bytes.unwrap_or(u64::MAX),
            max: u64::MAX,
        };
        assert_eq!(0, setrlimit(RLIMIT_FSIZE, &l));
    }
}

const MIB: usize = 1024 * 1024;

fn big_op(j: usize) -> Op {
    Op::Insert("a", format!("big{j:03}").into_bytes(), val(j + 7777, MIB))
}

type Model = BTreeMap<&'static str, BTreeMap<Vec<u8>, Vec<u8>>>;

#[derive(Debug, Clone)]
enum Op {
    Insert(&'static str, Vec<u8>, Vec<u8>),
    Remove(&'static str, Vec<u8>),
    Batch(Vec<(&'static str, Vec<u8>, Option<Vec<u8>>)>),
    Clear(&'static str),
    Persist(u8),
}

fn val(i: usize, len: usize) -> Vec<u8> {
    // not compressible, depends on i
    let mut x = (i as u64).wrapping_mul(0x9E37_79B9_7F4A_7C15) | 1;
    (0..len)
        .map(|_| {
            x ^= x << 13;
            x ^= x >> 7;
            x ^= x << 17;
            // never 0..=4 so that payload bytes never look like journal tags by accident
            ((x >> 24) as u8) | 0x10
        })
        .collect()
}

fn key(i: usize) -> Vec<u8> {
    format!("k{i:05}").into_bytes()
}

fn op(i: usize, big: usize) -> Op {
    let ks = if i % 2 == 0 { "a" } else { "b" };
    if i % 7 == 0 {
        Op::Batch(vec![
            ("a", format!("b{i:05}-0").into_bytes(), Some(val(i, 30))),
            ("b", format!("b{i:05}-1").into_bytes(), Some(val(i + 1, big))),
            ("c", format!("b{i:05}-2").into_bytes(), Some(val(i + 2, 10))),
            ("a", key(i.saturating_sub(2)), None),
            ("b", format!("b{i:05}-3").into_bytes(), Some(val(i + 3, 3000))),
        ])
    } else if i % 7 == 3 {
        Op::Remove(if (i - 3) % 2 == 0 { "a" } else { "b" }, key(i - 3))
    } else if i % 11 == 5 {
        Op::Clear("c")
    } else if i % 13 == 6 {
        Op::Persist((i % 3) as u8)
    } else if i % 5 == 4 {
        Op::Insert(ks, key(i), val(i, big))
    } else if i % 5 == 1 {
        Op::Insert("c", key(i), val(i, 100))
    } else {
        Op::Insert(ks, key(i), val(i, 50 + i % 40))
    }
}

fn apply(model: &mut Model, op: &Op) {
    match op {
        Op::Insert(ks, k, v) => {
            model.entry(ks).or_default().insert(k.clone(), v.clone());
        }
        Op::Remove(ks, k) => {
            model.entry(ks).or_default().remove(k);
        }
        Op::Batch(items) => {
            for (ks, k, v) in items {
                match v {
                    Some(v) => model.entry(ks).or_default().insert(k.clone(), v.clone()),
                    None => model.entry(ks).or_default().remove(k),
                };
            }
        }
        Op::Clear(ks) => {
            model.entry(ks).or_default().clear();
        }
        Op::Persist(_) => {}
    }
}

fn mode(m: u8) -> PersistMode {
    match m {
        0 => PersistMode::Buffer,
        1 => PersistMode::SyncData,
        _ => PersistMode::SyncAll,
    }
}

struct Ks {
    a: fjall::Keyspace,
    b: fjall::Keyspace,
    c: fjall::Keyspace,
}

impl Ks {
    fn get(&self, n: &str) -> &fjall::Keyspace {
        match n {
            "a" => &self.a,
            "b" => &self.b,
            _ => &self.c,
        }
    }
}

fn open_ks(db: &Database) -> fjall::Result<Ks> {
    Ok(Ks {
        a: db.keyspace("a", || {
            if env_usize("HUNT_BIG_MEMTABLE", 0) == 1 {
                KeyspaceCreateOptions::default().max_memtable_size(512 * 1024 * 1024)
            } else if env_usize("HUNT_TINY_MEMTABLE", 0) == 1 {
                KeyspaceCreateOptions::default().max_memtable_size(1_000)
            } else {
                KeyspaceCreateOptions::default()
            }
        })?,
        b: db.keyspace("b", || {
            KeyspaceCreateOptions::default()
                .with_kv_separation(Some(KvSeparationOptions::default().separation_threshold(1_000)))
        })?,
        c: db.keyspace("c", KeyspaceCreateOptions::default)?,
    })
}

fn run_op(db: &Database, ks: &Ks, op: &Op) -> fjall::Result<()> {
    match op {
        Op::Insert(n, k, v) => ks.get(n).insert(k.clone(), v.clone()),
        Op::Remove(n, k) => ks.get(n).remove(k.clone()),
        Op::Batch(items) => {
            let mut b = db.batch();
            for (n, k, v) in items {
                match v {
                    Some(v) => b.insert(ks.get(n), k.clone(), v.clone()),
                    None => b.remove(ks.get(n), k.clone()),
                }
            }
            b.commit()
        }
        Op::Clear(n) => ks.get(n).clear(),
        Op::Persist(m) => db.persist(mode(*m)),
    }
}

fn env_usize(n: &str, d: usize) -> usize {
    std::env::var(n).ok().and_then(|x| x.parse().ok()).unwrap_or(d)
}

/// Child entry point: does nothing unless HUNT_CHILD is set
#[test]
fn child() {
    let Ok(scenario) = std::env::var("HUNT_CHILD") else {
        return;
    };
    let dir = PathBuf::from(std::env::var("HUNT_DIR").unwrap());
    let log_path = PathBuf::from(std::env::var("HUNT_LOG").unwrap());
    let n_ops = env_usize("HUNT_OPS", 60);
    let big = env_usize("HUNT_BIG", 20_000);
    let manual = env_usize("HUNT_MANUAL", 0) == 1;
    let threads = env_usize("HUNT_THREADS", 1);

    let mut log = std::fs::File::create(&log_path).unwrap();

    let mut builder = Database::builder(&dir).manual_journal_persist(manual);
    if let Ok(w) = std::env::var("HUNT_WORKERS") {
        builder = builder.worker_threads_unchecked(w.parse().unwrap());
    }
    let db = builder.open().unwrap();
    let ks = std::sync::Arc::new(open_ks(&db).unwrap());
    writeln!(log, "OPENED").unwrap();

    let pre_big = env_usize("HUNT_PRE_BIG", 0);
    for j in 0..pre_big {
        run_op(&db, &ks, &big_op(j)).unwrap();
    }
    for j in 0..env_usize("HUNT_FILLER", 0) {
        run_op(&db, &ks, &Op::Insert("a", format!("fill{j:03}").into_bytes(), val(j, 10_000))).unwrap();
    }
    writeln!(log, "PRE_DONE").unwrap();
    if env_usize("HUNT_ATTACH", 0) == 1 {
        // let the parent attach strace now, so that the injection counters (which are per thread) start here
        writeln!(log, "READY {}", std::process::id()).unwrap();
        let flag = log_path.with_file_name("attached");
        while !flag.exists() {
            std::thread::sleep(std::time::Duration::from_millis(20));
        }
    }
    if env_usize("HUNT_PRE_ROTATE", 0) == 1 {
        // seal the memtable of `a`: the flush worker rotates the journal if it is > 64 MB
        ks.a.rotate_memtable().ok();
        std::thread::sleep(std::time::Duration::from_millis(1500));
    }
    let fsize = env_usize("HUNT_FSIZE", 0);
    if fsize > 0 {
        set_fsize_limit(Some(fsize as u64));
    }
    if let Ok(delta) = std::env::var("HUNT_FSIZE_DELTA") {
        // the journal has outgrown its pre-allocation, so its length is the write position
        let pos = db.journal_disk_space().unwrap();
        assert!(pos > 64 * MIB as u64 && db.journal_count() == 1);
        writeln!(log, "POS {pos}").unwrap();
        set_fsize_limit(Some(pos + delta.parse::<u64>().unwrap()));
    }

    match scenario.as_str() {
        "seq" => {
            let mut failed = false;
            for i in 0..n_ops {
                let o = op(i, big);
                let r = run_op(&db, &ks, &o);
                match &r {
                    Ok(()) => writeln!(log, "{i} OK").unwrap(),
                    Err(e) => writeln!(log, "{i} ERR {e:?}").unwrap(),
                }
                if r.is_ok() && failed {
                    writeln!(log, "VIOLATION ack after failure at op {i}: {o:?}").unwrap();
                }
                if r.is_err() {
                    failed = true;
                }
            }
        }
        "mt" => {
            // several writer threads; thread t runs ops i with i % threads == t, on its own keys
            let log = std::sync::Arc::new(std::sync::Mutex::new(log));
            let failed = std::sync::Arc::new(std::sync::atomic::AtomicBool::new(false));
            let ks = ks.clone();
            let hs: Vec<_> = (0..threads)
                .map(|t| {
                    let db = db.clone();
                    let ks = ks.clone();
                    let log = log.clone();
                    let failed = failed.clone();
                    std::thread::spawn(move || {
                        for i in (0..n_ops).filter(|i| i % threads == t) {
                            let o = op_mt(i, big);
                            // NOTE: result and flag are read/written while nobody else can complete a call in between:
                            // we take the log mutex around the call, which serializes calls, but the threads still
                            // interleave at call granularity
                            let mut l = log.lock().unwrap();
                            let was_failed = failed.load(std::sync::atomic::Ordering::SeqCst);
                            let r = run_op(&db, &ks, &o);
                            match &r {
                                Ok(()) => writeln!(l, "{i} OK").unwrap(),
                                Err(e) => writeln!(l, "{i} ERR {e:?}").unwrap(),
                            }
                            if r.is_ok() && was_failed {
                                writeln!(l, "VIOLATION ack after failure at op {i}: {o:?}").unwrap();
                            }
                            if r.is_err() {
                                failed.store(true, std::sync::atomic::Ordering::SeqCst);
                            }
                        }
                    })
                })
                .collect();
            for h in hs {
                h.join().unwrap();
            }
        }
        "tx_single" | "tx_opt" => {
            // the plain handles were only used to create the keyspaces with the right options
            drop(ks);
            drop(db);
            tx_child(&scenario, &dir, &mut log, n_ops, big);
            return;
        }
        other => panic!("unknown scenario {other}"),
    }

    if env_usize("HUNT_FSIZE_RESTORE", 0) == 1 {
        set_fsize_limit(None);
    }
    if env_usize("HUNT_POST_ROTATE", 0) == 1 {
        // poisoned or not: seal and flush everything in the background, like a busy instance would
        for n in ["a", "b", "c"] {
            ks.get(n).rotate_memtable().ok();
        }
        std::thread::sleep(std::time::Duration::from_millis(1000));
    }
    if env_usize("HUNT_ABORT", 0) == 1 {
        // crash instead of a clean drop
        std::process::abort();
    }
    drop(ks);
    drop(db);
}

fn tx_child(scenario: &str, dir: &Path, log: &mut std::fs::File, n_ops: usize, big: usize) {
    use fjall::{OptimisticTxDatabase, SingleWriterTxDatabase};

    let mut failed = false;
    let mut record = |log: &mut std::fs::File, i: usize, o: &Op, r: fjall::Result<()>| {
        match &r {
            Ok(()) => writeln!(log, "{i} OK").unwrap(),
            Err(e) => writeln!(log, "{i} ERR {e:?}").unwrap(),
        }
        if r.is_ok() && failed {
            writeln!(log, "VIOLATION ack after failure at op {i}: {o:?}").unwrap();
        }
        if r.is_err() {
            failed = true;
        }
    };

    if scenario == "tx_single" {
        let db = SingleWriterTxDatabase::builder(dir).open().unwrap();
        let a = db.keyspace("a", KeyspaceCreateOptions::default).unwrap();
        let b = db.keyspace("b", KeyspaceCreateOptions::default).unwrap();
        let c = db.keyspace("c", KeyspaceCreateOptions::default).unwrap();
        let get = |n: &str| match n {
            "a" => &a,
            "b" => &b,
            _ => &c,
        };
        writeln!(log, "TXOPENED").unwrap();
        for i in 0..n_ops {
            let o = op(i, big);
            let r = match &o {
                Op::Insert(n, k, v) => get(n).insert(k.clone(), v.clone()),
                Op::Remove(n, k) => get(n).remove(k.clone()),
                Op::Batch(items) => {
                    let mut tx = db.write_tx();
                    if i % 2 == 0 {
                        tx = tx.durability(Some(PersistMode::SyncAll));
                    }
                    for (n, k, v) in items {
                        match v {
                            Some(v) => tx.insert(get(n), k.clone(), v.clone()),
                            None => tx.remove(get(n), k.clone()),
                        }
                    }
                    tx.commit()
                }
                Op::Clear(n) => get(n).inner().clear(),
                Op::Persist(m) => db.persist(mode(*m)),
            };
            record(log, i, &o, r);
        }
    } else {
        let db = OptimisticTxDatabase::builder(dir).open().unwrap();
        let a = db.keyspace("a", KeyspaceCreateOptions::default).unwrap();
        let b = db.keyspace("b", KeyspaceCreateOptions::default).unwrap();
        let c = db.keyspace("c", KeyspaceCreateOptions::default).unwrap();
        let get = |n: &str| match n {
            "a" => &a,
            "b" => &b,
            _ => &c,
        };
        writeln!(log, "TXOPENED").unwrap();
        for i in 0..n_ops {
            let o = op(i, big);
            let r = match &o {
                Op::Insert(n, k, v) => get(n).insert(k.clone(), v.clone()),
                Op::Remove(n, k) => get(n).remove(k.clone()),
                Op::Batch(items) => (|| {
                    let mut tx = db.write_tx()?;
                    if i % 2 == 0 {
                        tx = tx.durability(Some(PersistMode::SyncData));
                    }
                    for (n, k, v) in items {
                        match v {
                            Some(v) => tx.insert(get(n), k.clone(), v.clone()),
                            None => tx.remove(get(n), k.clone()),
                        }
                    }
                    match tx.commit()? {
                        Ok(()) => Ok(()),
                        Err(_) => Err(fjall::Error::Poisoned), // no conflicts possible here
                    }
                })(),
                Op::Clear(n) => get(n).inner().clear(),
                Op::Persist(m) => db.persist(mode(*m)),
            };
            record(log, i, &o, r);
        }
    }
}

fn op_mt(i: usize, big: usize) -> Op {
    // like op(), but no cross-thread dependencies (no clear, removes only of own keys)
    match op(i, big) {
        Op::Clear(_) => Op::Insert("c", key(i), val(i, 77)),
        Op::Remove(_, _) => Op::Insert("a", key(i), val(i, 5)),
        Op::Batch(mut items) => {
            items.retain(|x| x.2.is_some());
            Op::Batch(items)
        }
        o => o,
    }
}

struct Outcome {
    log: Vec<String>,
    results: Vec<(usize, bool)>,
    status: std::process::ExitStatus,
}

#[allow(clippy::too_many_arguments)]
fn run_child(
    scenario: &str,
    dir: &Path,
    inject: &[String],
    target_file: &Path,
    envs: &[(&str, String)],
) -> Outcome {
    let log_path = dir.parent().unwrap().join("acklog");
    let exe = std::env::current_exe().unwrap();
    let attach = envs.iter().any(|x| x.0 == "HUNT_ATTACH" && x.1 == "1");
    let mut cmd;
    if inject.is_empty() || attach {
        cmd = Command::new(exe);
    } else {
        cmd = Command::new("strace");
        cmd.arg("-f").arg("-o").arg("/dev/null");
        for i in inject {
            cmd.arg("-e").arg(i);
        }
        cmd.arg("-P").arg(target_file);
        cmd.arg(exe);
    }
    cmd.arg("--exact")
        .arg("child")
        .arg("--nocapture")
        .arg("--test-threads=1");
    cmd.env("HUNT_CHILD", scenario)
        .env("HUNT_DIR", dir)
        .env("HUNT_LOG", &log_path)
        .env_remove("RUST_LOG");
    for (k, v) in envs {
        cmd.env(k, v);
    }
    let out = if attach {
        use std::io::BufRead;
        let _ = std::fs::remove_file(&log_path);
        let child = cmd
            .stdout(std::process::Stdio::piped())
            .stderr(std::process::Stdio::piped())
            .spawn()
            .unwrap();
        // wait for READY
        let pid = loop {
            let l = std::fs::read_to_string(&log_path).unwrap_or_default();
            if let Some(p) = l.lines().find_map(|l| l.strip_prefix("READY ")) {
                break p.to_string();
            }
            std::thread::sleep(std::time::Duration::from_millis(50));
        };
        let mut st = Command::new("strace");
        st.arg("-f").arg("-o").arg("/dev/null");
        for i in inject {
            st.arg("-e").arg(i);
        }
        st.arg("-P").arg(target_file).arg("-p").arg(&pid);
        let mut st = st.stderr(std::process::Stdio::piped()).spawn().unwrap();
        let mut err = std::io::BufReader::new(st.stderr.take().unwrap());
        let mut line = String::new();
        err.read_line(&mut line).unwrap();
        assert!(line.contains("attached"), "strace: {line}");
        std::thread::sleep(std::time::Duration::from_millis(300));
        std::fs::write(log_path.with_file_name("attached"), b"x").unwrap();
        let out = child.wait_with_output().unwrap();
        let _ = st.wait();
        out
    } else {
        cmd.output().unwrap()
    };
    let log: Vec<String> = std::fs::read_to_string(&log_path)
        .unwrap_or_default()
        .lines()
        .map(String::from)
        .collect();
    let results = log
        .iter()
        .filter_map(|l| {
            let mut it = l.split(' ');
            let i = it.next()?.parse::<usize>().ok()?;
            let r = it.next()?;
            Some((i, r == "OK"))
        })
        .collect();
    if !log.iter().any(|l| l == "OPENED") {
        eprintln!(
            "child did not open: {}\n{}",
            String::from_utf8_lossy(&out.stdout),
            String::from_utf8_lossy(&out.stderr)
        );
    }
    Outcome {
        log,
        results,
        status: out.status,
    }
}

fn dump(db: &Database) -> fjall::Result<Model> {
    let ks = open_ks(db)?;
    let mut m = Model::new();
    for n in ["a", "b", "c"] {
        let mut map = BTreeMap::new();
        for g in ks.get(n).iter() {
            let (k, v) = g.into_inner()?;
            map.insert(k.to_vec(), v.to_vec());
        }
        m.insert(n, map);
    }
    Ok(m)
}

fn norm(mut m: Model) -> Model {
    for n in ["a", "b", "c"] {
        m.entry(n).or_default();
    }
    m
}

fn diff(a: &Model, b: &Model) -> String {
    let mut s = String::new();
    for n in ["a", "b", "c"] {
        let (x, y) = (&a[n], &b[n]);
        for (k, v) in x {
            match y.get(k) {
                None => s += &format!("  {n}/{}: expected present, missing\n", String::from_utf8_lossy(k)),
                Some(w) if w != v => {
                    s += &format!("  {n}/{}: value differs (len {} vs {})\n", String::from_utf8_lossy(k), v.len(), w.len())
                }
                _ => {}
            }
        }
        for k in y.keys() {
            if !x.contains_key(k) {
                s += &format!("  {n}/{}: unexpected\n", String::from_utf8_lossy(k));
            }
        }
    }
    s
}

/// Checks one run: fail-stop in the log, state after reopen. Returns a description of the violation, if any
fn check(
    what: &str,
    dir: &Path,
    out: &Outcome,
    ops: &dyn Fn(usize) -> Op,
    base: &Model,
    manual: bool,
) -> Option<String> {
    if let Some(v) = out.log.iter().find(|l| l.starts_with("VIOLATION")) {
        return Some(format!("{what}: {v}"));
    }
    if !out.log.iter().any(|l| l == "OPENED") {
        return None; // fault hit the open itself; nothing acknowledged
    }

    // acknowledged ops, in log order
    let acked: Vec<usize> = out.results.iter().filter(|x| x.1).map(|x| x.0).collect();
    let first_failed = out.results.iter().find(|x| !x.1).map(|x| x.0);

    let db = match Database::builder(dir).open() {
        Ok(db) => db,
        Err(e) => return Some(format!("{what}: reopen failed: {e:?} (status {:?})", out.status)),
    };
    let got = match dump(&db) {
        Ok(g) => norm(g),
        Err(e) => return Some(format!("{what}: reading after reopen failed: {e:?}")),
    };

    // with automatic journal persist every acknowledged call must be there; with manual journal persist
    // everything up to the last acknowledged persist call must be there, and what follows as a prefix
    let from = if manual {
        acked
            .iter()
            .rposition(|i| matches!(ops(*i), Op::Persist(_)))
            .map_or(0, |p| p + 1)
    } else {
        acked.len()
    };

    let mut state = base.clone();
    for i in &acked[..from] {
        apply(&mut state, &ops(*i));
    }
    let mut k = from;
    loop {
        if got == norm(state.clone()) {
            return None;
        }
        if k == acked.len() {
            break;
        }
        apply(&mut state, &ops(acked[k]));
        k += 1;
    }
    let must = norm(state.clone());

    // only the FIRST failed op may have made it (completely); in log order it comes after all acknowledged ops
    if let Some(f) = first_failed {
        let mut alt = state;
        apply(&mut alt, &ops(f));
        let alt = norm(alt);
        if got == alt {
            return None;
        }
        return Some(format!(
            "{what}: state after reopen is neither 'acked' nor 'acked + first failed op ({f}: {:?})'\n vs acked:\n{} vs acked+failed:\n{}\nlog tail: {:?}",
            short(&ops(f)),
            diff(&must, &got),
            diff(&alt, &got),
            &out.log[out.log.len().saturating_sub(6)..],
        ));
    }
    Some(format!(
        "{what}: no failed op, but state differs from acked:\n{}",
        diff(&must, &got)
    ))
}

fn short(o: &Op) -> String {
    match o {
        Op::Insert(n, k, v) => format!("insert {n}/{} len {}", String::from_utf8_lossy(k), v.len()),
        Op::Remove(n, k) => format!("remove {n}/{}", String::from_utf8_lossy(k)),
        Op::Batch(items) => format!("batch of {}", items.len()),
        Op::Clear(n) => format!("clear {n}"),
        Op::Persist(m) => format!("persist {m}"),
    }
}

fn sweep(
    name: &str,
    scenario: &str,
    syscall_specs: &dyn Fn(usize) -> Vec<String>,
    ns: impl Iterator<Item = usize>,
    fresh: bool,
    envs: &[(&str, String)],
) -> Vec<String> {
    let mut violations = vec![];
    let big = envs
        .iter()
        .find(|x| x.0 == "HUNT_BIG")
        .map(|x| x.1.parse().unwrap())
        .unwrap_or(20_000);
    let manual = envs.iter().any(|x| x.0 == "HUNT_MANUAL" && x.1 == "1");
    let mt = scenario == "mt";

    for n in ns {
        let tmp = tempfile::tempdir().unwrap();
        let dir = tmp.path().join("db");
        let mut base = Model::new();
        let target;
        if fresh {
            target = dir.join("0.jnl");
        } else {
            // pre-populate, close, so that the child recovers an existing journal (append mode, no zero padding)
            let db = Database::builder(&dir).open().unwrap();
            let ks = open_ks(&db).unwrap();
            for i in 1000..1010 {
                let o = Op::Insert(if i % 2 == 0 { "a" } else { "b" }, key(i), val(i, 64));
                run_op(&db, &ks, &o).unwrap();
                apply(&mut base, &o);
            }
            drop(ks);
            drop(db);
            target = dir.join("0.jnl");
        }

        let out = run_child(scenario, &dir, &syscall_specs(n), &target, envs);
        let opsf = move |i: usize| if mt { op_mt(i, big) } else { op(i, big) };
        let what = format!("{name}[n={n}]");
        let n_err = out.results.iter().filter(|x| !x.1).count();
        eprintln!(
            "{what}: {} calls, {} failed, first failure at {:?}, status {:?}",
            out.results.len(),
            n_err,
            out.results.iter().find(|x| !x.1).map(|x| x.0),
            out.status.code()
        );
        if let Some(v) = check(&what, &dir, &out, &opsf, &base, manual) {
            eprintln!("!!! {v}");
            violations.push(v);
        }
    }
    violations
}

fn w_enospc(n: usize) -> Vec<String> {
    vec![format!("inject=write:error=ENOSPC:when={n}")]
}

fn w_eio_persistent(n: usize) -> Vec<String> {
    vec![format!("inject=write:error=EIO:when={n}+")]
}

fn sync_eio(n: usize) -> Vec<String> {
    vec![format!("inject=fsync,fdatasync:error=EIO:when={n}")]
}

// H1: transient ENOSPC on the n-th write(2) to a freshly created (zero pre-allocated) journal
#[test]
fn h1_enospc_nth_write_fresh_journal() {
    let v = sweep("h1", "seq", &w_enospc, 1..=70, true, &[]);
    assert!(v.is_empty(), "{v:#?}");
}

// H2: persistent EIO from the n-th write(2) on, recovered (append mode) journal
#[test]
fn h2_eio_from_nth_write_recovered_journal() {
    let v = sweep("h2", "seq", &w_eio_persistent, 1..=70, false, &[]);
    assert!(v.is_empty(), "{v:#?}");
}

// H3: fsync/fdatasync failure (persist and batch durability are the only syncing calls)
#[test]
fn h3_sync_failure() {
    let v = sweep("h3", "seq", &sync_eio, 1..=8, true, &[("HUNT_OPS", "120".into())]);
    assert!(v.is_empty(), "{v:#?}");
}

// H4: several writer threads
#[test]
fn h4_multi_thread() {
    let v = sweep(
        "h4",
        "mt",
        &w_enospc,
        (1..=60).step_by(3),
        true,
        &[("HUNT_THREADS", "4".into()), ("HUNT_OPS", "80".into())],
    );
    assert!(v.is_empty(), "{v:#?}");
}

// H5: manual journal persist: failures surface in whichever call overflows the 8 KiB buffer, or in persist
#[test]
fn h5_manual_persist() {
    let v = sweep(
        "h5",
        "seq",
        &w_enospc,
        1..=12,
        true,
        &[("HUNT_MANUAL", "1".into()), ("HUNT_OPS", "120".into())],
    );
    assert!(v.is_empty(), "{v:#?}");
}

// H6: crash (abort) instead of clean drop after the failure
#[test]
fn h6_abort_after_failure() {
    let v = sweep("h6", "seq", &w_enospc, (1..=70).step_by(2), true, &[("HUNT_ABORT", "1".into())]);
    assert!(v.is_empty(), "{v:#?}");
}

struct RunCfg {
    inject: Vec<String>,
    target: &'static str,
    envs: Vec<(&'static str, String)>,
}

fn sweep_cfg(
    name: &str,
    scenario: &str,
    cfg: &dyn Fn(usize) -> RunCfg,
    ns: impl Iterator<Item = usize>,
) -> Vec<String> {
    let mut violations = vec![];
    for n in ns {
        let c = cfg(n);
        let get = |k: &str, d: usize| {
            c.envs
                .iter()
                .find(|x| x.0 == k)
                .map(|x| x.1.parse().unwrap())
                .unwrap_or(d)
        };
        let big = get("HUNT_BIG", 20_000);
        let manual = get("HUNT_MANUAL", 0) == 1;
        let pre_big = get("HUNT_PRE_BIG", 0);
        let filler = get("HUNT_FILLER", 0);
        let mt = scenario == "mt";

        let tmp = tempfile::tempdir().unwrap();
        let dir = tmp.path().join("db");
        let target = if c.target == "." { dir.clone() } else { dir.join(c.target) };
        let out = run_child(scenario, &dir, &c.inject, &target, &c.envs);

        let mut base = Model::new();
        if out.log.iter().any(|l| l == "PRE_DONE") {
            for j in 0..pre_big {
                apply(&mut base, &big_op(j));
            }
            for j in 0..filler {
                apply(
                    &mut base,
                    &Op::Insert("a", format!("fill{j:03}").into_bytes(), val(j, 10_000)),
                );
            }
        } else if pre_big + filler > 0 {
            eprintln!("{name}[n={n}]: child died in the preparation phase, skipped");
            continue;
        }

        let opsf = move |i: usize| if mt { op_mt(i, big) } else { op(i, big) };
        let what = format!("{name}[n={n}]");
        let n_err = out.results.iter().filter(|x| !x.1).count();
        let jnls: Vec<_> = std::fs::read_dir(&dir)
            .map(|d| {
                d.filter_map(|e| {
                    let e = e.ok()?;
                    let n = e.file_name().to_string_lossy().to_string();
                    n.ends_with(".jnl")
                        .then(|| format!("{n}:{}", e.metadata().map(|m| m.len()).unwrap_or(0)))
                })
                .collect()
            })
            .unwrap_or_default();
        eprintln!(
            "{what}: {} calls, {} failed, first failure at {:?}, status {:?}, journals {jnls:?}",
            out.results.len(),
            n_err,
            out.results.iter().find(|x| !x.1).map(|x| x.0),
            out.status.code()
        );
        if let Some(v) = check(&what, &dir, &out, &opsf, &base, manual) {
            eprintln!("!!! {v}");
            violations.push(v);
        }
    }
    violations
}

// H7: genuine short writes: RLIMIT_FSIZE a little above the 64 MiB pre-allocation; the journal grows past it
// (no worker threads needed: 63 x 1 MiB + fillers, then small ops until the limit cuts a record at an arbitrary byte)
#[test]
fn h7_short_write_rlimit_fsize() {
    for restore in [0, 1] {
        let v = sweep_cfg(
            &format!("h7(restore={restore})"),
            "seq",
            &|n| RunCfg {
                inject: vec![],
                target: "0.jnl",
                envs: vec![
                    ("HUNT_PRE_BIG", "63".into()),
                    ("HUNT_FILLER", "100".into()),
                    ("HUNT_BIG", "3000".into()),
                    ("HUNT_OPS", "80".into()),
                    ("HUNT_FSIZE_DELTA", n.to_string()),
                    ("HUNT_WORKERS", "0".into()),
                    ("HUNT_FSIZE_RESTORE", restore.to_string()),
                ],
            },
            (0..1500).step_by(37),
        );
        assert!(v.is_empty(), "{v:#?}");
    }
}

// H8: failures while the flush worker rotates the journal (sealing fsync of 0.jnl; new journal 1.jnl: create,
// ftruncate, fsync; directory fsync). strace is attached after 66 MiB were written, right before the memtable is
// sealed by hand, so that "when=1" is the first such call of the rotation
#[test]
fn h8_journal_rotation_failures() {
    let specs: Vec<(&'static str, String)> = vec![
        ("0.jnl", "inject=fsync:error=EIO:when=1".into()),
        ("1.jnl", "inject=openat:error=ENOSPC:when=1".into()),
        ("1.jnl", "inject=ftruncate:error=ENOSPC:when=1".into()),
        ("1.jnl", "inject=fsync:error=EIO:when=1".into()),
        (".", "inject=fsync:error=EIO:when=1".into()),
    ];
    let v = sweep_cfg(
        "h8",
        "seq",
        &|n| RunCfg {
            inject: vec![specs[n].1.clone()],
            target: specs[n].0,
            envs: vec![
                ("HUNT_PRE_BIG", "66".into()),
                ("HUNT_BIG_MEMTABLE", "1".into()),
                ("HUNT_ATTACH", "1".into()),
                ("HUNT_PRE_ROTATE", "1".into()),
                ("HUNT_OPS", "40".into()),
                ("HUNT_POST_ROTATE", "1".into()),
            ],
        },
        0..specs.len(),
    );
    assert!(v.is_empty(), "{v:#?}");
}

// H10: after the failure the poisoned instance keeps sealing + flushing memtables in the background (transient fault)
#[test]
fn h10_poisoned_instance_keeps_flushing() {
    let v = sweep_cfg(
        "h10",
        "seq",
        &|n| RunCfg {
            inject: w_enospc(n),
            target: "0.jnl",
            envs: vec![("HUNT_POST_ROTATE", "1".into())],
        },
        (4..=70).step_by(3),
    );
    assert!(v.is_empty(), "{v:#?}");
}

// H9: transactional databases (single writer: commits with SyncAll, optimistic: commits with SyncData),
// transient ENOSPC on the n-th write; fsync failure
#[test]
fn h9_tx_databases() {
    for scenario in ["tx_single", "tx_opt"] {
        let v = sweep_cfg(
            &format!("h9w({scenario})"),
            scenario,
            &|n| RunCfg {
                inject: w_enospc(n),
                target: "0.jnl",
                envs: vec![],
            },
            (5..=70).step_by(4),
        );
        assert!(v.is_empty(), "{v:#?}");
        let v = sweep_cfg(
            &format!("h9s({scenario})"),
            scenario,
            &|n| RunCfg {
                inject: sync_eio(n),
                target: "0.jnl",
                envs: vec![],
            },
            3..=8,
        );
        assert!(v.is_empty(), "{v:#?}");
    }
}

// H12: manual journal persist, tiny memtables: the background worker (RotateMemtable -> persist(Buffer)) is the one
// that hits the write error; strace attached after start so every thread's first journal write fails
#[test]
fn h12_manual_persist_worker_hits_error() {
    let v = sweep_cfg(
        "h12",
        "seq",
        &|n| RunCfg {
            inject: w_enospc(n),
            target: "0.jnl",
            envs: vec![
                ("HUNT_MANUAL", "1".into()),
                ("HUNT_TINY_MEMTABLE", "1".into()),
                ("HUNT_OPS", "150".into()),
                ("HUNT_BIG", "2000".into()),
                ("HUNT_POST_ROTATE", "1".into()),
            ],
        },
        1..=10,
    );
    assert!(v.is_empty(), "{v:#?}");
}

// H7b: like H7, but values of 20 kB bypass the journal's BufWriter (direct write_all on the file, which is cut short),
// and the cut lands in later calls as well
#[test]
fn h7b_short_write_large_values() {
    for restore in [0, 1] {
        let v = sweep_cfg(
            &format!("h7b(restore={restore})"),
            "seq",
            &|n| RunCfg {
                inject: vec![],
                target: "0.jnl",
                envs: vec![
                    ("HUNT_PRE_BIG", "63".into()),
                    ("HUNT_FILLER", "100".into()),
                    ("HUNT_BIG", "20000".into()),
                    ("HUNT_OPS", "40".into()),
                    ("HUNT_FSIZE_DELTA", n.to_string()),
                    ("HUNT_WORKERS", "0".into()),
                    ("HUNT_FSIZE_RESTORE", restore.to_string()),
                ],
            },
            (10..120_000).step_by(7_919),
        );
        assert!(v.is_empty(), "{v:#?}");
    }
}
