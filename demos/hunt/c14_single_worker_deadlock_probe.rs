use fjall::{Database, KeyspaceCreateOptions};
use std::time::{Duration, Instant};

#[test]
fn probe_single_worker_queue_flood() -> fjall::Result<()> {
    let folder = tempfile::tempdir()?;
    let db = Database::builder(&folder).worker_threads(1).open()?;
    let ks = db.keyspace("a", || KeyspaceCreateOptions::default().max_memtable_size(64 * 1024))?;
    let stop = std::sync::Arc::new(std::sync::atomic::AtomicBool::new(false));
    let hs = (0..4).map(|t| { let ks = ks.clone(); let stop = stop.clone(); std::thread::spawn(move || {
        let mut n = 0u64;
        while !stop.load(std::sync::atomic::Ordering::Relaxed) { ks.insert(format!("{t}:{:06}", n % 5000), "x".repeat(100)).unwrap(); n += 1; }
        n
    })}).collect::<Vec<_>>();
    let start = Instant::now();
    while start.elapsed() < Duration::from_secs(8) {
        std::thread::sleep(Duration::from_secs(1));
        eprintln!("t={:?} sealed={} active_size={} tables={} flushes_q={}", start.elapsed(), ks.sealed_memtable_count(), fjall::AbstractTree::active_memtable(&ks.tree).size(), ks.table_count(), db.outstanding_flushes());
    }
    stop.store(true, std::sync::atomic::Ordering::Relaxed);
    for h in hs { eprintln!("ops={}", h.join().unwrap()); }
    std::thread::sleep(Duration::from_secs(2));
    eprintln!("after: sealed={} active_size={} tables={} flushes_q={}", ks.sealed_memtable_count(), fjall::AbstractTree::active_memtable(&ks.tree).size(), ks.table_count(), db.outstanding_flushes());
    std::process::exit(0);
}
