// CARGO_TARGET_DIR=/tmp/hunt-C14/target cargo test --offline --test hunt_demo -- --test-threads=1 --nocapture
//
// Property C14, two independent findings (src/ untouched):
//
// A) "every operation appears to take effect at one instant ... all readers agreeing on the order"
//    Point reads (get / contains_key / size_of) read at SeqNo::MAX, i.e. they see an item as soon as it is in
//    the memtable; everything else (range / iter / first_key_value / len / is_empty / snapshots / transactions)
//    reads at the *visible* seqno, which the writer only bumps afterwards (snapshot_tracker.publish).
//    So a read that started after another read had returned the new value still returns the old one.
//      FAILS:  a1_point_read_sees_insert_that_a_later_range_read_misses
//      FAILS:  a2_point_reads_see_half_a_batch
//      passes: a1_sanity_two_reads_of_the_same_kind_agree, a2_sanity_snapshot_reads_never_see_half_a_batch
//
// B) "the write stall mechanisms always let writers proceed eventually"
//    Compaction is only ever triggered by `pool_size` Compact messages per flush. While one worker runs a long
//    L0 merge, the other workers burn those messages on "L0 is busy, nothing to do". Writers that get halted
//    at >= 30 L0 runs then wait for a compaction nobody is going to start: halted forever on an idle database.
//      FAILS:  b_lost_compaction_wakeup_halts_writers_forever   (4 workers = the default on >= 4 cores)
//      passes: b_sanity_same_history_with_two_workers_recovers  (identical history, only the worker count differs)

use fjall::{AbstractTree, Database, Keyspace, KeyspaceCreateOptions, Readable};
use std::{
    sync::{
        atomic::{AtomicBool, AtomicU64, AtomicUsize, Ordering},
        Arc,
    },
    time::{Duration, Instant},
};

// ------------------------------------------------------------------------------------------------
// A) point reads vs. snapshot reads
// ------------------------------------------------------------------------------------------------

#[derive(Clone, Copy, PartialEq, Eq, Debug)]
enum Second {
    /// `Keyspace::range` (reads at the visible seqno)
    Range,
    /// `Database::snapshot` + `Snapshot::get` (reads at the visible seqno)
    SnapshotGet,
    /// `Keyspace::get` (reads at SeqNo::MAX)
    Get,
}

#[derive(Clone, Copy, PartialEq, Eq, Debug)]
enum First {
    /// `Keyspace::contains_key` (reads at SeqNo::MAX)
    ContainsKey,
    /// `Keyspace::range` (reads at the visible seqno)
    Range,
}

/// One writer inserts fresh keys k1, k2, ... (announcing the number before each call).
/// Readers wait until a first read (R1) sees the newest key, and then, strictly afterwards,
/// do a second read (R2) of the same key. Returns (trials, number of times R2 did NOT see the key).
fn insert_seen_then_missed(first: First, second: Second, run: Duration) -> (u64, u64) {
    let folder = tempfile::tempdir().unwrap();

    // everything default: no memtable rotation, flush or compaction happens in this test
    let db = Database::builder(&folder).open().unwrap();
    let ks = db
        .keyspace("default", KeyspaceCreateOptions::default)
        .unwrap();

    fn key(n: u64) -> String {
        format!("k{n:012}")
    }

    let announced = Arc::new(AtomicU64::new(0));
    let stop = Arc::new(AtomicBool::new(false));

    let writer = {
        let (ks, announced, stop) = (ks.clone(), announced.clone(), stop.clone());
        std::thread::spawn(move || {
            let mut n = 0;
            while !stop.load(Ordering::SeqCst) {
                n += 1;
                announced.store(n, Ordering::SeqCst);
                ks.insert(key(n), "value").unwrap();

                // give the readers time to get ready for the next one
                let t = Instant::now();
                while t.elapsed() < Duration::from_micros(200) {
                    std::hint::spin_loop();
                }
            }
        })
    };

    let readers: Vec<_> = (0..3)
        .map(|r| {
            let (ks, db, announced, stop) = (ks.clone(), db.clone(), announced.clone(), stop.clone());
            std::thread::spawn(move || {
                let mut trials = 0u64;
                let mut missed = 0u64;
                let mut last = 0;

                while !stop.load(Ordering::SeqCst) {
                    let n = announced.load(Ordering::SeqCst);
                    if n == last || n == 0 {
                        continue;
                    }
                    last = n;
                    let k = key(n);

                    // R1: poll until the newest key is seen
                    let t = Instant::now();
                    let mut seen = false;
                    while t.elapsed() < Duration::from_millis(5) {
                        seen = match first {
                            First::ContainsKey => ks.contains_key(&k).unwrap(),
                            First::Range => ks.range(k.clone()..=k.clone()).next().is_some(),
                        };
                        if seen {
                            break;
                        }
                    }
                    if !seen {
                        continue;
                    }

                    // R1 has returned "the key is there". R2 starts now.
                    trials += 1;
                    let seen_again = match second {
                        Second::Range => ks.range(k.clone()..=k.clone()).next().is_some(),
                        Second::SnapshotGet => db.snapshot().get(&ks, &k).unwrap().is_some(),
                        Second::Get => ks.get(&k).unwrap().is_some(),
                    };

                    if !seen_again {
                        missed += 1;
                        if missed <= 2 {
                            eprintln!(
                                "reader {r}: {first:?}({k}) returned true, the {second:?} read of the same key that started afterwards did not find it \
                                 (visible seqno now {}, next seqno {})",
                                db.visible_seqno(),
                                db.seqno(),
                            );
                        }
                    }
                }
                (trials, missed)
            })
        })
        .collect();

    std::thread::sleep(run);
    stop.store(true, Ordering::SeqCst);
    writer.join().unwrap();

    let mut trials = 0;
    let mut missed = 0;
    for r in readers {
        let (t, m) = r.join().unwrap();
        trials += t;
        missed += m;
    }
    eprintln!("{first:?} then {second:?}: trials={trials} second read missed the key {missed} times");

    // nothing is lost in the end
    let n = announced.load(Ordering::SeqCst);
    assert_eq!(n as usize, ks.len().unwrap());

    (trials, missed)
}

/// FAILS
#[test]
fn a1_point_read_sees_insert_that_a_later_range_read_misses() {
    let (trials, missed_by_range) =
        insert_seen_then_missed(First::ContainsKey, Second::Range, Duration::from_secs(5));
    let (trials2, missed_by_snapshot) = insert_seen_then_missed(
        First::ContainsKey,
        Second::SnapshotGet,
        Duration::from_secs(5),
    );
    assert!(trials > 1_000 && trials2 > 1_000, "INCONCLUSIVE");
    assert_eq!(
        (0, 0),
        (missed_by_range, missed_by_snapshot),
        "a read returned an insert, a read that STARTED AFTERWARDS did not see it: not linearizable"
    );
}

/// passes: as long as both reads are of the same kind they agree
#[test]
fn a1_sanity_two_reads_of_the_same_kind_agree() {
    let (trials, missed) =
        insert_seen_then_missed(First::ContainsKey, Second::Get, Duration::from_secs(3));
    assert!(trials > 1_000, "INCONCLUSIVE");
    assert_eq!(0, missed);

    let (trials, missed) =
        insert_seen_then_missed(First::Range, Second::Range, Duration::from_secs(3));
    assert!(trials > 1_000, "INCONCLUSIVE");
    assert_eq!(0, missed);

    // a snapshot read first, a point read second: fine as well (point reads are "ahead")
    let (trials, missed) =
        insert_seen_then_missed(First::Range, Second::Get, Duration::from_secs(3));
    assert!(trials > 1_000, "INCONCLUSIVE");
    assert_eq!(0, missed);
}

/// One writer commits batches that overwrite the same N keys with the generation number.
/// A reader reads the first key of the batch, then (afterwards) the last one.
fn batch_generations(point_reads: bool) -> (u64, u64) {
    const N: u64 = 10_000;

    let folder = tempfile::tempdir().unwrap();
    let db = Database::builder(&folder).open().unwrap();
    let ks = db
        .keyspace("default", KeyspaceCreateOptions::default)
        .unwrap();

    let commit = |generation: u64| {
        let mut batch = db.batch();
        for i in 0..N {
            batch.insert(&ks, format!("b{i:06}"), generation.to_be_bytes());
        }
        batch.commit().unwrap();
    };
    commit(0);

    let stop = Arc::new(AtomicBool::new(false));

    let reader = {
        let (ks, stop) = (ks.clone(), stop.clone());
        std::thread::spawn(move || {
            let first = format!("b{:06}", 0);
            let last = format!("b{:06}", N - 1);
            let gen = |v: &[u8]| u64::from_be_bytes(v.try_into().unwrap());

            let mut reads = 0u64;
            let mut torn = 0u64;
            while !stop.load(Ordering::SeqCst) {
                reads += 1;
                let (g_first, g_last) = if point_reads {
                    let a = gen(&ks.get(&first).unwrap().unwrap());
                    let b = gen(&ks.get(&last).unwrap().unwrap());
                    (a, b)
                } else {
                    let a = gen(&ks.range(first.clone()..=first.clone()).next().unwrap().value().unwrap());
                    let b = gen(&ks.range(last.clone()..=last.clone()).next().unwrap().value().unwrap());
                    (a, b)
                };
                // the second read started after the first one returned, so it must not be older
                if g_last < g_first {
                    torn += 1;
                    if torn <= 2 {
                        eprintln!("{first} is at generation {g_first}, read afterwards: {last} is at generation {g_last}");
                    }
                }
            }
            (reads, torn)
        })
    };

    for generation in 1..=30 {
        commit(generation);
    }
    stop.store(true, Ordering::SeqCst);
    let (reads, torn) = reader.join().unwrap();
    eprintln!("point_reads={point_reads}: {reads} read pairs, {torn} saw the batch half applied");
    (reads, torn)
}

/// FAILS
#[test]
fn a2_point_reads_see_half_a_batch() {
    let (reads, torn) = batch_generations(true);
    assert!(reads > 100, "INCONCLUSIVE");
    assert_eq!(0, torn, "a batch commit did not take effect at one instant");
}

/// passes
#[test]
fn a2_sanity_snapshot_reads_never_see_half_a_batch() {
    let (reads, torn) = batch_generations(false);
    assert!(reads > 100, "INCONCLUSIVE");
    assert_eq!(0, torn);
}

// ------------------------------------------------------------------------------------------------
// B) write halt without anybody left to end it
// ------------------------------------------------------------------------------------------------

const PRELOAD_ITEMS: u64 = 96 * 1024; // x 1 KiB values
const MIN_KEY: &str = "k00000000";
const MID_KEY: &str = "k00050000";
const MAX_KEY: &str = "k99999999";

fn big_value(seed: u64) -> Vec<u8> {
    // incompressible-ish, 2 KiB: larger than the (tiny) memtable limit,
    // so every such insert makes the memtable eligible for rotation
    let mut x = seed.wrapping_mul(0x9E37_79B9_7F4A_7C15) | 1;
    (0..2048)
        .map(|_| {
            x ^= x << 13;
            x ^= x >> 7;
            x ^= x << 17;
            (x & 0xFF) as u8
        })
        .collect()
}

fn wait_until(what: &str, timeout: Duration, mut f: impl FnMut() -> bool) -> bool {
    let start = Instant::now();
    while start.elapsed() < timeout {
        if f() {
            return true;
        }
        std::thread::sleep(Duration::from_millis(1));
    }
    eprintln!("timeout waiting for: {what}");
    false
}

/// One insert that overflows the tiny memtable -> the library rotates + flushes on its own
/// -> one more (overlapping) L0 run. Returns once the run shows up.
fn one_more_l0_run(ks: &Keyspace, seed: u64) {
    let before = ks.tree.l0_run_count();
    ks.insert(MID_KEY, big_value(seed)).unwrap();
    assert!(
        wait_until("flush adds an L0 run", Duration::from_secs(30), || ks
            .tree
            .l0_run_count()
            > before),
        "INCONCLUSIVE: flush did not happen"
    );
}

struct Outcome {
    writers_total: usize,
    writers_returned: usize,
    l0_runs_at_end: usize,
}

fn history(worker_threads: usize) -> Outcome {
    let folder = tempfile::tempdir().unwrap();

    let db = Database::builder(&folder)
        .worker_threads(worker_threads)
        .open()
        .unwrap();

    // default (leveled) compaction, everything default except for the tiny memtable
    let ks = db
        .keyspace("default", || {
            KeyspaceCreateOptions::default().max_memtable_size(1_000)
        })
        .unwrap();

    // --- 1. some existing data (bulk loaded), it ends up in the last level
    {
        let mut ingestion = ks.start_ingestion().unwrap();
        let mut x = 88172645463325252u64;
        for i in 0..PRELOAD_ITEMS {
            let v: Vec<u8> = (0..1024)
                .map(|_| {
                    x ^= x << 13;
                    x ^= x >> 7;
                    x ^= x << 17;
                    (x & 0xFF) as u8
                })
                .collect();
            ingestion.write(format!("k{i:08}"), v).unwrap();
        }
        ingestion.finish().unwrap();
    }
    assert!(wait_until(
        "ingested tables moved out of L0",
        Duration::from_secs(60),
        || ks.tree.l0_run_count() == 0 && db.active_compactions() == 0
    ));
    eprintln!(
        "[{worker_threads} workers] preloaded, tables={} l0_runs={}",
        ks.table_count(),
        ks.tree.l0_run_count()
    );

    // --- 2. four flushes whose key range spans the whole data set
    //        -> the 4th one triggers the (long) L0 -> Lmax merge "C1"
    for round in 0..4u64 {
        let before = ks.tree.l0_run_count();
        ks.insert(MIN_KEY, "x").unwrap();
        ks.insert(MAX_KEY, "x").unwrap();
        ks.insert(MID_KEY, big_value(round)).unwrap();
        assert!(
            wait_until("flush adds an L0 run", Duration::from_secs(30), || ks
                .tree
                .l0_run_count()
                > before),
            "INCONCLUSIVE"
        );
    }
    let c1_started = Instant::now();
    std::thread::sleep(Duration::from_millis(100));
    assert_eq!(4, ks.tree.l0_run_count(), "INCONCLUSIVE: C1 already done?");
    assert!(db.active_compactions() >= 1, "INCONCLUSIVE: C1 not running");

    // --- 3. while C1 runs, foreground writes go on: more flushes, more L0 runs.
    //        Each flush sends its Compact messages; with >= 3 workers they are consumed
    //        right away by an idle worker, which finds L0 busy (C1) and does nothing.
    let mut seed = 100;
    while ks.tree.l0_run_count() < 28 {
        assert!(
            ks.tree.l0_run_count() >= 4,
            "INCONCLUSIVE: C1 finished too early"
        );
        one_more_l0_run(&ks, seed);
        seed += 1;
    }
    eprintln!(
        "[{worker_threads} workers] L0 at {} runs after {:?} of C1",
        ks.tree.l0_run_count(),
        c1_started.elapsed()
    );

    // --- 4. ten more client threads, one insert each. Whoever inserts at >= 30 runs is halted
    //        (check_write_halt) *after* its item went in and its rotation was requested,
    //        so every one of them still adds a run.
    let writers_total = 10;
    let returned = Arc::new(AtomicUsize::new(0));
    let mut handles = vec![];
    for j in 0..writers_total {
        let before = ks.tree.l0_run_count();
        assert!(before >= 28, "INCONCLUSIVE: C1 finished too early ({before})");
        let ks2 = ks.clone();
        let returned = returned.clone();
        handles.push(std::thread::spawn(move || {
            ks2.insert(MID_KEY, big_value(1_000 + j as u64)).unwrap();
            returned.fetch_add(1, Ordering::SeqCst);
        }));
        assert!(
            wait_until("flush adds an L0 run", Duration::from_secs(30), || ks
                .tree
                .l0_run_count()
                > before),
            "INCONCLUSIVE"
        );
    }
    let peak = ks.tree.l0_run_count();
    eprintln!(
        "[{worker_threads} workers] L0 peaked at {peak} runs after {:?} of C1; writers returned so far: {}",
        c1_started.elapsed(),
        returned.load(Ordering::SeqCst)
    );
    assert!(peak >= 38, "INCONCLUSIVE: C1 finished too early");

    // --- 5. C1 finishes (its 4 input runs leave L0)
    assert!(
        wait_until("C1 finishes", Duration::from_secs(300), || ks
            .tree
            .l0_run_count()
            < peak),
        "INCONCLUSIVE: C1 did not finish"
    );
    eprintln!(
        "[{worker_threads} workers] C1 done after {:?}, L0 now {} runs",
        c1_started.elapsed(),
        ks.tree.l0_run_count()
    );

    // --- 6. give the halted writers plenty of time
    let all_back = wait_until(
        "halted writers proceed",
        Duration::from_secs(if worker_threads > 2 { 20 } else { 300 }),
        || returned.load(Ordering::SeqCst) == writers_total,
    );

    let completed_a = db.compactions_completed();
    std::thread::sleep(Duration::from_secs(2));
    let completed_b = db.compactions_completed();

    eprintln!(
        "[{worker_threads} workers] end: writers returned {}/{writers_total}, l0_runs={}, active_compactions={}, compactions completed in the last 2s: {}",
        returned.load(Ordering::SeqCst),
        ks.tree.l0_run_count(),
        db.active_compactions(),
        completed_b - completed_a,
    );

    let outcome = Outcome {
        writers_total,
        writers_returned: returned.load(Ordering::SeqCst),
        l0_runs_at_end: ks.tree.l0_run_count(),
    };

    if all_back {
        for h in handles {
            h.join().unwrap();
        }
        // everything acknowledged is there
        assert!(ks.get(MID_KEY).unwrap().is_some());
    } else {
        // the halted threads never come back; do not wait for them
        std::mem::forget(handles);
    }

    outcome
}

/// FAILS: with the default-ish worker count (>= 3), the writers stay halted although
/// the database is completely idle: nobody is left to trigger the L0 compaction they wait for.
#[test]
fn b_lost_compaction_wakeup_halts_writers_forever() {
    let o = history(4);
    assert_eq!(
        o.writers_total, o.writers_returned,
        "writers are still halted in check_write_halt ({} L0 runs) while no compaction is running or queued",
        o.l0_runs_at_end,
    );
}

/// Passes: same history, but with 2 workers the Compact messages are not burnt while C1 runs
/// (worker #0 only forwards them, worker #1 is busy with C1), so one is left when C1 is done.
#[test]
fn b_sanity_same_history_with_two_workers_recovers() {
    let o = history(2);
    assert_eq!(o.writers_total, o.writers_returned);
    assert!(o.l0_runs_at_end < 30);
}
