// run: CARGO_TARGET_DIR=/tmp/hunt-C07/target cargo test --offline --test hunt_demo -- --nocapture --test-threads=1
use fjall::{KeyspaceCreateOptions, OptimisticTxDatabase, Readable};
use std::sync::atomic::{AtomicBool, AtomicU64, Ordering};
use std::sync::Arc;

fn val(g: u64) -> [u8; 8] {
    g.to_be_bytes()
}

fn dec(v: &[u8]) -> u64 {
    let mut b = [0u8; 8];
    b.copy_from_slice(v);
    u64::from_be_bytes(b)
}

// ---------------------------------------------------------------------------------------------
// Candidate 1: transaction begun at instant 0 (before the first keyspace exists), oracle GC
// ---------------------------------------------------------------------------------------------
#[test]
fn c1_instant_zero_tx_lost_update() -> fjall::Result<()> {
    let folder = tempfile::tempdir()?;
    let db = OptimisticTxDatabase::builder(&folder).open()?;

    // T0 begins on the fresh database: snapshot instant 0
    let mut t0 = db.write_tx()?;

    let ks = db.keyspace("a", KeyspaceCreateOptions::default)?;

    // T0 observes: x is absent
    assert!(t0.get(&ks, "x")?.is_none());

    // concurrent commit invalidates the observation
    ks.insert("x", "1")?;

    // some unrelated read-only transactions stay open at later instants, and ordinary
    // maintenance happens: memtable rotation (runs SnapshotTracker::gc)
    // (several rounds only to be independent of the hash map iteration order inside gc)
    let mut snaps = vec![];
    for round in 0..4 {
        for i in 0..8 {
            ks.insert(format!("f{round}-{i}"), "v")?;
            snaps.push(db.read_tx());
        }
        ks.inner().rotate_memtable_and_wait()?;
    }
    eprintln!(
        "safe_to_gc = {} although a transaction with instant 0 is still open",
        db.inner().supervisor.snapshot_tracker.get_seqno_safe_to_gc()
    );

    // any commit prunes the committed-transaction table up to the watermark
    ks.insert("y", "1")?;

    // T0 acts on its stale observation ("x is absent, so create it")
    t0.insert(&ks, "x", "t0");
    let res = t0.commit()?;

    assert!(
        res.is_err(),
        "T0 read x=None, a concurrent commit wrote x, yet T0 committed: lost update, final x = {:?}",
        ks.get("x")?
    );

    drop(snaps);
    Ok(())
}

// sanity variant: the same history, but T0 begins after the keyspace was created (instant > 0)
#[test]
fn c1_sanity_nonzero_instant_conflicts() -> fjall::Result<()> {
    let folder = tempfile::tempdir()?;
    let db = OptimisticTxDatabase::builder(&folder).open()?;
    let ks = db.keyspace("a", KeyspaceCreateOptions::default)?;

    let mut t0 = db.write_tx()?;
    assert!(t0.get(&ks, "x")?.is_none());
    ks.insert("x", "1")?;

    let mut snaps = vec![];
    for round in 0..4 {
        for i in 0..8 {
            ks.insert(format!("f{round}-{i}"), "v")?;
            snaps.push(db.read_tx());
        }
        ks.inner().rotate_memtable_and_wait()?;
    }
    ks.insert("y", "1")?;

    t0.insert(&ks, "x", "t0");
    assert!(t0.commit()?.is_err());
    drop(snaps);
    Ok(())
}

// ---------------------------------------------------------------------------------------------
// Candidate 3: single-operation reads on the keyspace vs. a multi-key commit in flight
// ---------------------------------------------------------------------------------------------
fn torn_single_op_reads(n_keys: usize, generations: u64) -> fjall::Result<Option<(u64, u64)>> {
    let folder = tempfile::tempdir()?;
    let db = OptimisticTxDatabase::builder(&folder).open()?;
    let ks = db.keyspace("a", || KeyspaceCreateOptions::default().max_memtable_size(4_000_000_000))?; // (no flushes: keeps the known version-upgrade defect out of this test)

    let first = format!("k{:08}", 0);
    let last = format!("k{:08}", n_keys - 1);

    // generation 0
    {
        let mut tx = db.write_tx()?;
        for i in 0..n_keys {
            tx.insert(&ks, format!("k{i:08}"), val(0));
        }
        tx.commit()?.unwrap();
    }

    let stop = Arc::new(AtomicBool::new(false));
    let violation = Arc::new(AtomicU64::new(u64::MAX));

    let reader = {
        let ks = ks.clone();
        let stop = stop.clone();
        let violation = violation.clone();
        let first = first.clone();
        let last = last.clone();
        std::thread::spawn(move || {
            while !stop.load(Ordering::Relaxed) {
                // two single-operation transactions, strictly one after the other
                let a = dec(&ks.get(&first).unwrap().unwrap());
                let b = dec(&ks.get(&last).unwrap().unwrap());
                // every committed transaction writes ALL keys with one generation, generations
                // only grow, so whatever the second read returns must be >= the first
                if b < a {
                    violation.store((a << 32) | b, Ordering::Relaxed);
                    return;
                }
            }
        })
    };

    for g in 1..=generations {
        let mut tx = db.write_tx()?;
        for i in 0..n_keys {
            tx.insert(&ks, format!("k{i:08}"), val(g));
        }
        tx.commit()?.unwrap();
        if violation.load(Ordering::Relaxed) != u64::MAX {
            break;
        }
    }

    stop.store(true, Ordering::Relaxed);
    reader.join().unwrap();

    let v = violation.load(Ordering::Relaxed);
    Ok(if v == u64::MAX {
        None
    } else {
        Some((v >> 32, v & 0xFFFF_FFFF))
    })
}

#[test]
fn c3_single_op_get_sees_half_applied_commit() -> fjall::Result<()> {
    let v = torn_single_op_reads(20_000, 200)?;
    assert!(
        v.is_none(),
        "get(first) returned generation {} and a LATER get(last) returned generation {}: \
         the first read saw a commit that the second (later) read did not see",
        v.unwrap().0,
        v.unwrap().1
    );
    Ok(())
}

// ---------------------------------------------------------------------------------------------
// Candidate 4: read_tx snapshot vs. a multi-key commit in flight while flushes bump visible seqno
// ---------------------------------------------------------------------------------------------
#[test]
fn c4_read_tx_sees_half_applied_commit() -> fjall::Result<()> {
    let n_keys = 20_000usize;
    let folder = tempfile::tempdir()?;
    let db = OptimisticTxDatabase::builder(&folder).open()?;
    let ks = db.keyspace("a", KeyspaceCreateOptions::default)?;
    let other = db.keyspace("b", KeyspaceCreateOptions::default)?;

    let first = format!("k{:08}", 0);
    let last = format!("k{:08}", n_keys - 1);

    {
        let mut tx = db.write_tx()?;
        for i in 0..n_keys {
            tx.insert(&ks, format!("k{i:08}"), val(0));
        }
        tx.commit()?.unwrap();
    }

    let stop = Arc::new(AtomicBool::new(false));
    let violation = Arc::new(AtomicU64::new(u64::MAX));

    let reader = {
        let db = db.clone();
        let ks = ks.clone();
        let stop = stop.clone();
        let violation = violation.clone();
        std::thread::spawn(move || {
            while !stop.load(Ordering::Relaxed) {
                let snap = db.read_tx();
                let a = dec(&snap.get(&ks, &first).unwrap().unwrap());
                let b = dec(&snap.get(&ks, &last).unwrap().unwrap());
                if a != b {
                    violation.store((a << 32) | b, Ordering::Relaxed);
                    return;
                }
            }
        })
    };

    // maintenance on ANOTHER keyspace: rotation + background flush
    let flusher = {
        let other = other.clone();
        let stop = stop.clone();
        std::thread::spawn(move || {
            let mut i = 0u64;
            while !stop.load(Ordering::Relaxed) {
                other.insert("z", val(i)).unwrap();
                other.inner().rotate_memtable_and_wait().unwrap();
                i += 1;
            }
        })
    };

    for g in 1..=200u64 {
        let mut tx = db.write_tx()?;
        for i in 0..n_keys {
            tx.insert(&ks, format!("k{i:08}"), val(g));
        }
        tx.commit()?.unwrap();
        if violation.load(Ordering::Relaxed) != u64::MAX {
            break;
        }
    }

    stop.store(true, Ordering::Relaxed);
    reader.join().unwrap();
    flusher.join().unwrap();

    let v = violation.load(Ordering::Relaxed);
    assert!(
        v == u64::MAX,
        "one read_tx snapshot saw generation {} for the first key and {} for the last key of the same commit",
        v >> 32,
        v & 0xFFFF_FFFF
    );
    Ok(())
}

// sanity variant of c1 without any other snapshot: only instant 0 is retained -> watermark stays 0
#[test]
fn c1_sanity_instant_zero_alone_conflicts() -> fjall::Result<()> {
    let folder = tempfile::tempdir()?;
    let db = OptimisticTxDatabase::builder(&folder).open()?;
    let mut t0 = db.write_tx()?;
    let ks = db.keyspace("a", KeyspaceCreateOptions::default)?;
    assert!(t0.get(&ks, "x")?.is_none());
    ks.insert("x", "1")?;
    ks.inner().rotate_memtable_and_wait()?;
    ks.insert("y", "1")?;
    t0.insert(&ks, "x", "t0");
    assert!(t0.commit()?.is_err());
    Ok(())
}

// ---------------------------------------------------------------------------------------------
// Candidate 2 (side finding): an inverted range is an empty read for lsm-tree, but validating it
// panics inside the commit critical section and poisons the oracle for good
// ---------------------------------------------------------------------------------------------
#[test]
fn c2_inverted_range_poisons_oracle() -> fjall::Result<()> {
    let folder = tempfile::tempdir()?;
    let db = OptimisticTxDatabase::builder(&folder).open()?;
    let ks = db.keyspace("a", KeyspaceCreateOptions::default)?;
    ks.insert("m", "1")?;

    let mut t = db.write_tx()?;
    assert_eq!(0, t.range(&ks, "z".."a").count()); // fine: empty
    ks.insert("n", "1")?; // any concurrent commit in the same keyspace
    t.insert(&ks, "q", "1");

    let r = std::panic::catch_unwind(std::panic::AssertUnwindSafe(move || t.commit()));
    let panicked = r.is_err();
    let later = db.write_tx().is_ok();
    assert!(
        !panicked && later,
        "commit panicked = {panicked}; write_tx() still usable afterwards = {later}"
    );
    Ok(())
}

// ---------------------------------------------------------------------------------------------
// sanity for candidates 3/4: the same reader through write_tx (snapshot taken under the commit
// mutex) never sees a half-applied commit, with the same maintenance going on
// ---------------------------------------------------------------------------------------------
#[test]
fn c4_sanity_write_tx_reader_is_not_torn() -> fjall::Result<()> {
    let n_keys = 20_000usize;
    let folder = tempfile::tempdir()?;
    let db = OptimisticTxDatabase::builder(&folder).open()?;
    let ks = db.keyspace("a", KeyspaceCreateOptions::default)?;
    let other = db.keyspace("b", KeyspaceCreateOptions::default)?;

    let first = format!("k{:08}", 0);
    let last = format!("k{:08}", n_keys - 1);

    {
        let mut tx = db.write_tx()?;
        for i in 0..n_keys {
            tx.insert(&ks, format!("k{i:08}"), val(0));
        }
        tx.commit()?.unwrap();
    }

    let stop = Arc::new(AtomicBool::new(false));
    let violation = Arc::new(AtomicU64::new(u64::MAX));

    let reader = {
        let db = db.clone();
        let ks = ks.clone();
        let stop = stop.clone();
        let violation = violation.clone();
        std::thread::spawn(move || {
            let mut prev = 0;
            while !stop.load(Ordering::Relaxed) {
                let tx = db.write_tx().unwrap();
                let a = dec(&tx.get(&ks, &first).unwrap().unwrap());
                let b = dec(&tx.get(&ks, &last).unwrap().unwrap());
                if a != b || a < prev {
                    violation.store((a << 32) | b, Ordering::Relaxed);
                    return;
                }
                prev = a;
            }
        })
    };

    let flusher = {
        let other = other.clone();
        let stop = stop.clone();
        std::thread::spawn(move || {
            let mut i = 0u64;
            while !stop.load(Ordering::Relaxed) {
                other.insert("z", val(i)).unwrap();
                other.inner().rotate_memtable_and_wait().unwrap();
                i += 1;
            }
        })
    };

    for g in 1..=60u64 {
        let mut tx = db.write_tx()?;
        for i in 0..n_keys {
            tx.insert(&ks, format!("k{i:08}"), val(g));
        }
        tx.commit()?.unwrap();
    }

    stop.store(true, Ordering::Relaxed);
    reader.join().unwrap();
    flusher.join().unwrap();
    assert_eq!(u64::MAX, violation.load(Ordering::Relaxed));
    Ok(())
}

// sanity for candidate 4: without any flush/compaction running, read_tx is not torn either
// (so it is the visible-seqno bump of the background version upgrade that exposes the commit)
#[test]
fn c4_sanity_read_tx_without_maintenance_is_not_torn() -> fjall::Result<()> {
    let n_keys = 20_000usize;
    let folder = tempfile::tempdir()?;
    let db = OptimisticTxDatabase::builder(&folder).open()?;
    let ks = db.keyspace("a", KeyspaceCreateOptions::default)?;

    let first = format!("k{:08}", 0);
    let last = format!("k{:08}", n_keys - 1);
    {
        let mut tx = db.write_tx()?;
        for i in 0..n_keys {
            tx.insert(&ks, format!("k{i:08}"), val(0));
        }
        tx.commit()?.unwrap();
    }

    let stop = Arc::new(AtomicBool::new(false));
    let violation = Arc::new(AtomicU64::new(u64::MAX));
    let reader = {
        let db = db.clone();
        let ks = ks.clone();
        let stop = stop.clone();
        let violation = violation.clone();
        std::thread::spawn(move || {
            while !stop.load(Ordering::Relaxed) {
                let snap = db.read_tx();
                let a = dec(&snap.get(&ks, &first).unwrap().unwrap());
                let b = dec(&snap.get(&ks, &last).unwrap().unwrap());
                if a != b {
                    violation.store((a << 32) | b, Ordering::Relaxed);
                    return;
                }
            }
        })
    };

    for g in 1..=25u64 {
        let mut tx = db.write_tx()?;
        for i in 0..n_keys {
            tx.insert(&ks, format!("k{i:08}"), val(g));
        }
        tx.commit()?.unwrap();
    }
    stop.store(true, Ordering::Relaxed);
    reader.join().unwrap();
    assert_eq!(0, fjall::AbstractTree::table_count(&ks.inner().tree), "no flush expected");
    assert_eq!(u64::MAX, violation.load(Ordering::Relaxed));
    Ok(())
}

// ---------------------------------------------------------------------------------------------
// Candidate 8 (passes): several threads, write_tx only, invariant "sum of accounts is constant",
// with rotation/flush/compaction in the background
// ---------------------------------------------------------------------------------------------
#[test]
fn c8_bank_invariant_under_write_tx() -> fjall::Result<()> {
    const ACCOUNTS: u64 = 8;
    const START: u64 = 1_000;
    let folder = tempfile::tempdir()?;
    let db = OptimisticTxDatabase::builder(&folder).open()?;
    let ks = db.keyspace("a", KeyspaceCreateOptions::default)?;
    let audit = db.keyspace("audit", KeyspaceCreateOptions::default)?;
    for a in 0..ACCOUNTS {
        ks.insert(val(a), val(START))?;
    }

    let stop = Arc::new(AtomicBool::new(false));
    let bad = Arc::new(AtomicU64::new(u64::MAX));
    let mut handles = vec![];

    for t in 0..4u64 {
        let (db, ks, stop) = (db.clone(), ks.clone(), stop.clone());
        handles.push(std::thread::spawn(move || {
            let mut x = 0x1234_5678_9ABC_DEF1u64.wrapping_mul(t + 1);
            while !stop.load(Ordering::Relaxed) {
                x ^= x << 13;
                x ^= x >> 7;
                x ^= x << 17;
                let from = x % ACCOUNTS;
                let to = (x >> 8) % ACCOUNTS;
                if from == to {
                    continue;
                }
                let mut tx = db.write_tx().unwrap();
                let f = dec(&tx.get(&ks, val(from)).unwrap().unwrap());
                let amount = (x >> 16) % 10;
                if f < amount {
                    continue;
                }
                // different read methods on the other side
                let tv = if x & 1 == 0 {
                    dec(&tx.get(&ks, val(to)).unwrap().unwrap())
                } else {
                    let g = tx.range(&ks, val(to)..=val(to)).next().unwrap();
                    dec(&g.value().unwrap())
                };
                tx.insert(&ks, val(from), val(f - amount));
                tx.insert(&ks, val(to), val(tv + amount));
                let _ = tx.commit().unwrap();
            }
        }));
    }

    {
        let (db, ks, audit, stop, bad) =
            (db.clone(), ks.clone(), audit.clone(), stop.clone(), bad.clone());
        handles.push(std::thread::spawn(move || {
            let mut n = 0u64;
            while !stop.load(Ordering::Relaxed) {
                let mut tx = db.write_tx().unwrap();
                let sum: u64 = tx.iter(&ks).map(|g| dec(&g.value().unwrap())).sum();
                tx.insert(&audit, val(n), val(sum));
                if tx.commit().unwrap().is_ok() && sum != ACCOUNTS * START {
                    bad.store(sum, Ordering::Relaxed);
                    return;
                }
                n += 1;
            }
        }));
    }

    {
        let (ks, stop) = (ks.clone(), stop.clone());
        handles.push(std::thread::spawn(move || {
            let mut n = 0;
            while !stop.load(Ordering::Relaxed) {
                ks.inner().rotate_memtable_and_wait().unwrap();
                n += 1;
                if n % 5 == 0 {
                    ks.inner().major_compact().unwrap();
                }
            }
        }));
    }

    std::thread::sleep(std::time::Duration::from_secs(5));
    stop.store(true, Ordering::Relaxed);
    for h in handles {
        h.join().unwrap();
    }
    assert_eq!(u64::MAX, bad.load(Ordering::Relaxed), "a committed auditor saw a wrong sum");
    let sum: u64 = db.read_tx().iter(&ks).map(|g| dec(&g.value().unwrap())).sum();
    assert_eq!(ACCOUNTS * START, sum);
    Ok(())
}

// ---------------------------------------------------------------------------------------------
// Candidate 9 (passes): long-running transaction (instant > 0) across > 20_000 snapshot
// open/close cycles (SnapshotTracker::gc every 10_000 closes), rotation and major compaction:
// the conflicting commit must still be found in the committed-transaction table
// ---------------------------------------------------------------------------------------------
#[test]
fn c9_long_tx_across_tracker_gc_still_conflicts() -> fjall::Result<()> {
    let folder = tempfile::tempdir()?;
    let db = OptimisticTxDatabase::builder(&folder).open()?;
    let ks = db.keyspace("a", KeyspaceCreateOptions::default)?;
    ks.insert("x", "0")?;

    let mut t = db.write_tx()?;
    assert_eq!(Some(1), t.size_of(&ks, "x")?);
    let t_ro = db.write_tx()?; // a reader that must keep seeing the old state
    ks.insert("x", "11")?; // invalidates t's observation

    for i in 0..25_000u32 {
        ks.insert(format!("f{}", i % 100), i.to_be_bytes())?;
    }
    ks.inner().rotate_memtable_and_wait()?;
    ks.inner().major_compact()?;
    ks.insert("y", "1")?;

    assert_eq!(Some(1), t_ro.size_of(&ks, "x")?);
    assert_eq!(1, t_ro.len(&ks)?);
    assert_eq!(Some(1), t.size_of(&ks, "x")?);
    t.insert(&ks, "z", "derived from x=0");
    assert!(t.commit()?.is_err());
    assert!(ks.get("z")?.is_none());
    Ok(())
}
