// run: CARGO_TARGET_DIR=/tmp/hunt-C04/target cargo test --offline --test hunt_demo -- --test-threads=1
//
// Property C04: close + reopen reproduces exactly the same logical content.
//
// Two independent violations are demonstrated here (neither involves bulk ingestion):
//
// F1  `PersistedSeqnos::covers` (src/recovery.rs) takes the keyspace's CURRENT highest table
//     seqno as "everything up to here is persisted". That number is not monotone: a compaction
//     that removes the newest items of a keyspace (compaction filter verdict `Remove`, FIFO
//     strategy dropping tables) lowers it, so the journal records of exactly those items are
//     not "covered" anymore and are replayed on the next open -> the removed items are back.
//       f1_compaction_filter_removed_item_is_back_after_reopen      FAILS
//       f1_fifo_dropped_items_are_back_after_reopen                 FAILS
//       f1_sanity_filter_removes_older_item                         passes (persisted seqno did not regress)
//
// F2  `Keyspace::remove_weak` (src/keyspace/mod.rs) journals a WEAK tombstone but applies a
//     STRONG tombstone to the memtable (`self.tree.remove(..)`), while journal replay
//     (src/db.rs recover / src/recovery.rs) applies `tree.remove_weak(..)`. So a reopen swaps
//     the tombstone kind. When the recovered memtable is flushed, the weak tombstone and the one
//     value it belongs to annihilate each other (and lsm-tree drains everything older of that key in the
//     same memtable, including an older strong tombstone), which uncovers an even older value
//     that still sits in a table: a key that was deleted before the close is alive after the reopen.
//       f2_remove_weak_deleted_key_is_back_after_reopen             FAILS (no user operation after the reopen,
//                                                                    only the database's own recovery flush of a sealed journal)
//       f2_remove_weak_reopen_then_flush                            FAILS (cheap variant, explicit flush after reopen)
//       f2_sanity_same_history_without_reopen                       passes
//       f2_sanity_same_history_with_strong_remove                   passes

use fjall::{Database, Keyspace, KeyspaceCreateOptions};
use lsm_tree::compaction::filter::{
    CompactionFilter, Context as CompactionFilterContext, Factory, ItemAccessor, Verdict,
};
use std::sync::Arc;

type Content = Vec<(String, String)>;

fn scan(ks: &Keyspace) -> Content {
    ks.iter()
        .map(|g| {
            let (k, v) = g.into_inner().unwrap();
            (
                String::from_utf8_lossy(&k).to_string(),
                String::from_utf8_lossy(&v).to_string(),
            )
        })
        .collect()
}

fn get(ks: &Keyspace, k: &str) -> Option<String> {
    ks.get(k)
        .unwrap()
        .map(|v| String::from_utf8_lossy(&v).to_string())
}

/// Point reads have to agree with the scan
fn content(ks: &Keyspace, keys: &[&str]) -> Content {
    let s = scan(ks);
    for k in keys {
        let in_scan = s.iter().find(|(sk, _)| sk == k).map(|(_, v)| v.clone());
        assert_eq!(in_scan, get(ks, k), "point read and scan disagree on {k:?}");
    }
    s
}

// ---------------------------------------------------------------------------------------------
// F1
// ---------------------------------------------------------------------------------------------

/// Only keeps KVs that start with "a" (same filter as tests/compaction_filter.rs)
struct AFilter;

impl CompactionFilter for AFilter {
    fn filter_item(
        &mut self,
        item: ItemAccessor<'_>,
        _ctx: &CompactionFilterContext,
    ) -> lsm_tree::Result<Verdict> {
        if item.key().starts_with(b"a") {
            Ok(Verdict::Keep)
        } else {
            Ok(Verdict::Remove)
        }
    }
}

struct MyFactory;

impl Factory for MyFactory {
    fn name(&self) -> &str {
        "A"
    }

    fn make_filter(&self, _ctx: &CompactionFilterContext) -> Box<dyn CompactionFilter> {
        Box::new(AFilter)
    }
}

fn open_with_filter(path: &std::path::Path) -> fjall::Result<Database> {
    Database::builder(path)
        .with_compaction_filter_factories(Arc::new(|keyspace| match keyspace {
            "my_items" => Some(Arc::new(MyFactory)),
            _ => None,
        }))
        .open()
}

fn filter_history(keys_in_order: &[&str]) -> fjall::Result<(Content, Content)> {
    let folder = tempfile::tempdir()?;

    let before = {
        let db = open_with_filter(folder.path())?;
        let tree = db.keyspace("my_items", KeyspaceCreateOptions::default)?;

        for k in keys_in_order {
            tree.insert(*k, *k)?;
        }
        tree.rotate_memtable_and_wait()?;
        tree.major_compact()?;

        // the filter did its job
        assert!(!tree.contains_key("b")?);
        content(&tree, &["a", "abc", "b"])
    };

    let after = {
        let db = open_with_filter(folder.path())?;
        let tree = db.keyspace("my_items", KeyspaceCreateOptions::default)?;
        content(&tree, &["a", "abc", "b"])
    };

    Ok((before, after))
}

#[test]
fn f1_compaction_filter_removed_item_is_back_after_reopen() -> fjall::Result<()> {
    // "b" is the NEWEST item of the keyspace: removing it lowers get_highest_persisted_seqno()
    let (before, after) = filter_history(&["a", "abc", "b"])?;
    assert_eq!(
        before, after,
        "content before close vs. content after reopen"
    );
    Ok(())
}

#[test]
fn f1_sanity_filter_removes_older_item() -> fjall::Result<()> {
    // "b" is the OLDEST item: the highest persisted seqno stays, its journal record stays covered
    let (before, after) = filter_history(&["b", "a", "abc"])?;
    assert_eq!(
        before, after,
        "content before close vs. content after reopen"
    );
    Ok(())
}

#[test]
fn f1_fifo_dropped_items_are_back_after_reopen() -> fjall::Result<()> {
    use fjall::compaction::Fifo;

    let folder = tempfile::tempdir()?;

    let opts = || KeyspaceCreateOptions::default().compaction_strategy(Arc::new(Fifo::new(1, None)));

    let before = {
        let db = Database::builder(&folder).open()?;
        let k = db.keyspace("k", opts)?;
        k.insert("a", "1")?;
        k.insert("b", "1")?;
        k.rotate_memtable_and_wait()?;

        // FIFO (limit = 1 byte) drops the table in the background
        for _ in 0..500 {
            if k.table_count() == 0 {
                break;
            }
            std::thread::sleep(std::time::Duration::from_millis(10));
        }
        assert_eq!(0, k.table_count(), "FIFO should have dropped the table");

        content(&k, &["a", "b"])
    };
    assert!(before.is_empty());

    let after = {
        let db = Database::builder(&folder).open()?;
        let k = db.keyspace("k", opts)?;
        content(&k, &["a", "b"])
    };

    assert_eq!(
        before, after,
        "content before close vs. content after reopen"
    );
    Ok(())
}

// ---------------------------------------------------------------------------------------------
// F2
// ---------------------------------------------------------------------------------------------

/// Writes > 64 MB of incompressible data into another keyspace and flushes it,
/// which makes the flush worker rotate (seal) the journal.
fn rotate_journal(db: &Database) -> fjall::Result<()> {
    let big = db.keyspace("big", KeyspaceCreateOptions::default)?;
    let mut x: u64 = 0x1234_5678_9abc_def1;
    for i in 0..66u32 {
        let mut v = vec![0u8; 1_000_000];
        for b in v.chunks_mut(8) {
            x ^= x << 13;
            x ^= x >> 7;
            x ^= x << 17;
            let n = b.len();
            b.copy_from_slice(&x.to_le_bytes()[..n]);
        }
        big.insert(format!("big{i:03}"), v)?;
    }
    let journals = db.journal_count();
    big.rotate_memtable_and_wait()?;
    assert_eq!(journals + 1, db.journal_count(), "journal should have been rotated");
    Ok(())
}

/// `a` is created, deleted, created again (written exactly once) and then deleted by `delete_again`.
/// That is a legal use of `remove_weak` ("the key has only been written to once since its creation").
fn f2_history(
    k: &Keyspace,
    delete_again: impl Fn(&Keyspace) -> fjall::Result<()>,
) -> fjall::Result<()> {
    k.insert("a", "0")?;
    k.rotate_memtable_and_wait()?; // "0" sits in a table now
    k.remove("a")?;
    k.insert("a", "1")?;
    delete_again(k)?;
    assert_eq!(None, get(k, "a"));
    Ok(())
}

#[test]
fn f2_remove_weak_deleted_key_is_back_after_reopen() -> fjall::Result<()> {
    let folder = tempfile::tempdir()?;

    let before = {
        let db = Database::builder(&folder).open()?;
        let k = db.keyspace("k", KeyspaceCreateOptions::default)?;
        f2_history(&k, |k| k.remove_weak("a"))?;

        // k's records now live in a sealed journal (k itself is not flushed)
        rotate_journal(&db)?;

        content(&k, &["a"])
    };
    assert!(before.is_empty());

    let after = {
        let db = Database::builder(&folder).open()?;
        let k = db.keyspace("k", KeyspaceCreateOptions::default)?;

        // NOTE: No user operation at all - recovery turns the sealed journal into a sealed memtable
        // and queues its flush itself; we only wait until the database is done with that
        for _ in 0..1_000 {
            if k.sealed_memtable_count() == 0 {
                break;
            }
            std::thread::sleep(std::time::Duration::from_millis(10));
        }
        assert_eq!(0, k.sealed_memtable_count());

        content(&k, &["a"])
    };

    assert_eq!(
        before, after,
        "content before close vs. content after reopen"
    );
    Ok(())
}

#[test]
fn f2_remove_weak_reopen_then_flush() -> fjall::Result<()> {
    let folder = tempfile::tempdir()?;

    {
        let db = Database::builder(&folder).open()?;
        let k = db.keyspace("k", KeyspaceCreateOptions::default)?;
        f2_history(&k, |k| k.remove_weak("a"))?;
    }

    {
        let db = Database::builder(&folder).open()?;
        let k = db.keyspace("k", KeyspaceCreateOptions::default)?;
        assert_eq!(None, get(&k, "a"));
        k.rotate_memtable_and_wait()?;
        assert_eq!(None, get(&k, "a"), "a flush must not change the content");
        assert!(content(&k, &["a"]).is_empty());
    }

    Ok(())
}

#[test]
fn f2_sanity_same_history_without_reopen() -> fjall::Result<()> {
    let folder = tempfile::tempdir()?;

    {
        let db = Database::builder(&folder).open()?;
        let k = db.keyspace("k", KeyspaceCreateOptions::default)?;
        f2_history(&k, |k| k.remove_weak("a"))?;
        k.rotate_memtable_and_wait()?;
        assert_eq!(None, get(&k, "a"), "a flush must not change the content");
        assert!(content(&k, &["a"]).is_empty());
    }

    {
        let db = Database::builder(&folder).open()?;
        let k = db.keyspace("k", KeyspaceCreateOptions::default)?;
        assert!(content(&k, &["a"]).is_empty());
    }

    Ok(())
}

#[test]
fn f2_sanity_same_history_with_strong_remove() -> fjall::Result<()> {
    let folder = tempfile::tempdir()?;

    {
        let db = Database::builder(&folder).open()?;
        let k = db.keyspace("k", KeyspaceCreateOptions::default)?;
        f2_history(&k, |k| k.remove("a"))?;
    }

    {
        let db = Database::builder(&folder).open()?;
        let k = db.keyspace("k", KeyspaceCreateOptions::default)?;
        assert_eq!(None, get(&k, "a"));
        k.rotate_memtable_and_wait()?;
        assert_eq!(None, get(&k, "a"), "a flush must not change the content");
        assert!(content(&k, &["a"]).is_empty());
    }

    Ok(())
}
