// run: CARGO_TARGET_DIR=/tmp/hunt-C09/target cargo test --offline --test hunt_demo -- --test-threads=1
//
// Property C09 (persist(SyncData|SyncAll) / durable commits / rotation / drop make earlier writes
// power-loss durable).
//
// EXPECTED ON THE UNCHANGED CODE:
//   FAIL  empty_batch_syncall   - main finding: an empty batch committed with durability SyncAll returns
//                                 Ok(()) without flushing + syncing the journal, earlier acknowledged writes are lost
//   FAIL  noop_tx_syncall       - same finding through a write transaction that ends up writing nothing
//                                 (update_fetch with an unchanged value), committed with durability SyncAll
//   FAIL  panic_then_drop       - secondary finding: a panicking insert (empty key, validated by lsm-tree only
//                                 AFTER the journal write, with the journal mutex held) poisons the journal mutex,
//                                 so Journal::drop cannot sync any more: data written before the drop is lost
//   FAIL  empty_key_insert_bricks_database - side finding (other property): that journaled empty-key record makes
//                                 every later open panic during replay
//   PASS  everything else (controls: nonempty_batch_syncall, tx_syncall, ... and the other candidate histories)
//
// Power-loss adversary, built on strace (needs /usr/bin/strace):
//
//  * every scenario runs in a child process (this test binary re-executed under `strace -f -y`),
//  * the child takes "snapshots" (marker system call + recursive copy of the database folder),
//  * the parent replays the system call log up to the marker and keeps, for every journal file
//    (`*.jnl`), the byte ranges that were written but not followed by fsync/fdatasync on that file,
//  * those ranges are zeroed in the snapshot copy (= "everything not explicitly synced is lost"),
//  * the resulting power-loss image is opened and checked.
//  * `sanity_harness_loses_unsynced_write` shows that the adversary really drops unsynced writes.

use fjall::{Database, KeyspaceCreateOptions, PersistMode};
use std::{
    collections::HashMap,
    path::{Path, PathBuf},
};

// ------------------------------------------------------------------------------------------------
// child side
// ------------------------------------------------------------------------------------------------

fn copy_dir(from: &Path, to: &Path) {
    std::fs::create_dir_all(to).unwrap();
    for dirent in std::fs::read_dir(from).unwrap() {
        let dirent = dirent.unwrap();
        let target = to.join(dirent.file_name());
        if dirent.file_type().unwrap().is_dir() {
            copy_dir(&dirent.path(), &target);
        } else {
            // NOTE: Files may vanish concurrently (compaction), that is fine
            let _ = std::fs::copy(dirent.path(), &target);
        }
    }
}

/// Copy with plain read + write calls (so the trace sees the copy as unsynced writes)
fn copy_dir_rw(from: &Path, to: &Path) {
    use std::io::Write;
    std::fs::create_dir_all(to).unwrap();
    for dirent in std::fs::read_dir(from).unwrap() {
        let dirent = dirent.unwrap();
        let target = to.join(dirent.file_name());
        if dirent.file_type().unwrap().is_dir() {
            copy_dir_rw(&dirent.path(), &target);
        } else {
            let bytes = std::fs::read(dirent.path()).unwrap();
            let mut f = std::fs::File::create(&target).unwrap();
            f.write_all(&bytes).unwrap();
        }
    }
}

/// Marker system call + copy of the database folder
fn snapshot(dir: &Path, n: usize) {
    let _ = std::fs::File::open(format!("/HUNT_MARK_{n}"));
    copy_dir(dir, &snap_path(dir, n));
}

fn snap_path(dir: &Path, n: usize) -> PathBuf {
    let mut s = dir.as_os_str().to_owned();
    s.push(format!(".snap{n}"));
    PathBuf::from(s)
}

fn big_value(i: usize) -> Vec<u8> {
    // incompressible-ish
    let mut v = vec![0u8; 1_000_000];
    let mut x = 0x9E37_79B9_7F4A_7C15u64 ^ (i as u64);
    for b in &mut v {
        x ^= x << 13;
        x ^= x >> 7;
        x ^= x << 17;
        *b = x as u8;
    }
    v
}

fn run_scenario(name: &str, dir: &Path) -> fjall::Result<()> {
    match name {
        // sanity: insert, persist(SyncData)
        "basic_syncdata" => {
            let db = Database::builder(dir).open()?;
            let ks = db.keyspace("a", KeyspaceCreateOptions::default)?;
            ks.insert("k1", "v1")?;
            db.persist(PersistMode::SyncData)?;
            snapshot(dir, 1);
            ks.insert("k2", "v2")?; // not synced
            snapshot(dir, 2);
        }

        // sanity for the harness itself: an unsynced write MUST be lost in the image
        "basic_nosync" => {
            let db = Database::builder(dir).open()?;
            let ks = db.keyspace("a", KeyspaceCreateOptions::default)?;
            ks.insert("k1", "v1")?;
            snapshot(dir, 1);
        }

        // manual persist on both levels, small writes stay in the BufWriter
        "manual_syncall" => {
            let db = Database::builder(dir).manual_journal_persist(true).open()?;
            let ks = db.keyspace("a", || {
                KeyspaceCreateOptions::default().manual_journal_persist(true)
            })?;
            ks.insert("k1", "v1")?;
            let mut b = db.batch();
            b.insert(&ks, "k2", "v2");
            b.commit()?;
            db.persist(PersistMode::SyncAll)?;
            snapshot(dir, 1);
            ks.insert("k3", "v3")?;
            db.persist(PersistMode::Buffer)?;
            snapshot(dir, 2);
        }

        // batch with durability
        "batch_durability" => {
            let db = Database::builder(dir).open()?;
            let ks = db.keyspace("a", KeyspaceCreateOptions::default)?;
            ks.insert("k1", "v1")?;
            let mut b = db.batch().durability(Some(PersistMode::SyncData));
            b.insert(&ks, "k2", "v2");
            b.commit()?;
            snapshot(dir, 1);
        }

        // rotation: k1 is only Buffer-persisted, then the journal gets rotated
        "rotation" => {
            let db = Database::builder(dir).open()?;
            let a = db.keyspace("a", KeyspaceCreateOptions::default)?;
            let b = db.keyspace("b", KeyspaceCreateOptions::default)?;
            a.insert("k1", "v1")?;
            for i in 0..66 {
                b.insert(format!("big{i}"), big_value(i))?;
            }
            a.insert("k2", "v2")?;
            b.rotate_memtable_and_wait()?;
            assert_eq!(2, db.journal_count());
            snapshot(dir, 1);
            a.insert("k3", "v3")?;
            db.persist(PersistMode::SyncData)?;
            snapshot(dir, 2);
        }

        // clean reopen, then append + SyncData
        "reopen_append" => {
            {
                let db = Database::builder(dir).open()?;
                let ks = db.keyspace("a", KeyspaceCreateOptions::default)?;
                ks.insert("k1", "v1")?;
            }
            snapshot(dir, 1);
            {
                let db = Database::builder(dir).open()?;
                let ks = db.keyspace("a", KeyspaceCreateOptions::default)?;
                ks.insert("k2", "v2")?;
                db.persist(PersistMode::SyncData)?;
                snapshot(dir, 2);
                ks.insert("k3", "v3")?;
            }
            snapshot(dir, 3);
        }

        // drop orders
        "drop_db_before_keyspace" => {
            let db = Database::builder(dir).open()?;
            let ks = db.keyspace("a", KeyspaceCreateOptions::default)?;
            ks.insert("k1", "v1")?;
            drop(db);
            ks.insert("k2", "v2")?;
            drop(ks);
            snapshot(dir, 1);
        }

        "drop_with_threads" => {
            let db = Database::builder(dir).open()?;
            let ks = db.keyspace("a", KeyspaceCreateOptions::default)?;
            let hs = (0..4)
                .map(|t| {
                    let ks = ks.clone();
                    let db = db.clone();
                    std::thread::spawn(move || {
                        for i in 0..200 {
                            ks.insert(format!("t{t}-{i}"), "v").unwrap();
                            if i % 50 == 0 {
                                db.persist(PersistMode::SyncData).unwrap();
                            }
                        }
                    })
                })
                .collect::<Vec<_>>();
            for h in hs {
                h.join().unwrap();
            }
            drop(ks);
            drop(db);
            snapshot(dir, 1);
        }


        // an EMPTY batch committed with durability SyncAll after Buffer-level writes
        "empty_batch_syncall" => {
            let db = Database::builder(dir).open()?;
            let ks = db.keyspace("a", KeyspaceCreateOptions::default)?;
            ks.insert("k1", "v1")?;
            db.batch().durability(Some(PersistMode::SyncAll)).commit()?;
            snapshot(dir, 1);
        }

        // control for the above: a non-empty batch
        "nonempty_batch_syncall" => {
            let db = Database::builder(dir).open()?;
            let ks = db.keyspace("a", KeyspaceCreateOptions::default)?;
            ks.insert("k1", "v1")?;
            let mut b = db.batch().durability(Some(PersistMode::SyncAll));
            b.insert(&ks, "k2", "v2");
            b.commit()?;
            snapshot(dir, 1);
        }

        // a write transaction that ends up writing nothing, committed with durability SyncAll
        "noop_tx_syncall" => {
            let db = fjall::SingleWriterTxDatabase::builder(dir).open()?;
            let ks = db.keyspace("a", KeyspaceCreateOptions::default)?;
            ks.insert("k1", "v1")?;
            let mut tx = db.write_tx().durability(Some(PersistMode::SyncAll));
            // value does not change -> nothing is written
            tx.update_fetch(&ks, "k1", |v| v.cloned())?;
            tx.commit()?;
            snapshot(dir, 1);
        }

        "tx_syncall" => {
            let db = fjall::SingleWriterTxDatabase::builder(dir).open()?;
            let ks = db.keyspace("a", KeyspaceCreateOptions::default)?;
            ks.insert("k1", "v1")?;
            let mut tx = db.write_tx().durability(Some(PersistMode::SyncAll));
            tx.insert(&ks, "k2", "v2");
            tx.commit()?;
            snapshot(dir, 1);
        }

        "optimistic_tx_syncdata" => {
            let db = fjall::OptimisticTxDatabase::builder(dir).open()?;
            let ks = db.keyspace("a", KeyspaceCreateOptions::default)?;
            ks.insert("k1", "v1")?;
            let mut tx = db.write_tx()?.durability(Some(PersistMode::SyncData));
            tx.insert(&ks, "k2", "v2");
            tx.commit()?.unwrap();
            snapshot(dir, 1);
        }

        // a panicking insert (empty key) in another thread, then a regular drop
        "panic_then_drop" => {
            let db = Database::builder(dir).open()?;
            let ks = db.keyspace("a", KeyspaceCreateOptions::default)?;
            ks.insert("k1", "v1")?;
            {
                let ks = ks.clone();
                let r = std::thread::spawn(move || ks.insert("", "boom")).join();
                assert!(r.is_err());
            }
            drop(ks);
            drop(db);
            snapshot(dir, 1);
        }

        // journal compression + large values + kv separation
        "compression_blob" => {
            let db = Database::builder(dir)
                .journal_compression(fjall::CompressionType::Lz4)
                .open()?;
            let ks = db.keyspace("a", || {
                KeyspaceCreateOptions::default()
                    .with_kv_separation(Some(fjall::KvSeparationOptions::default()))
            })?;
            ks.insert("k1", "x".repeat(100_000))?;
            ks.insert("k2", big_value(7))?;
            db.persist(PersistMode::SyncData)?;
            snapshot(dir, 1);
            ks.rotate_memtable_and_wait()?;
            ks.insert("k3", "y".repeat(100_000))?;
            db.persist(PersistMode::SyncAll)?;
            snapshot(dir, 2);
        }

        // rotation, nothing synced explicitly, then drop
        "rotation_then_drop" => {
            {
                let db = Database::builder(dir).open()?;
                let a = db.keyspace("a", KeyspaceCreateOptions::default)?;
                let b = db.keyspace("b", KeyspaceCreateOptions::default)?;
                a.insert("k1", "v1")?;
                for i in 0..66 {
                    b.insert(format!("big{i}"), big_value(i))?;
                }
                b.rotate_memtable_and_wait()?;
                a.insert("k2", "v2")?;
                a.clear()?;
                a.insert("k3", "v3")?;
            }
            snapshot(dir, 1);
        }


        // writers racing a journal rotation, then SyncData
        "threads_rotation" => {
            let db = Database::builder(dir).open()?;
            let a = db.keyspace("a", KeyspaceCreateOptions::default)?;
            let b = db.keyspace("b", KeyspaceCreateOptions::default)?;
            let hs = (0..3)
                .map(|t| {
                    let a = a.clone();
                    std::thread::spawn(move || {
                        for i in 0..3_000 {
                            a.insert(format!("t{t}-{i}"), "v").unwrap();
                        }
                    })
                })
                .collect::<Vec<_>>();
            for i in 0..66 {
                b.insert(format!("big{i}"), big_value(i))?;
            }
            b.rotate_memtable_and_wait()?;
            for h in hs {
                h.join().unwrap();
            }
            assert_eq!(2, db.journal_count());
            db.persist(PersistMode::SyncData)?;
            snapshot(dir, 1);
        }

        // reopen with a sealed journal present, write, SyncData
        "reopen_with_sealed" => {
            {
                let db = Database::builder(dir).open()?;
                let a = db.keyspace("a", KeyspaceCreateOptions::default)?;
                let b = db.keyspace("b", KeyspaceCreateOptions::default)?;
                a.insert("k1", "v1")?;
                for i in 0..66 {
                    b.insert(format!("big{i}"), big_value(i))?;
                }
                b.rotate_memtable_and_wait()?;
                a.insert("k2", "v2")?;
                assert_eq!(2, db.journal_count());
            }
            {
                let db = Database::builder(dir).open()?;
                let a = db.keyspace("a", KeyspaceCreateOptions::default)?;
                a.insert("k3", "v3")?;
                db.persist(PersistMode::SyncData)?;
                snapshot(dir, 1);
                a.rotate_memtable_and_wait()?;
                a.insert("k4", "v4")?;
                db.persist(PersistMode::SyncData)?;
                snapshot(dir, 2);
            }
        }

        // process crash image (written with plain write calls, nothing synced), recovery, write, SyncData
        "crash_image_recovery" => {
            let db = Database::builder(dir).open()?;
            let a = db.keyspace("a", KeyspaceCreateOptions::default)?;
            a.insert("k1", "v1")?;

            let dir2 = PathBuf::from(std::env::var("HUNT_DIR2").unwrap());
            copy_dir_rw(dir, &dir2);

            let db2 = Database::builder(&dir2).open()?;
            let a2 = db2.keyspace("a", KeyspaceCreateOptions::default)?;
            a2.insert("k2", "v2")?;
            db2.persist(PersistMode::SyncData)?;
            snapshot(&dir2, 1);
        }


        // snapshot + iterator still alive when all handles are dropped
        "drop_with_open_snapshot" => {
            let db = Database::builder(dir).open()?;
            let ks = db.keyspace("a", KeyspaceCreateOptions::default)?;
            ks.insert("k1", "v1")?;
            let snap = db.snapshot();
            let iter = ks.iter();
            drop(ks);
            drop(db);
            snapshot(dir, 1);
            drop(iter);
            drop(snap);
        }

        _ => panic!("unknown scenario {name}"),
    }
    Ok(())
}

#[test]
fn child_entry() {
    let Ok(name) = std::env::var("HUNT_SCENARIO") else {
        return;
    };
    let dir = PathBuf::from(std::env::var("HUNT_DIR").unwrap());
    run_scenario(&name, &dir).unwrap();
}

// ------------------------------------------------------------------------------------------------
// parent side
// ------------------------------------------------------------------------------------------------

#[derive(Default, Clone, Debug)]
struct FileModel {
    size: u64,
    /// written, but not yet synced
    dirty: Vec<(u64, u64)>,
    syncs: usize,
}

#[derive(Clone, Debug)]
struct Fd {
    path: String,
    append: bool,
    pos: u64,
}

#[derive(Default)]
struct Model {
    files: HashMap<String, FileModel>,
    fds: HashMap<u64, Fd>,
}

fn fd_and_path(arg: &str) -> Option<(u64, String)> {
    // 5</tmp/x/0.jnl>
    let lt = arg.find('<')?;
    let gt = arg.rfind('>')?;
    Some((arg[..lt].trim().parse().ok()?, arg[lt + 1..gt].to_string()))
}

impl Model {
    fn apply(&mut self, line: &str) {
        // line without pid prefix, complete (unfinished/resumed already merged)
        let Some(paren) = line.find('(') else { return };
        let name = &line[..paren];
        let Some(eq) = line.rfind(" = ") else { return };
        let ret = line[eq + 3..].trim();
        let args = &line[paren + 1..eq];

        match name {
            "openat" | "open" => {
                let Some((fd, path)) = fd_and_path(ret) else {
                    return;
                };
                if !path.ends_with(".jnl") {
                    return;
                }
                let append = args.contains("O_APPEND");
                let file = self.files.entry(path.clone()).or_default();
                if args.contains("O_TRUNC") {
                    file.size = 0;
                    file.dirty.clear();
                }
                self.fds.insert(
                    fd,
                    Fd {
                        path,
                        append,
                        pos: 0,
                    },
                );
            }
            "close" => {
                if let Some((fd, _)) = fd_and_path(args.trim_end_matches(')')) {
                    self.fds.remove(&fd);
                }
            }
            "write" => {
                let first = args.split(',').next().unwrap_or_default();
                let Some((fd, path)) = fd_and_path(first) else {
                    return;
                };
                if !path.ends_with(".jnl") {
                    return;
                }
                let Ok(n) = ret.split_whitespace().next().unwrap_or("").parse::<u64>() else {
                    return;
                };
                let fdm = self.fds.get_mut(&fd).expect("write to unknown journal fd");
                let file = self.files.get_mut(&fdm.path).unwrap();
                let off = if fdm.append { file.size } else { fdm.pos };
                fdm.pos = off + n;
                file.size = file.size.max(off + n);
                file.dirty.push((off, off + n));
            }
            "pwrite64" | "writev" | "pwritev" | "pwritev2" => {
                let first = args.split(',').next().unwrap_or_default();
                if let Some((_, path)) = fd_and_path(first) {
                    assert!(!path.ends_with(".jnl"), "unexpected {name} on a journal");
                }
            }
            "ftruncate" => {
                let mut it = args.trim_end_matches(')').split(',');
                let Some((_, path)) = fd_and_path(it.next().unwrap_or_default()) else {
                    return;
                };
                if !path.ends_with(".jnl") {
                    return;
                }
                let n: u64 = it.next().unwrap().trim().parse().unwrap();
                let file = self.files.entry(path).or_default();
                file.size = n;
                file.dirty.retain(|(a, _)| *a < n);
                for r in &mut file.dirty {
                    r.1 = r.1.min(n);
                }
            }
            "fsync" | "fdatasync" => {
                if !ret.starts_with('0') {
                    return;
                }
                let Some((_, path)) = fd_and_path(args.trim_end_matches(')')) else {
                    return;
                };
                if let Some(file) = self.files.get_mut(&path) {
                    file.dirty.clear();
                    file.syncs += 1;
                }
            }
            _ => {}
        }
    }
}

struct Trace {
    /// complete system calls in order of completion
    lines: Vec<String>,
}

impl Trace {
    fn parse(log: &str) -> Self {
        let mut pending: HashMap<String, String> = HashMap::new();
        let mut lines = vec![];
        for raw in log.lines() {
            let raw = raw.trim_end();
            let Some((pid, rest)) = raw.split_once(char::is_whitespace) else {
                continue;
            };
            let rest = rest.trim_start();
            if let Some(head) = rest.strip_suffix("<unfinished ...>") {
                pending.insert(pid.to_string(), head.trim_end().to_string());
            } else if rest.starts_with("<... ") {
                let Some(idx) = rest.find("resumed>") else {
                    continue;
                };
                let tail = &rest[idx + "resumed>".len()..];
                if let Some(head) = pending.remove(pid) {
                    lines.push(format!("{head}{tail}"));
                }
            } else {
                lines.push(rest.to_string());
            }
        }
        Self { lines }
    }

    /// Model state when marker `n` was hit
    fn model_at(&self, n: usize) -> Model {
        let marker = format!("/HUNT_MARK_{n}\"");
        let mut m = Model::default();
        for line in &self.lines {
            if line.contains(&marker) {
                return m;
            }
            m.apply(line);
        }
        panic!("marker {n} not found");
    }
}

struct Run {
    dir: PathBuf,
    trace: Trace,
    _tmp: tempfile::TempDir,
}

fn run_child(scenario: &str, extra_strace_args: &[&str]) -> Run {
    let tmp = tempfile::tempdir().unwrap();
    let dir = tmp.path().join("db");
    let log = tmp.path().join("strace.log");

    let exe = std::env::current_exe().unwrap();

    let status = std::process::Command::new("strace")
        .arg("-f")
        .arg("-y")
        .args(["-s", "300"])
        .arg("-o")
        .arg(&log)
        .args([
            "-e",
            "trace=open,openat,close,write,pwrite64,writev,pwritev,pwritev2,ftruncate,fsync,fdatasync",
        ])
        .args(extra_strace_args)
        .arg(exe)
        .args(["child_entry", "--exact", "--nocapture", "--test-threads=1"])
        .env("HUNT_SCENARIO", scenario)
        .env("HUNT_DIR", &dir)
        .env("HUNT_DIR2", tmp.path().join("db2"))
        .status()
        .expect("strace should be runnable");
    assert!(status.success(), "child failed");

    let trace = Trace::parse(&std::fs::read_to_string(&log).unwrap());

    Run {
        dir,
        trace,
        _tmp: tmp,
    }
}

impl Run {
    /// Builds the power-loss image for snapshot `n`, returns its path
    fn power_loss_image(&self, n: usize) -> PathBuf {
        self.power_loss_image_of(&self.dir, n)
    }

    fn power_loss_image_of(&self, root: &Path, n: usize) -> PathBuf {
        let model = self.trace.model_at(n);
        let snap = snap_path(root, n);

        for (path, file) in &model.files {
            let rel = Path::new(path).strip_prefix(root);
            let Ok(rel) = rel else { continue };
            let target = snap.join(rel);
            if !target.exists() {
                continue;
            }
            eprintln!(
                "[image {n}] {}: size={} syncs={} unsynced={:?}",
                rel.display(),
                file.size,
                file.syncs,
                file.dirty
            );
            let mut bytes = std::fs::read(&target).unwrap();
            for (a, b) in &file.dirty {
                let a = (*a as usize).min(bytes.len());
                let b = (*b as usize).min(bytes.len());
                bytes[a..b].fill(0);
            }
            std::fs::write(&target, bytes).unwrap();
        }

        snap
    }

    /// Plain process crash image (nothing dropped)
    fn crash_image(&self, n: usize) -> PathBuf {
        snap_path(&self.dir, n)
    }
}

fn get(image: &Path, ks: &str, key: &str) -> Option<Vec<u8>> {
    let db = Database::builder(image).open().unwrap();
    let ks = db.keyspace(ks, KeyspaceCreateOptions::default).unwrap();
    ks.get(key).unwrap().map(|v| v.to_vec())
}

// ------------------------------------------------------------------------------------------------
// tests
// ------------------------------------------------------------------------------------------------

#[test]
fn sanity_harness_loses_unsynced_write() {
    let run = run_child("basic_nosync", &[]);
    let img = run.power_loss_image(1);
    assert_eq!(None, get(&img, "a", "k1"));
}

#[test]
fn basic_syncdata() {
    let run = run_child("basic_syncdata", &[]);
    let img = run.power_loss_image(1);
    assert_eq!(Some(b"v1".to_vec()), get(&img, "a", "k1"));
    let img = run.power_loss_image(2);
    assert_eq!(Some(b"v1".to_vec()), get(&img, "a", "k1"));
    assert_eq!(None, get(&img, "a", "k2"));
}

#[test]
fn manual_syncall() {
    let run = run_child("manual_syncall", &[]);
    let img = run.power_loss_image(1);
    assert_eq!(Some(b"v1".to_vec()), get(&img, "a", "k1"));
    assert_eq!(Some(b"v2".to_vec()), get(&img, "a", "k2"));
    let img = run.crash_image(2);
    assert_eq!(Some(b"v3".to_vec()), get(&img, "a", "k3"));
}

#[test]
fn batch_durability() {
    let run = run_child("batch_durability", &[]);
    let img = run.power_loss_image(1);
    assert_eq!(Some(b"v1".to_vec()), get(&img, "a", "k1"));
    assert_eq!(Some(b"v2".to_vec()), get(&img, "a", "k2"));
}

#[test]
fn rotation() {
    let run = run_child("rotation", &[]);
    let img = run.power_loss_image(1);
    assert_eq!(Some(b"v1".to_vec()), get(&img, "a", "k1"));
    assert_eq!(Some(b"v2".to_vec()), get(&img, "a", "k2"));
    let img = run.power_loss_image(2);
    assert_eq!(Some(b"v1".to_vec()), get(&img, "a", "k1"));
    assert_eq!(Some(b"v2".to_vec()), get(&img, "a", "k2"));
    assert_eq!(Some(b"v3".to_vec()), get(&img, "a", "k3"));
}

#[test]
fn reopen_append() {
    let run = run_child("reopen_append", &[]);
    let img = run.power_loss_image(1);
    assert_eq!(Some(b"v1".to_vec()), get(&img, "a", "k1"));
    let img = run.power_loss_image(2);
    assert_eq!(Some(b"v1".to_vec()), get(&img, "a", "k1"));
    assert_eq!(Some(b"v2".to_vec()), get(&img, "a", "k2"));
    let img = run.power_loss_image(3);
    assert_eq!(Some(b"v3".to_vec()), get(&img, "a", "k3"));
}

#[test]
fn drop_db_before_keyspace() {
    let run = run_child("drop_db_before_keyspace", &[]);
    let img = run.power_loss_image(1);
    assert_eq!(Some(b"v1".to_vec()), get(&img, "a", "k1"));
    assert_eq!(Some(b"v2".to_vec()), get(&img, "a", "k2"));
}

#[test]
fn drop_with_threads() {
    let run = run_child("drop_with_threads", &[]);
    let img = run.power_loss_image(1);
    for t in 0..4 {
        for i in 0..200 {
            assert_eq!(
                Some(b"v".to_vec()),
                get_cached(&img, "a", &format!("t{t}-{i}"))
            );
        }
    }
}

fn get_cached(image: &Path, ks: &str, key: &str) -> Option<Vec<u8>> {
    thread_local! {
        static DB: std::cell::RefCell<Option<(PathBuf, Database)>> = const { std::cell::RefCell::new(None) };
    }
    DB.with(|cell| {
        let mut cell = cell.borrow_mut();
        if cell.as_ref().map(|(p, _)| p.as_path()) != Some(image) {
            *cell = None;
            *cell = Some((
                image.to_path_buf(),
                Database::builder(image).open().unwrap(),
            ));
        }
        let db = &cell.as_ref().unwrap().1;
        let ks = db.keyspace(ks, KeyspaceCreateOptions::default).unwrap();
        ks.get(key).unwrap().map(|v| v.to_vec())
    })
}

#[test]
fn empty_batch_syncall() {
    let run = run_child("empty_batch_syncall", &[]);
    let img = run.power_loss_image(1);
    assert_eq!(Some(b"v1".to_vec()), get(&img, "a", "k1"));
}

#[test]
fn nonempty_batch_syncall() {
    let run = run_child("nonempty_batch_syncall", &[]);
    let img = run.power_loss_image(1);
    assert_eq!(Some(b"v1".to_vec()), get(&img, "a", "k1"));
    assert_eq!(Some(b"v2".to_vec()), get(&img, "a", "k2"));
}

#[test]
fn noop_tx_syncall() {
    let run = run_child("noop_tx_syncall", &[]);
    let img = run.power_loss_image(1);
    assert_eq!(Some(b"v1".to_vec()), get(&img, "a", "k1"));
}

#[test]
fn tx_syncall() {
    let run = run_child("tx_syncall", &[]);
    let img = run.power_loss_image(1);
    assert_eq!(Some(b"v1".to_vec()), get(&img, "a", "k1"));
    assert_eq!(Some(b"v2".to_vec()), get(&img, "a", "k2"));
}

#[test]
fn optimistic_tx_syncdata() {
    let run = run_child("optimistic_tx_syncdata", &[]);
    let img = run.power_loss_image(1);
    assert_eq!(Some(b"v1".to_vec()), get(&img, "a", "k1"));
    assert_eq!(Some(b"v2".to_vec()), get(&img, "a", "k2"));
}

#[test]
fn panic_then_drop() {
    let run = run_child("panic_then_drop", &[]);
    let img = run.power_loss_image(1);
    assert_eq!(Some(b"v1".to_vec()), get(&img, "a", "k1"));
}

#[test]
fn compression_blob() {
    let run = run_child("compression_blob", &[]);
    let img = run.power_loss_image(1);
    assert_eq!(Some(100_000), get(&img, "a", "k1").map(|v| v.len()));
    assert_eq!(Some(big_value(7)), get(&img, "a", "k2"));
    let img = run.power_loss_image(2);
    assert_eq!(Some(100_000), get(&img, "a", "k1").map(|v| v.len()));
    assert_eq!(Some(big_value(7)), get(&img, "a", "k2"));
    assert_eq!(Some(100_000), get(&img, "a", "k3").map(|v| v.len()));
}

#[test]
fn rotation_then_drop() {
    let run = run_child("rotation_then_drop", &[]);
    let img = run.power_loss_image(1);
    assert_eq!(None, get(&img, "a", "k1"));
    assert_eq!(None, get(&img, "a", "k2"));
    assert_eq!(Some(b"v3".to_vec()), get(&img, "a", "k3"));
    assert_eq!(Some(big_value(65)), get(&img, "b", "big65"));
}

#[test]
fn threads_rotation() {
    let run = run_child("threads_rotation", &[]);
    let img = run.power_loss_image(1);
    for t in 0..3 {
        for i in 0..3_000 {
            assert_eq!(
                Some(b"v".to_vec()),
                get_cached(&img, "a", &format!("t{t}-{i}")),
                "t{t}-{i}"
            );
        }
    }
}

#[test]
fn reopen_with_sealed() {
    let run = run_child("reopen_with_sealed", &[]);
    for n in [1, 2] {
        let img = run.power_loss_image(n);
        assert_eq!(Some(b"v1".to_vec()), get(&img, "a", "k1"));
        assert_eq!(Some(b"v2".to_vec()), get(&img, "a", "k2"));
        assert_eq!(Some(b"v3".to_vec()), get(&img, "a", "k3"));
        if n == 2 {
            assert_eq!(Some(b"v4".to_vec()), get(&img, "a", "k4"));
        }
        assert_eq!(Some(big_value(3)), get(&img, "b", "big3"));
    }
}

#[test]
fn crash_image_recovery() {
    let run = run_child("crash_image_recovery", &[]);
    let dir2 = run.dir.parent().unwrap().join("db2");
    let img = run.power_loss_image_of(&dir2, 1);
    assert_eq!(Some(b"v1".to_vec()), get(&img, "a", "k1"));
    assert_eq!(Some(b"v2".to_vec()), get(&img, "a", "k2"));
}

// Side finding (no strace needed): a rejected (panicking) insert of an empty key is journaled before
// it is validated, so every later open of the database panics during journal replay - including
// data that was made durable with persist(SyncAll) before.
#[test]
fn empty_key_insert_bricks_database() {
    let folder = tempfile::tempdir().unwrap();
    {
        let db = Database::builder(&folder).open().unwrap();
        let ks = db.keyspace("a", KeyspaceCreateOptions::default).unwrap();
        ks.insert("k1", "v1").unwrap();
        db.persist(PersistMode::SyncAll).unwrap();
        {
            let ks = ks.clone();
            assert!(std::thread::spawn(move || ks.insert("", "boom")).join().is_err());
        }
    }
    let folder_path = folder.path().to_path_buf();
    let reopened = std::thread::spawn(move || get(&folder_path, "a", "k1")).join();
    assert_eq!(Some(b"v1".to_vec()), reopened.expect("reopen must not panic"));
}

#[test]
fn drop_with_open_snapshot() {
    let run = run_child("drop_with_open_snapshot", &[]);
    let img = run.power_loss_image(1);
    assert_eq!(Some(b"v1".to_vec()), get(&img, "a", "k1"));
}
