// CARGO_TARGET_DIR=/tmp/hunt-C16/target cargo test --offline --test hunt_demo -- --test-threads=1 --nocapture
//
// Hunt for violations of property C16 (keyspace options chosen at creation stay in force).

use fjall::config::{
    BlockSizePolicy, BloomConstructionPolicy, CompressionPolicy, FilterPolicy, FilterPolicyEntry,
    HashRatioPolicy, PinningPolicy, RestartIntervalPolicy,
};
use fjall::{
    AbstractTree, CompressionType, Database, Keyspace, KeyspaceCreateOptions,
    KvSeparationOptions, OptimisticTxDatabase, SingleWriterTxDatabase,
};
use std::path::Path;
use std::sync::Arc;

// ---------------------------------------------------------------------------------------------
// tiny deterministic RNG
// ---------------------------------------------------------------------------------------------

struct Rng(u64);

impl Rng {
    fn next(&mut self) -> u64 {
        // xorshift64*
        let mut x = self.0;
        x ^= x >> 12;
        x ^= x << 25;
        x ^= x >> 27;
        self.0 = x;
        x.wrapping_mul(0x2545_F491_4F6C_DD1D)
    }

    fn below(&mut self, n: u64) -> u64 {
        self.next() % n
    }

    fn bool(&mut self) -> bool {
        self.next() & 1 == 1
    }

    fn len(&mut self) -> usize {
        match self.below(6) {
            0 => 1,
            1 => 255,
            2 => 254,
            3 => 128,
            4 => 7,
            _ => 1 + self.below(255) as usize,
        }
    }

    fn f32(&mut self, extreme: bool) -> f32 {
        if extreme {
            match self.below(10) {
                0 => f32::MAX,
                1 => f32::MIN,
                2 => f32::INFINITY,
                3 => f32::NEG_INFINITY,
                4 => -0.0,
                5 => f32::MIN_POSITIVE,
                6 => f32::from_bits(1), // subnormal
                7 => f32::NAN,
                8 => f32::from_bits(0xFFC0_1234), // NaN with payload
                _ => f32::from_bits(self.next() as u32),
            }
        } else {
            (self.below(1_000_000) as f32) / 1_000_000.0
        }
    }

    fn u64(&mut self) -> u64 {
        match self.below(6) {
            0 => 0,
            1 => u64::MAX,
            2 => u64::MAX - 1,
            3 => 1 << 63,
            4 => u64::from(u32::MAX) + 1,
            _ => self.next(),
        }
    }

    fn u32(&mut self) -> u32 {
        match self.below(5) {
            0 => 0,
            1 => u32::MAX,
            2 => 1 << 31,
            3 => 0x0100_0000,
            _ => self.next() as u32,
        }
    }

    fn u8(&mut self) -> u8 {
        match self.below(4) {
            0 => 0,
            1 => 255,
            2 => 1,
            _ => self.next() as u8,
        }
    }
}

// ---------------------------------------------------------------------------------------------
// A comparable description of everything observable about a keyspace's options
// ---------------------------------------------------------------------------------------------

#[derive(Debug, PartialEq, Eq, Clone)]
struct Fingerprint {
    hash_ratio: Vec<u32>,
    block_size: Vec<u32>,
    data_restart: Vec<u8>,
    index_restart: Vec<u8>,
    index_pin: Vec<bool>,
    filter_pin: Vec<bool>,
    filter_part: Vec<bool>,
    index_part: Vec<bool>,
    point_read_hits: bool,
    filter: Vec<(u8, u32)>,
    data_compression: Vec<CompressionType>,
    index_compression: Vec<CompressionType>,
    strategy_name: String,
    strategy_cfg: Vec<(Vec<u8>, Vec<u8>)>,
    blob: Option<(CompressionType, u64, u32, u32, u32)>,
}

fn filter_fp(p: &FilterPolicy) -> Vec<(u8, u32)> {
    p.iter()
        .map(|e| match e {
            FilterPolicyEntry::None => (0, 0),
            FilterPolicyEntry::Bloom(BloomConstructionPolicy::BitsPerKey(x)) => (1, x.to_bits()),
            FilterPolicyEntry::Bloom(BloomConstructionPolicy::FalsePositiveRate(x)) => {
                (2, x.to_bits())
            }
        })
        .collect()
}

fn fingerprint(o: &KeyspaceCreateOptions) -> Fingerprint {
    Fingerprint {
        hash_ratio: o
            .data_block_hash_ratio_policy
            .iter()
            .map(|x| x.to_bits())
            .collect(),
        block_size: o.data_block_size_policy.to_vec(),
        data_restart: o.data_block_restart_interval_policy.to_vec(),
        index_restart: o.index_block_restart_interval_policy.to_vec(),
        index_pin: o.index_block_pinning_policy.to_vec(),
        filter_pin: o.filter_block_pinning_policy.to_vec(),
        filter_part: o.filter_block_partitioning_policy.to_vec(),
        index_part: o.index_block_partitioning_policy.to_vec(),
        point_read_hits: o.expect_point_read_hits,
        filter: filter_fp(&o.filter_policy),
        data_compression: o.data_block_compression_policy.to_vec(),
        index_compression: o.index_block_compression_policy.to_vec(),
        strategy_name: o.compaction_strategy.get_name().to_string(),
        strategy_cfg: o
            .compaction_strategy
            .get_config()
            .into_iter()
            .map(|(k, v)| (k.to_vec(), v.to_vec()))
            .collect(),
        blob: o.kv_separation_opts.as_ref().map(|b| {
            (
                b.compression,
                b.file_target_size,
                b.separation_threshold,
                b.staleness_threshold.to_bits(),
                b.age_cutoff.to_bits(),
            )
        }),
    }
}

/// The options the underlying LSM-tree really runs with
fn tree_fingerprint(ks: &Keyspace) -> Fingerprint {
    let c = ks.tree.tree_config();
    Fingerprint {
        hash_ratio: c
            .data_block_hash_ratio_policy
            .iter()
            .map(|x| x.to_bits())
            .collect(),
        block_size: c.data_block_size_policy.to_vec(),
        data_restart: c.data_block_restart_interval_policy.to_vec(),
        // NOTE: not applied to the tree (not supported by lsm-tree yet)
        index_restart: ks.config.index_block_restart_interval_policy.to_vec(),
        index_pin: c.index_block_pinning_policy.to_vec(),
        filter_pin: c.filter_block_pinning_policy.to_vec(),
        filter_part: c.filter_block_partitioning_policy.to_vec(),
        index_part: c.index_block_partitioning_policy.to_vec(),
        // NOTE: private in lsm-tree's config
        point_read_hits: ks.config.expect_point_read_hits,
        filter: filter_fp(&c.filter_policy),
        data_compression: c.data_block_compression_policy.to_vec(),
        index_compression: c.index_block_compression_policy.to_vec(),
        strategy_name: ks.config.compaction_strategy.get_name().to_string(),
        strategy_cfg: ks
            .config
            .compaction_strategy
            .get_config()
            .into_iter()
            .map(|(k, v)| (k.to_vec(), v.to_vec()))
            .collect(),
        blob: c.kv_separation_opts.as_ref().map(|b| {
            (
                b.compression,
                b.file_target_size,
                b.separation_threshold,
                b.staleness_threshold.to_bits(),
                b.age_cutoff.to_bits(),
            )
        }),
    }
}

fn random_compression(rng: &mut Rng) -> CompressionType {
    if rng.bool() {
        CompressionType::None
    } else {
        CompressionType::Lz4
    }
}

fn random_options(rng: &mut Rng, extreme: bool) -> KeyspaceCreateOptions {
    let mut o = KeyspaceCreateOptions::default();

    if rng.below(8) != 0 {
        let n = rng.len();
        o = o.data_block_hash_ratio_policy(HashRatioPolicy::new(
            (0..n).map(|_| rng.f32(extreme)).collect::<Vec<_>>(),
        ));
    }
    if rng.below(8) != 0 {
        let n = rng.len();
        o = o.data_block_size_policy(BlockSizePolicy::new(
            (0..n)
                .map(|_| {
                    if extreme {
                        rng.u32()
                    } else {
                        1_024 + rng.below(60_000) as u32
                    }
                })
                .collect::<Vec<_>>(),
        ));
    }
    if rng.below(8) != 0 {
        let n = rng.len();
        o = o.data_block_restart_interval_policy(RestartIntervalPolicy::new(
            (0..n)
                .map(|_| if extreme { rng.u8() } else { 1 + rng.below(30) as u8 })
                .collect::<Vec<_>>(),
        ));
    }
    if rng.below(8) != 0 {
        let n = rng.len();
        // no setter, but a (doc-hidden) public field that is stored as well
        o.index_block_restart_interval_policy = RestartIntervalPolicy::new(
            (0..n)
                .map(|_| if extreme { rng.u8() } else { 1 + rng.below(30) as u8 })
                .collect::<Vec<_>>(),
        );
    }
    if rng.below(8) != 0 {
        let n = rng.len();
        o = o.index_block_pinning_policy(PinningPolicy::new(
            (0..n).map(|_| rng.bool()).collect::<Vec<_>>(),
        ));
    }
    if rng.below(8) != 0 {
        let n = rng.len();
        o = o.filter_block_pinning_policy(PinningPolicy::new(
            (0..n).map(|_| rng.bool()).collect::<Vec<_>>(),
        ));
    }
    if rng.below(8) != 0 {
        let n = rng.len();
        o = o.filter_block_partitioning_policy(PinningPolicy::new(
            (0..n).map(|_| rng.bool()).collect::<Vec<_>>(),
        ));
    }
    if rng.below(8) != 0 {
        let n = rng.len();
        o = o.index_block_partitioning_policy(PinningPolicy::new(
            (0..n).map(|_| rng.bool()).collect::<Vec<_>>(),
        ));
    }
    o = o.expect_point_read_hits(rng.bool());
    if rng.below(8) != 0 {
        let n = rng.len();
        o = o.filter_policy(FilterPolicy::new(
            (0..n)
                .map(|_| match rng.below(3) {
                    0 => FilterPolicyEntry::None,
                    1 => FilterPolicyEntry::Bloom(BloomConstructionPolicy::BitsPerKey(
                        if extreme {
                            rng.f32(true)
                        } else {
                            rng.below(20) as f32
                        },
                    )),
                    _ => FilterPolicyEntry::Bloom(BloomConstructionPolicy::FalsePositiveRate(
                        if extreme {
                            rng.f32(true)
                        } else {
                            0.0001 + rng.f32(false) / 2.0
                        },
                    )),
                })
                .collect::<Vec<_>>(),
        ));
    }
    if rng.below(8) != 0 {
        let n = rng.len();
        o = o.data_block_compression_policy(CompressionPolicy::new(
            (0..n).map(|_| random_compression(rng)).collect::<Vec<_>>(),
        ));
    }
    if rng.below(8) != 0 {
        let n = rng.len();
        o = o.index_block_compression_policy(CompressionPolicy::new(
            (0..n).map(|_| random_compression(rng)).collect::<Vec<_>>(),
        ));
    }

    o = o.manual_journal_persist(rng.bool());
    o = o.max_memtable_size(if extreme {
        rng.u64()
    } else {
        1_000 + rng.below(100_000_000)
    });

    match rng.below(3) {
        0 => {}
        1 => {
            let n = match rng.below(5) {
                0 => 0,
                1 => 255,
                _ => rng.below(256) as usize,
            };
            o = o.compaction_strategy(Arc::new(
                fjall::compaction::Leveled::default()
                    .with_l0_threshold(if extreme { rng.u8() } else { 2 + rng.below(10) as u8 })
                    .with_table_target_size(if extreme {
                        rng.u64()
                    } else {
                        1_000_000 + rng.below(100_000_000)
                    })
                    .with_level_ratio_policy(
                        (0..n)
                            .map(|_| {
                                if extreme {
                                    rng.f32(true)
                                } else {
                                    2.0 + rng.below(20) as f32
                                }
                            })
                            .collect(),
                    ),
            ));
        }
        _ => {
            let ttl = match rng.below(4) {
                0 => None,
                1 => Some(0),
                2 => Some(u64::MAX),
                _ => Some(rng.u64()),
            };
            o = o.compaction_strategy(Arc::new(fjall::compaction::Fifo::new(rng.u64(), ttl)));
        }
    }

    if rng.bool() {
        o = o.with_kv_separation(Some(
            KvSeparationOptions::default()
                .compression(random_compression(rng))
                .file_target_size(if extreme {
                    rng.u64()
                } else {
                    1_000 + rng.below(100_000_000)
                })
                .separation_threshold(if extreme {
                    rng.u32()
                } else {
                    1 + rng.below(100_000) as u32
                })
                .staleness_threshold(rng.f32(extreme))
                .age_cutoff(rng.f32(extreme)),
        ));
    }

    o
}

fn assert_same(what: &str, expected: &Fingerprint, ks: &Keyspace) {
    assert_eq!(
        *expected,
        fingerprint(&ks.config),
        "{what}: Keyspace.config differs from the options chosen at creation",
    );
    assert_eq!(
        *expected,
        tree_fingerprint(ks),
        "{what}: options the tree runs with differ from the options chosen at creation",
    );
    assert_eq!(
        expected.blob.is_some(),
        ks.is_kv_separated(),
        "{what}: kv separation",
    );
}

fn copy_dir(from: &Path, to: &Path) {
    std::fs::create_dir_all(to).unwrap();
    for dirent in std::fs::read_dir(from).unwrap() {
        let dirent = dirent.unwrap();
        let target = to.join(dirent.file_name());
        if dirent.file_type().unwrap().is_dir() {
            copy_dir(&dirent.path(), &target);
        } else {
            match std::fs::copy(dirent.path(), &target) {
                Ok(_) => {}
                // a background worker may delete files meanwhile
                Err(e) if e.kind() == std::io::ErrorKind::NotFound => {}
                Err(e) => panic!("copy {:?} failed: {e:?}", dirent.path()),
            }
        }
    }
}

// ---------------------------------------------------------------------------------------------
// Candidate 1: random option combinations (policy vectors of every allowed length, extreme
// numeric values) survive reopen, whatever is passed on reopen
// ---------------------------------------------------------------------------------------------

#[test]
fn c16_random_options_roundtrip() -> fjall::Result<()> {
    let mut rng = Rng(0xC16_C16_C16);

    for round in 0..25 {
        let folder = tempfile::tempdir()?;
        let extreme = round % 2 == 0;

        let mut expected = vec![];

        {
            let db = Database::builder(&folder).open()?;

            for i in 0..4 {
                let opts = random_options(&mut rng, extreme);
                expected.push(fingerprint(&opts));
                let ks = db.keyspace(&format!("ks{i}"), || opts)?;
                assert_same(&format!("round {round} ks{i} fresh"), &expected[i], &ks);
            }
        }

        for reopen in 0..2 {
            let db = Database::builder(&folder).open()?;

            for (i, fp) in expected.iter().enumerate() {
                // Whatever is passed now must be ignored
                let other = random_options(&mut rng, false);
                let ks = db.keyspace(&format!("ks{i}"), || other)?;
                assert_same(&format!("round {round} ks{i} reopen {reopen}"), fp, &ks);
            }
        }
    }

    Ok(())
}

// ---------------------------------------------------------------------------------------------
// Candidate 2: delete + reopen + re-create (keyspace ID is reused after the reopen) with
// structurally different options (blob -> no blob, FIFO -> leveled, ...)
// ---------------------------------------------------------------------------------------------

#[test]
fn c16_delete_recreate_reuses_id() -> fjall::Result<()> {
    let folder = tempfile::tempdir()?;

    let first = || {
        KeyspaceCreateOptions::default()
            .with_kv_separation(Some(
                KvSeparationOptions::default()
                    .separation_threshold(77)
                    .file_target_size(1234),
            ))
            .compaction_strategy(Arc::new(fjall::compaction::Fifo::new(999, Some(5))))
            .max_memtable_size(1_000)
            .manual_journal_persist(true)
            .expect_point_read_hits(true)
            .data_block_size_policy(BlockSizePolicy::new([1_111, 2_222, 3_333]))
    };

    let second = || {
        KeyspaceCreateOptions::default()
            .compaction_strategy(Arc::new(
                fjall::compaction::Leveled::default()
                    .with_l0_threshold(9)
                    .with_level_ratio_policy(vec![3.0, 4.0]),
            ))
            .data_block_size_policy(BlockSizePolicy::all(5_555))
    };

    let path_of_first;

    {
        let db = Database::builder(&folder).open()?;
        let _keep = db.keyspace("keep", KeyspaceCreateOptions::default)?;
        let ks = db.keyspace("victim", first)?;
        path_of_first = ks.path().to_path_buf();
        // NOTE: no data is written: journal records of the ID would prevent its reuse
        assert_same("first", &fingerprint(&first()), &ks);
        db.delete_keyspace(ks)?;
    }

    {
        let db = Database::builder(&folder).open()?;
        assert!(!db.keyspace_exists("victim"));
        let ks = db.keyspace("victim", second)?;
        assert_eq!(path_of_first, ks.path(), "test expects the ID to be reused");
        assert_same("second, fresh", &fingerprint(&second()), &ks);
        ks.insert("a", "c")?;
    }

    for _ in 0..2 {
        let db = Database::builder(&folder).open()?;
        let ks = db.keyspace("victim", first)?;
        assert_same("second, reopened", &fingerprint(&second()), &ks);
        assert_eq!(&*ks.get("a")?.unwrap(), b"c");
    }

    // And the other direction: delete again, re-create with the first options
    {
        let db = Database::builder(&folder).open()?;
        let ks = db.keyspace("victim", first)?;
        db.delete_keyspace(ks)?;
    }
    {
        let db = Database::builder(&folder).open()?;
        let ks = db.keyspace("victim", first)?;
        assert_same("third, fresh", &fingerprint(&first()), &ks);
    }
    {
        let db = Database::builder(&folder).open()?;
        let ks = db.keyspace("victim", second)?;
        assert_same("third, reopened", &fingerprint(&first()), &ks);
    }

    Ok(())
}

// ---------------------------------------------------------------------------------------------
// Candidate 3: many keyspaces (meta keyspace gets compacted many times, IDs > 255),
// interleaved deletes
// ---------------------------------------------------------------------------------------------

#[test]
fn c16_many_keyspaces() -> fjall::Result<()> {
    let folder = tempfile::tempdir()?;
    let mut rng = Rng(777);

    let mut expected: Vec<(String, Fingerprint)> = vec![];

    for session in 0..3 {
        let db = Database::builder(&folder).open()?;

        for (name, fp) in &expected {
            let ks = db.keyspace(name, KeyspaceCreateOptions::default)?;
            assert_same(&format!("session {session} {name}"), fp, &ks);
        }

        for i in 0..100 {
            let name = format!("s{session}_k{i}");
            let opts = random_options(&mut rng, i % 2 == 0);
            let fp = fingerprint(&opts);
            let ks = db.keyspace(&name, || opts)?;
            assert_same(&format!("fresh {name}"), &fp, &ks);
            expected.push((name, fp));

            // Delete some older keyspace now and then
            if i % 7 == 3 {
                let idx = rng.below(expected.len() as u64) as usize;
                let (name, _) = expected.remove(idx);
                let ks = db.keyspace(&name, || unreachable!())?;
                db.delete_keyspace(ks)?;
            }
        }
    }

    for _ in 0..2 {
        let db = Database::builder(&folder).open()?;
        assert_eq!(expected.len(), db.keyspace_count());

        for (name, fp) in &expected {
            let ks = db.keyspace(name, KeyspaceCreateOptions::default)?;
            assert_same(&format!("final {name}"), fp, &ks);
        }
    }

    Ok(())
}

// ---------------------------------------------------------------------------------------------
// Candidate 4: crash image (directory copied while the database is open)
// ---------------------------------------------------------------------------------------------

#[test]
fn c16_crash_image() -> fjall::Result<()> {
    let folder = tempfile::tempdir()?;
    let image = tempfile::tempdir()?;
    let mut rng = Rng(4242);

    let mut expected = vec![];

    let db = Database::builder(&folder).open()?;

    for i in 0..10 {
        let opts = random_options(&mut rng, false)
            .with_kv_separation(None)
            .compaction_strategy(Arc::new(fjall::compaction::Leveled::default()))
            .data_block_hash_ratio_policy(HashRatioPolicy::all(0.0));
        expected.push(fingerprint(&opts));
        let ks = db.keyspace(&format!("ks{i}"), || opts)?;
        ks.insert("k", "v")?;
    }

    db.persist(fjall::PersistMode::SyncAll)?;
    copy_dir(folder.path(), image.path());

    {
        let db2 = Database::builder(&image).open()?;
        for (i, fp) in expected.iter().enumerate() {
            let ks = db2.keyspace(&format!("ks{i}"), KeyspaceCreateOptions::default)?;
            assert_same(&format!("image ks{i}"), fp, &ks);
        }
    }

    Ok(())
}

// ---------------------------------------------------------------------------------------------
// Candidate 5: max_memtable_size (not observable through a public field) - by behaviour
// ---------------------------------------------------------------------------------------------

fn wait_for_tables(ks: &Keyspace) -> bool {
    for _ in 0..300 {
        if ks.table_count() > 0 {
            return true;
        }
        std::thread::sleep(std::time::Duration::from_millis(10));
    }
    false
}

#[test]
fn c16_max_memtable_size_behaviour() -> fjall::Result<()> {
    // small at creation, default on reopen: must still rotate early
    {
        let folder = tempfile::tempdir()?;
        {
            let db = Database::builder(&folder).open()?;
            let _ks = db.keyspace("ks", || {
                KeyspaceCreateOptions::default().max_memtable_size(2_000)
            })?;
        }
        {
            let db = Database::builder(&folder).open()?;
            let ks = db.keyspace("ks", KeyspaceCreateOptions::default)?;
            for i in 0..100u32 {
                ks.insert(i.to_be_bytes(), "x".repeat(100))?;
            }
            assert!(
                wait_for_tables(&ks),
                "small max_memtable_size chosen at creation is not in force after reopen"
            );
        }
    }

    // huge (u64::MAX) at creation, tiny on reopen: must not rotate
    {
        let folder = tempfile::tempdir()?;
        {
            let db = Database::builder(&folder).open()?;
            let _ks = db.keyspace("ks", || {
                KeyspaceCreateOptions::default().max_memtable_size(u64::MAX)
            })?;
        }
        {
            let db = Database::builder(&folder).open()?;
            let ks = db.keyspace("ks", || {
                KeyspaceCreateOptions::default().max_memtable_size(1)
            })?;
            for i in 0..100u32 {
                ks.insert(i.to_be_bytes(), "x".repeat(100))?;
            }
            std::thread::sleep(std::time::Duration::from_millis(500));
            assert_eq!(
                0,
                ks.table_count(),
                "max_memtable_size passed on reopen was taken"
            );
            assert_eq!(0, ks.sealed_memtable_count());
        }
    }

    Ok(())
}

// ---------------------------------------------------------------------------------------------
// Candidate 6: manual_journal_persist (not observable through a public field) - by behaviour:
// with manual persist a small write stays in the journal writer's buffer, so a crash image
// does not contain it; without, it is handed to the OS on every write
// ---------------------------------------------------------------------------------------------

fn write_is_in_crash_image(folder: &Path, reopen_flag: bool) -> fjall::Result<bool> {
    let image = tempfile::tempdir()?;

    let db = Database::builder(folder).open()?;
    let ks = db.keyspace("ks", || {
        KeyspaceCreateOptions::default().manual_journal_persist(reopen_flag)
    })?;
    ks.insert("hello", "world")?;

    copy_dir(folder, image.path());

    let db2 = Database::builder(&image).open()?;
    let ks2 = db2.keyspace("ks", KeyspaceCreateOptions::default)?;
    Ok(ks2.get("hello")?.is_some())
}

#[test]
fn c16_manual_journal_persist_behaviour() -> fjall::Result<()> {
    for created_with in [true, false] {
        let folder = tempfile::tempdir()?;
        {
            let db = Database::builder(&folder).open()?;
            let _ks = db.keyspace("ks", || {
                KeyspaceCreateOptions::default().manual_journal_persist(created_with)
            })?;
        }

        let in_image = write_is_in_crash_image(folder.path(), !created_with)?;

        assert_eq!(
            !created_with, in_image,
            "created with manual_journal_persist={created_with}, reopened with the opposite",
        );
    }

    Ok(())
}

// ---------------------------------------------------------------------------------------------
// Candidate 7: transactional databases
// ---------------------------------------------------------------------------------------------

#[test]
fn c16_tx_databases() -> fjall::Result<()> {
    let mut rng = Rng(99);

    {
        let folder = tempfile::tempdir()?;
        let opts = random_options(&mut rng, true);
        let fp = fingerprint(&opts);
        {
            let db = SingleWriterTxDatabase::builder(&folder).open()?;
            let ks = db.keyspace("ks", || opts)?;
            assert_same("swtx fresh", &fp, ks.inner());
        }
        {
            let db = SingleWriterTxDatabase::builder(&folder).open()?;
            let ks = db.keyspace("ks", KeyspaceCreateOptions::default)?;
            assert_same("swtx reopen", &fp, ks.inner());
        }
        {
            // and opened as another kind
            let db = OptimisticTxDatabase::builder(&folder).open()?;
            let ks = db.keyspace("ks", KeyspaceCreateOptions::default)?;
            assert_same("swtx reopen as optimistic", &fp, ks.inner());
        }
    }

    {
        let folder = tempfile::tempdir()?;
        let opts = random_options(&mut rng, true);
        let fp = fingerprint(&opts);
        {
            let db = OptimisticTxDatabase::builder(&folder).open()?;
            let ks = db.keyspace("ks", || opts)?;
            assert_same("otx fresh", &fp, ks.inner());
        }
        {
            let db = Database::builder(&folder).open()?;
            let ks = db.keyspace("ks", KeyspaceCreateOptions::default)?;
            assert_same("otx reopen as plain", &fp, &ks);
        }
    }

    Ok(())
}

// ---------------------------------------------------------------------------------------------
// Candidate 8: concurrent creation from several threads, delete + re-create in one session
// ---------------------------------------------------------------------------------------------

#[test]
fn c16_concurrent_creation_and_same_session_recreate() -> fjall::Result<()> {
    let folder = tempfile::tempdir()?;

    let mut all: Vec<(String, Fingerprint)> = vec![];

    {
        let db = Database::builder(&folder).open()?;

        let handles = (0..8)
            .map(|t| {
                let db = db.clone();
                std::thread::spawn(move || {
                    let mut rng = Rng(1000 + t);
                    let mut mine = vec![];
                    for i in 0..15 {
                        // every thread also fights for a common name
                        let name = if i % 5 == 0 {
                            format!("common{i}")
                        } else {
                            format!("t{t}_k{i}")
                        };
                        let opts = random_options(&mut rng, true);
                        let ks = db.keyspace(&name, || opts).unwrap();
                        // Whoever won: what the handle says now must be what is found later
                        mine.push((name, fingerprint(&ks.config)));
                    }
                    mine
                })
            })
            .collect::<Vec<_>>();

        for h in handles {
            all.extend(h.join().unwrap());
        }

        // delete + re-create in the same session with other options
        let mut rng = Rng(5);
        for i in [1, 2, 3, 4, 6] {
            let name = format!("t0_k{i}");
            let ks = db.keyspace(&name, || unreachable!())?;
            db.delete_keyspace(ks)?;
            let opts = random_options(&mut rng, false);
            let fp = fingerprint(&opts);
            let ks = db.keyspace(&name, || opts)?;
            assert_same("re-created", &fp, &ks);
            all.retain(|(n, _)| *n != name);
            all.push((name, fp));
        }
    }

    {
        let db = Database::builder(&folder).open()?;
        for (name, fp) in &all {
            let ks = db.keyspace(name, KeyspaceCreateOptions::default)?;
            assert_same(&format!("reopen {name}"), fp, &ks);
        }
    }

    Ok(())
}

// ---------------------------------------------------------------------------------------------
// Candidate 9: I/O errors (injected with strace) while keyspaces are created / deleted, followed
// by a retry with OTHER options. Whatever handle the application finally got: its options must
// be the ones found after a (fault-free) reopen.
//
// Driven from the shell (see fault_sweep.sh next to this file):
//   HUNT_DIR=/some/dir strace -f -e trace=none -e inject=fsync:error=EIO:when=K \
//       <test binary> c16_fault_phase1 --ignored --exact
//   HUNT_DIR=/some/dir <test binary> c16_fault_phase2 --ignored --exact
// ---------------------------------------------------------------------------------------------

fn fault_opts(i: usize) -> KeyspaceCreateOptions {
    match i % 3 {
        0 => KeyspaceCreateOptions::default()
            .with_kv_separation(Some(KvSeparationOptions::default().separation_threshold(99)))
            .compaction_strategy(Arc::new(fjall::compaction::Fifo::new(1_000_000, Some(77))))
            .data_block_size_policy(BlockSizePolicy::new([1_111, 2_222]))
            .expect_point_read_hits(true),
        1 => KeyspaceCreateOptions::default()
            .compaction_strategy(Arc::new(
                fjall::compaction::Leveled::default()
                    .with_l0_threshold(9)
                    .with_level_ratio_policy(vec![3.0, 5.0]),
            ))
            .data_block_size_policy(BlockSizePolicy::all(7_777)),
        _ => KeyspaceCreateOptions::default()
            .filter_policy(FilterPolicy::disabled())
            .index_block_pinning_policy(PinningPolicy::all(false)),
    }
}

#[test]
#[ignore = "driven by fault_sweep.sh"]
fn c16_fault_phase1() {
    let dir = std::path::PathBuf::from(std::env::var("HUNT_DIR").unwrap());
    let side = dir.join("expected.txt");
    let mut out = String::new();

    let Ok(db) = Database::builder(dir.join("db")).open() else {
        std::fs::write(&side, "").unwrap();
        return;
    };

    let mut opt_idx = 0;

    let mut create = |name: &str, out: &mut String| -> Option<Keyspace> {
        for _attempt in 0..3 {
            let opts = fault_opts(opt_idx);
            opt_idx += 1;
            if let Ok(ks) = db.keyspace(name, || opts) {
                out.push_str(&format!("{name}\t{:?}\n", fingerprint(&ks.config)));
                return Some(ks);
            }
        }
        None
    };

    let _a = create("a", &mut out);
    let _b = create("b", &mut out);

    // delete (maybe failing) + re-create
    if let Some(c) = create("c", &mut out) {
        let deleted = db.delete_keyspace(c.clone()).is_ok();
        drop(c);
        if deleted {
            // forget the first incarnation
            let mut lines: Vec<&str> = out.lines().collect();
            lines.retain(|l| !l.starts_with("c\t"));
            out = lines.join("\n");
            out.push('\n');
            let _c2 = create("c", &mut out);
        }
    }

    let _d = create("d", &mut out);

    std::fs::write(&side, out).unwrap();
}

#[test]
#[ignore = "driven by fault_sweep.sh"]
fn c16_fault_phase2() {
    let dir = std::path::PathBuf::from(std::env::var("HUNT_DIR").unwrap());
    let expected = std::fs::read_to_string(dir.join("expected.txt")).unwrap();

    if expected.is_empty() {
        return;
    }

    let db = Database::builder(dir.join("db")).open().unwrap();

    for line in expected.lines() {
        let (name, fp) = line.split_once('\t').unwrap();
        assert!(
            db.keyspace_exists(name),
            "keyspace {name:?} was handed out, but is gone after reopen"
        );
        let ks = db.keyspace(name, KeyspaceCreateOptions::default).unwrap();
        assert_eq!(
            fp,
            format!("{:?}", fingerprint(&ks.config)),
            "keyspace {name:?}: options after reopen are not the ones of the handle that was handed out",
        );
        assert_eq!(fp, format!("{:?}", tree_fingerprint(&ks)), "keyspace {name:?} (tree)");
    }
}

// ---------------------------------------------------------------------------------------------
// Candidate 10: kv-separated and plain keyspaces across maintenance (flush, major compaction)
// and reopens with contradicting options; behaviour that depends on the options
// ---------------------------------------------------------------------------------------------

#[test]
fn c16_maintenance_and_behaviour() -> fjall::Result<()> {
    let folder = tempfile::tempdir()?;

    let blob_opts = || {
        KeyspaceCreateOptions::default()
            .with_kv_separation(Some(
                KvSeparationOptions::default()
                    .separation_threshold(50)
                    .file_target_size(10_000)
                    .compression(CompressionType::None),
            ))
            .max_memtable_size(50_000)
    };
    let plain_opts = || KeyspaceCreateOptions::default().data_block_size_policy(BlockSizePolicy::all(2_000));

    {
        let db = Database::builder(&folder).open()?;
        let blob = db.keyspace("blob", blob_opts)?;
        let plain = db.keyspace("plain", plain_opts)?;
        for i in 0..200u32 {
            blob.insert(i.to_be_bytes(), "v".repeat(100))?;
            plain.insert(i.to_be_bytes(), "v".repeat(100))?;
        }
        blob.rotate_memtable_and_wait()?;
        plain.rotate_memtable_and_wait()?;
        blob.major_compact()?;
        plain.major_compact()?;
        assert!(blob.blob_file_count() > 0);
        assert_eq!(0, plain.blob_file_count());
    }

    for round in 0..3 {
        let db = Database::builder(&folder).open()?;
        // contradicting options
        let blob = db.keyspace("blob", plain_opts)?;
        let plain = db.keyspace("plain", blob_opts)?;
        assert_same("blob", &fingerprint(&blob_opts()), &blob);
        assert_same("plain", &fingerprint(&plain_opts()), &plain);

        let blobs_before = blob.blob_file_count();

        for i in 0..200u32 {
            let k = (1_000 * (round + 1) + i).to_be_bytes();
            blob.insert(k, "w".repeat(100))?;
            plain.insert(k, "w".repeat(100))?;
        }
        blob.rotate_memtable_and_wait()?;
        plain.rotate_memtable_and_wait()?;

        assert!(
            blob.blob_file_count() > blobs_before,
            "separation threshold chosen at creation is no longer in force"
        );
        assert_eq!(0, plain.blob_file_count(), "plain keyspace separates values");

        blob.major_compact()?;
        plain.major_compact()?;

        assert_eq!(200 * (round as usize + 2), blob.len()?);
        assert_eq!(200 * (round as usize + 2), plain.len()?);
    }

    Ok(())
}

// ---------------------------------------------------------------------------------------------
// Candidate 11: the process is killed (SIGKILL) at random points while it creates and deletes
// keyspaces with random options, several sessions in a row (IDs of deleted keyspaces get reused
// by later sessions). Driven by kill_sweep.sh; verified by c16_fault_phase2.
// ---------------------------------------------------------------------------------------------

#[test]
#[ignore = "driven by kill_sweep.sh"]
fn c16_kill_phase1() {
    use std::io::Write;

    let dir = std::path::PathBuf::from(std::env::var("HUNT_DIR").unwrap());
    let round: u64 = std::env::var("HUNT_ROUND").unwrap().parse().unwrap();
    let mut side = std::fs::OpenOptions::new()
        .create(true)
        .append(true)
        .open(dir.join("journal.txt"))
        .unwrap();

    let mut rng = Rng(0xABCD + round);

    let db = Database::builder(dir.join("db")).open().unwrap();

    let mut mine: Vec<String> = vec![];

    for i in 0.. {
        let name = format!("r{round}_k{i}");
        let opts = random_options(&mut rng, i % 2 == 0);
        let ks = db.keyspace(&name, || opts).unwrap();
        side.write_all(format!("{name}\t{:?}\n", fingerprint(&ks.config)).as_bytes())
            .unwrap();
        side.sync_all().unwrap();
        mine.push(name);

        if i % 3 == 2 {
            // delete the newest or a random one of this session (intent is recorded first)
            let idx = if rng.bool() {
                mine.len() - 1
            } else {
                rng.below(mine.len() as u64) as usize
            };
            let name = mine.remove(idx);
            side.write_all(format!("-{name}\n").as_bytes()).unwrap();
            side.sync_all().unwrap();
            let ks = db.keyspace(&name, || unreachable!()).unwrap();
            db.delete_keyspace(ks).unwrap();
        }
    }
}

#[test]
#[ignore = "driven by kill_sweep.sh"]
fn c16_kill_phase2() {
    let dir = std::path::PathBuf::from(std::env::var("HUNT_DIR").unwrap());
    let journal = std::fs::read_to_string(dir.join("journal.txt")).unwrap();

    let mut expected: std::collections::BTreeMap<String, String> = Default::default();
    let mut maybe_deleted: std::collections::BTreeSet<String> = Default::default();

    for line in journal.lines() {
        if let Some(name) = line.strip_prefix('-') {
            expected.remove(name);
            maybe_deleted.insert(name.to_string());
        } else {
            let (name, fp) = line.split_once('\t').unwrap();
            expected.insert(name.to_string(), fp.to_string());
        }
    }

    let db = Database::builder(dir.join("db")).open().unwrap();

    for (name, fp) in &expected {
        assert!(db.keyspace_exists(name), "{name} is gone");
        let ks = db.keyspace(name, KeyspaceCreateOptions::default).unwrap();
        assert_eq!(*fp, format!("{:?}", fingerprint(&ks.config)), "{name}");
        assert_eq!(*fp, format!("{:?}", tree_fingerprint(&ks)), "{name} (tree)");
    }

    // Everything else that exists was either being deleted or being created when a session died
    // (at most one creation per session can be in flight)
    let mut unexplained: std::collections::BTreeMap<String, usize> = Default::default();
    for name in db.list_keyspace_names() {
        if !expected.contains_key(&*name) && !maybe_deleted.contains(&*name) {
            let session = name.split('_').next().unwrap().to_string();
            *unexplained.entry(session).or_default() += 1;
        }
    }
    assert!(
        unexplained.values().all(|n| *n <= 1),
        "keyspaces nobody created: {unexplained:?}"
    );

    println!("verified {} keyspaces", expected.len());
}
