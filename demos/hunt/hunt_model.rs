// CARGO_TARGET_DIR=/tmp/hunt-C08/target cargo test --offline --test hunt_model -- --nocapture
use fjall::{KeyspaceCreateOptions, KvSeparationOptions, Readable};
use std::collections::BTreeMap;

struct Rng(u64);
impl Rng {
    fn next(&mut self) -> u64 {
        let mut x = self.0;
        x ^= x << 13;
        x ^= x >> 7;
        x ^= x << 17;
        self.0 = x;
        x
    }
    fn below(&mut self, n: u64) -> u64 {
        self.next() % n
    }
}

type Model = BTreeMap<Vec<u8>, Vec<u8>>;

fn key(rng: &mut Rng) -> Vec<u8> {
    // overlapping keys with shared prefixes
    let a = b"abc"[rng.below(3) as usize];
    let n = rng.below(3);
    let mut k = vec![a];
    for _ in 0..n {
        k.push(b"abc"[rng.below(3) as usize]);
    }
    k
}

fn val(rng: &mut Rng, big: bool) -> Vec<u8> {
    let len = if big && rng.below(2) == 0 {
        2000 + rng.below(100) as usize
    } else {
        rng.below(8) as usize
    };
    let b = rng.next() as u8;
    (0..len).map(|i| b.wrapping_add(i as u8)).collect()
}

fn collect(iter: fjall::Iter) -> Vec<(Vec<u8>, Vec<u8>)> {
    iter.map(|g| {
        let (k, v) = g.into_inner().unwrap();
        (k.to_vec(), v.to_vec())
    })
    .collect()
}

fn collect_rev(iter: fjall::Iter) -> Vec<(Vec<u8>, Vec<u8>)> {
    iter.rev()
        .map(|g| {
            let (k, v) = g.into_inner().unwrap();
            (k.to_vec(), v.to_vec())
        })
        .collect()
}

fn collect_pingpong(mut iter: fjall::Iter, rng: &mut Rng) -> Vec<(Vec<u8>, Vec<u8>)> {
    let mut front = vec![];
    let mut back = vec![];
    loop {
        let f = rng.below(2) == 0;
        let item = if f { iter.next() } else { iter.next_back() };
        let Some(g) = item else { break };
        let (k, v) = g.into_inner().unwrap();
        if f {
            front.push((k.to_vec(), v.to_vec()));
        } else {
            back.push((k.to_vec(), v.to_vec()));
        }
    }
    back.reverse();
    front.extend(back);
    front
}

fn check_reads<R: Readable>(
    r: &R,
    ks: &[&fjall::Keyspace],
    models: &[Model],
    rng: &mut Rng,
    ctx: &str,
) {
    for (ks, model) in ks.iter().zip(models) {
        let expect: Vec<(Vec<u8>, Vec<u8>)> =
            model.iter().map(|(k, v)| (k.clone(), v.clone())).collect();
        assert_eq!(collect(r.iter(ks)), expect, "iter {ctx}");
        let mut rev = expect.clone();
        rev.reverse();
        assert_eq!(collect_rev(r.iter(ks)), rev, "iter rev {ctx}");
        assert_eq!(collect_pingpong(r.iter(ks), rng), expect, "iter pingpong {ctx}");
        assert_eq!(r.len(ks).unwrap(), expect.len(), "len {ctx}");
        assert_eq!(r.is_empty(ks).unwrap(), expect.is_empty(), "is_empty {ctx}");
        assert_eq!(
            r.first_key_value(ks)
                .map(|g| g.into_inner().unwrap())
                .map(|(k, v)| (k.to_vec(), v.to_vec())),
            expect.first().cloned(),
            "first {ctx}"
        );
        assert_eq!(
            r.last_key_value(ks)
                .map(|g| g.into_inner().unwrap())
                .map(|(k, v)| (k.to_vec(), v.to_vec())),
            expect.last().cloned(),
            "last {ctx}"
        );
        // sizes through scan guards
        let sizes: Vec<u32> = r.iter(ks).map(|g| g.size().unwrap()).collect();
        assert_eq!(
            sizes,
            expect.iter().map(|(_, v)| v.len() as u32).collect::<Vec<_>>(),
            "guard sizes {ctx}"
        );

        // all point keys
        for a in [b'a', b'b', b'c', b'd'] {
            for pfx in [vec![a], vec![a, b'a'], vec![a, b'b', b'c'], vec![a, b'c', b'c', b'a']] {
                let m = model.get(&pfx);
                assert_eq!(
                    r.get(ks, &pfx).unwrap().map(|v| v.to_vec()),
                    m.cloned(),
                    "get {pfx:?} {ctx}"
                );
                assert_eq!(r.contains_key(ks, &pfx).unwrap(), m.is_some(), "contains {ctx}");
                assert_eq!(
                    r.size_of(ks, &pfx).unwrap(),
                    m.map(|v| v.len() as u32),
                    "size_of {ctx}"
                );
                let exp_p: Vec<_> = expect
                    .iter()
                    .filter(|(k, _)| k.starts_with(&pfx))
                    .cloned()
                    .collect();
                assert_eq!(collect(r.prefix(ks, &pfx)), exp_p, "prefix {pfx:?} {ctx}");
                let mut rp = exp_p.clone();
                rp.reverse();
                assert_eq!(collect_rev(r.prefix(ks, &pfx)), rp, "prefix rev {pfx:?} {ctx}");
            }
        }
        // random ranges
        for _ in 0..6 {
            let a = key(rng);
            let b = key(rng);
            let (lo, hi) = if a <= b { (a, b) } else { (b, a) };
            use std::ops::Bound::*;
            let bounds: Vec<(std::ops::Bound<Vec<u8>>, std::ops::Bound<Vec<u8>>)> = vec![
                (Included(lo.clone()), Included(hi.clone())),
                (Included(lo.clone()), Excluded(hi.clone())),
                (Excluded(lo.clone()), Included(hi.clone())),
                (Excluded(lo.clone()), Unbounded),
                (Unbounded, Excluded(hi.clone())),
            ];
            for bnd in bounds {
                if let (Excluded(x), Excluded(y)) | (Excluded(x), Included(y)) = (&bnd.0, &bnd.1) {
                    if x == y {
                        continue;
                    }
                }
                if let (Included(x), Excluded(y)) = (&bnd.0, &bnd.1) {
                    if x == y {
                        continue;
                    }
                }
                let exp_r: Vec<_> = model
                    .range::<Vec<u8>, _>((bnd.0.clone(), bnd.1.clone()))
                    .map(|(k, v)| (k.clone(), v.clone()))
                    .collect();
                assert_eq!(
                    collect(r.range::<Vec<u8>, _>(ks, bnd.clone())),
                    exp_r,
                    "range {bnd:?} {ctx}"
                );
                let mut rr = exp_r.clone();
                rr.reverse();
                assert_eq!(
                    collect_rev(r.range::<Vec<u8>, _>(ks, bnd.clone())),
                    rr,
                    "range rev {bnd:?} {ctx}"
                );
            }
        }
    }
}

macro_rules! model_test {
    ($name:ident, $dbty:ty, $db:ident => $begin:expr, $tx:ident => $commit:expr) => {
        #[test]
        fn $name() -> fjall::Result<()> {
            for seed in 1..=40u64 {
                let mut rng = Rng(seed.wrapping_mul(0x9E37_79B9_7F4A_7C15));
                let folder = tempfile::tempdir()?;
                let $db = <$dbty>::builder(&folder).open()?;
                let db = &$db;
                let kv_sep = seed % 2 == 0;
                let t1 = db.keyspace("one", || {
                    let o = KeyspaceCreateOptions::default();
                    if kv_sep {
                        o.with_kv_separation(Some(
                            KvSeparationOptions::default().separation_threshold(1000),
                        ))
                    } else {
                        o
                    }
                })?;
                let t2 = db.keyspace("two", KeyspaceCreateOptions::default)?;
                let trees = [t1.clone(), t2.clone()];
                let mut committed: Vec<Model> = vec![Model::new(), Model::new()];

                for round in 0..12 {
                    let ctx = format!("seed={seed} round={round}");
                    // committed maintenance between transactions
                    match rng.below(5) {
                        0 => {
                            trees[0].inner().rotate_memtable_and_wait()?;
                        }
                        1 => {
                            trees[1].inner().rotate_memtable_and_wait()?;
                            trees[1].inner().major_compact()?;
                        }
                        _ => {}
                    }

                    let mut tx = $begin;
                    let mut local = committed.clone();
                    let nops = 1 + rng.below(25);
                    for op in 0..nops {
                        let ti = rng.below(2) as usize;
                        let t = &trees[ti];
                        let k = key(&mut rng);
                        let ctx = format!("{ctx} op={op}");
                        match rng.below(9) {
                            0 | 1 | 2 => {
                                let v = val(&mut rng, true);
                                tx.insert(t, k.clone(), v.clone());
                                local[ti].insert(k, v);
                            }
                            3 | 4 => {
                                tx.remove(t, k.clone());
                                local[ti].remove(&k);
                            }
                            5 => {
                                let prev = tx.take(t, k.clone())?;
                                assert_eq!(
                                    prev.map(|v| v.to_vec()),
                                    local[ti].remove(&k),
                                    "take {ctx}"
                                );
                            }
                            6 => {
                                let nv = if rng.below(3) == 0 {
                                    None
                                } else {
                                    Some(val(&mut rng, true))
                                };
                                let nv2 = nv.clone();
                                let prev = tx.fetch_update(t, k.clone(), move |_| {
                                    nv2.map(Into::into)
                                })?;
                                assert_eq!(
                                    prev.map(|v| v.to_vec()),
                                    local[ti].get(&k).cloned(),
                                    "fetch_update {ctx}"
                                );
                                match nv {
                                    Some(v) => {
                                        local[ti].insert(k, v);
                                    }
                                    None => {
                                        local[ti].remove(&k);
                                    }
                                }
                            }
                            7 => {
                                let nv = if rng.below(3) == 0 {
                                    None
                                } else {
                                    Some(val(&mut rng, true))
                                };
                                let nv2 = nv.clone();
                                let seen = std::sync::Arc::new(std::sync::Mutex::new(None));
                                let seen2 = seen.clone();
                                let new = tx.update_fetch(t, k.clone(), move |p| {
                                    *seen2.lock().unwrap() = Some(p.map(|v| v.to_vec()));
                                    nv2.map(Into::into)
                                })?;
                                assert_eq!(
                                    seen.lock().unwrap().clone().unwrap(),
                                    local[ti].get(&k).cloned(),
                                    "update_fetch closure arg {ctx}"
                                );
                                assert_eq!(new.map(|v| v.to_vec()), nv, "update_fetch {ctx}");
                                match nv {
                                    Some(v) => {
                                        local[ti].insert(k, v);
                                    }
                                    None => {
                                        local[ti].remove(&k);
                                    }
                                }
                            }
                            _ => {
                                check_reads(
                                    &tx,
                                    &[trees[0].inner(), trees[1].inner()],
                                    &local,
                                    &mut rng,
                                    &format!("in-tx {ctx}"),
                                );
                            }
                        }
                        // nothing visible outside
                        if rng.below(6) == 0 {
                            let snap = db.read_tx();
                            check_reads(
                                &snap,
                                &[trees[0].inner(), trees[1].inner()],
                                &committed,
                                &mut rng,
                                &format!("outside-before-commit {ctx}"),
                            );
                        }
                        // maintenance while tx is open
                        if rng.below(15) == 0 {
                            trees[ti].inner().rotate_memtable_and_wait()?;
                        }
                    }
                    check_reads(
                        &tx,
                        &[trees[0].inner(), trees[1].inner()],
                        &local,
                        &mut rng,
                        &format!("in-tx-final {ctx}"),
                    );

                    match rng.below(3) {
                        0 => {
                            tx.rollback();
                        }
                        1 => {
                            drop(tx);
                        }
                        _ => {
                            { let $tx = tx; $commit; }
                            committed = local;
                        }
                    }
                    let snap = db.read_tx();
                    check_reads(
                        &snap,
                        &[trees[0].inner(), trees[1].inner()],
                        &committed,
                        &mut rng,
                        &format!("outside-after-end {ctx}"),
                    );
                }

                // reopen
                drop(trees);
                drop(t1);
                drop(t2);
                let _ = db;
                drop($db);
                let db = <$dbty>::builder(&folder).open()?;
                let t1 = db.keyspace("one", KeyspaceCreateOptions::default)?;
                let t2 = db.keyspace("two", KeyspaceCreateOptions::default)?;
                let snap = db.read_tx();
                check_reads(
                    &snap,
                    &[t1.inner(), t2.inner()],
                    &committed,
                    &mut rng,
                    &format!("after-reopen seed={seed}"),
                );
            }
            Ok(())
        }
    };
}

model_test!(
    model_single_writer,
    fjall::SingleWriterTxDatabase,
    dbx => dbx.write_tx(),
    t => t.commit().unwrap()
);

model_test!(
    model_optimistic,
    fjall::OptimisticTxDatabase,
    dbx => dbx.write_tx().unwrap(),
    t => t.commit().unwrap().unwrap()
);
