// CARGO_TARGET_DIR=/tmp/hunt-C06/target cargo test --offline --test hunt_demo -- --nocapture --test-threads=1
//
// Hunt for C06 (a committed batch becomes visible atomically). Result:
//  - LIVE visibility (the property's quantifier): nothing found beyond the already known
//    "version change bumps the visible seqno" issue; c1..c9 and c11 are the candidate histories, they all PASS,
//    c0 (ignored) reproduces the known issue and shows that the checker does catch torn reads.
//  - FAILING: c10_crash_image_half_batch_after_flush_worker_window - after a process crash every
//    snapshot of the reopened database sees one keyspace's half of an acknowledged batch
//    (write-ahead rule broken by the flush worker). See the comment above that test for the caveats.

use fjall::{Database, KeyspaceCreateOptions, Readable};
use std::sync::{
    atomic::{AtomicBool, AtomicU64, Ordering},
    Arc,
};
use std::time::{Duration, Instant};

const KEYS: usize = 16;

fn key(i: usize) -> String {
    format!("k{i:03}")
}

/// Checks that a cross-keyspace snapshot sees exactly one generation everywhere.
fn check_snapshot(db: &Database, a: &fjall::Keyspace, b: &fjall::Keyspace) -> Result<(), String> {
    check_snapshot_n(db, a, b, KEYS)
}

fn check_snapshot_n(
    db: &Database,
    a: &fjall::Keyspace,
    b: &fjall::Keyspace,
    keys: usize,
) -> Result<(), String> {
    let snap = db.snapshot();

    let mut seen: Option<Vec<u8>> = None;
    let mut cnt = 0;

    for ks in [a, b] {
        for g in snap.iter(ks) {
            let (k, v) = g.into_inner().map_err(|e| format!("{e:?}"))?;
            cnt += 1;
            match &seen {
                None => seen = Some(v.to_vec()),
                Some(s) => {
                    if s.as_slice() != &*v {
                        return Err(format!(
                            "torn snapshot @{}: key {:?} in {:?} has gen {:?}, but saw gen {:?} before",
                            snap.seqno(),
                            String::from_utf8_lossy(&k),
                            ks.name(),
                            String::from_utf8_lossy(&v),
                            String::from_utf8_lossy(s),
                        ));
                    }
                }
            }
        }
    }

    if cnt != 0 && cnt != 2 * keys {
        return Err(format!("torn snapshot @{}: saw {cnt} items", snap.seqno()));
    }

    // point reads in the same snapshot
    if let Some(s) = &seen {
        for ks in [b, a] {
            for i in (0..keys).rev() {
                let v = snap.get(ks, key(i)).map_err(|e| format!("{e:?}"))?;
                if v.as_deref() != Some(s.as_slice()) {
                    return Err(format!(
                        "torn snapshot (point read) @{}: {:?}/{} = {:?}, scan saw {:?}",
                        snap.seqno(),
                        ks.name(),
                        key(i),
                        v.map(|v| String::from_utf8_lossy(&v).to_string()),
                        String::from_utf8_lossy(s),
                    ));
                }
            }
        }
    }

    Ok(())
}

/// Checks a single scan of one keyspace
fn check_scan(a: &fjall::Keyspace, keys: usize) -> Result<(), String> {
    let mut seen: Option<Vec<u8>> = None;
    let mut cnt = 0;
    for g in a.iter() {
        let (k, v) = g.into_inner().map_err(|e| format!("{e:?}"))?;
        cnt += 1;
        match &seen {
            None => seen = Some(v.to_vec()),
            Some(s) => {
                if s.as_slice() != &*v {
                    return Err(format!(
                        "torn scan: key {:?} has gen {:?}, but saw gen {:?} before",
                        String::from_utf8_lossy(&k),
                        String::from_utf8_lossy(&v),
                        String::from_utf8_lossy(s),
                    ));
                }
            }
        }
    }
    if cnt != 0 && cnt != keys {
        return Err(format!("torn scan: saw {cnt} items"));
    }
    Ok(())
}

#[derive(Clone, Copy, PartialEq, Eq, Debug)]
enum Noise {
    None,
    /// clear() + bulk ingestion + single writes on a third keyspace (all hold the journal lock)
    LockedVersionChanges,
    /// rotate_memtable of the batch keyspaces with no worker threads (no flush ever completes)
    RotateNoFlush,
    /// heavy snapshot open/close (tracker gc every 10k closes)
    SnapshotChurn,
    /// ALREADY KNOWN: flushes of a third keyspace complete while batches are being applied
    KnownFlushOfOtherKeyspace,
}

fn stress(noise: Noise, secs: u64, workers: usize) -> Result<(), String> {
    stress_n(noise, secs, workers, KEYS)
}

fn stress_n(noise: Noise, secs: u64, workers: usize, keys: usize) -> Result<(), String> {
    let folder = tempfile::tempdir().unwrap();
    let db = Database::builder(&folder)
        .worker_threads_unchecked(workers)
        .open()
        .unwrap();
    let a = db.keyspace("a", KeyspaceCreateOptions::default).unwrap();
    let b = db.keyspace("b", KeyspaceCreateOptions::default).unwrap();
    let c = db.keyspace("c", KeyspaceCreateOptions::default).unwrap();

    let stop = Arc::new(AtomicBool::new(false));
    let gen = Arc::new(AtomicU64::new(0));
    let err: Arc<std::sync::Mutex<Option<String>>> = Arc::default();

    let mut handles = vec![];

    for _ in 0..3 {
        let (db, a, b, stop, gen) = (db.clone(), a.clone(), b.clone(), stop.clone(), gen.clone());
        handles.push(std::thread::spawn(move || {
            while !stop.load(Ordering::Relaxed) {
                let g = gen.fetch_add(1, Ordering::Relaxed);
                let v = format!("{g:010}");
                let mut batch = db.batch();
                for i in 0..keys {
                    batch.insert(&a, key(i), v.as_bytes());
                    batch.insert(&b, key(i), v.as_bytes());
                }
                batch.commit().unwrap();
            }
        }));
    }

    for r in 0..3 {
        let (db, a, b, stop, err) = (db.clone(), a.clone(), b.clone(), stop.clone(), err.clone());
        handles.push(std::thread::spawn(move || {
            while !stop.load(Ordering::Relaxed) {
                let res = if r == 0 {
                    check_scan(&a, keys).and_then(|()| check_scan(&b, keys))
                } else {
                    check_snapshot_n(&db, &a, &b, keys)
                };
                if let Err(e) = res {
                    *err.lock().unwrap() = Some(e);
                    stop.store(true, Ordering::Relaxed);
                }
            }
        }));
    }

    match noise {
        Noise::None => {}
        Noise::LockedVersionChanges => {
            let (c, stop) = (c.clone(), stop.clone());
            handles.push(std::thread::spawn(move || {
                let mut n = 0u64;
                while !stop.load(Ordering::Relaxed) {
                    n += 1;
                    c.insert("x", n.to_be_bytes()).unwrap();
                    if n % 3 == 0 {
                        c.clear().unwrap();
                    }
                    if n % 5 == 0 {
                        let mut ing = c.start_ingestion().unwrap();
                        ing.write("i1", "v").unwrap();
                        ing.write("i2", "v").unwrap();
                        ing.finish().unwrap();
                    }
                }
            }));
        }
        Noise::RotateNoFlush => {
            let (a, b, stop) = (a.clone(), b.clone(), stop.clone());
            handles.push(std::thread::spawn(move || {
                let mut n = 0;
                while !stop.load(Ordering::Relaxed) && n < 3 {
                    n += 1;
                    a.rotate_memtable().unwrap();
                    std::thread::sleep(Duration::from_millis(100));
                    b.rotate_memtable().unwrap();
                    std::thread::sleep(Duration::from_millis(100));
                }
            }));
        }
        Noise::KnownFlushOfOtherKeyspace => {
            let (c, stop) = (c.clone(), stop.clone());
            handles.push(std::thread::spawn(move || {
                let mut n = 0u64;
                while !stop.load(Ordering::Relaxed) {
                    n += 1;
                    c.insert("x", n.to_be_bytes()).unwrap();
                    c.rotate_memtable_and_wait().unwrap();
                }
            }));
        }
        Noise::SnapshotChurn => {
            for _ in 0..2 {
                let (db, stop) = (db.clone(), stop.clone());
                handles.push(std::thread::spawn(move || {
                    while !stop.load(Ordering::Relaxed) {
                        let s = db.snapshot();
                        let s2 = s.clone();
                        drop(s);
                        drop(s2);
                    }
                }));
            }
        }
    }

    let start = Instant::now();
    while start.elapsed() < Duration::from_secs(secs) && !stop.load(Ordering::Relaxed) {
        std::thread::sleep(Duration::from_millis(50));
    }
    stop.store(true, Ordering::Relaxed);
    for h in handles {
        h.join().unwrap();
    }

    eprintln!(
        "{noise:?}: {} batches committed, seqno={}, visible={}",
        gen.load(Ordering::Relaxed),
        db.seqno(),
        db.visible_seqno()
    );

    let e = err.lock().unwrap().take();
    match e {
        Some(e) => Err(e),
        None => Ok(()),
    }
}

#[test]
fn c1_stress_no_maintenance() {
    stress(Noise::None, 8, 0).unwrap();
}

#[test]
fn c2_stress_locked_version_changes() {
    stress(Noise::LockedVersionChanges, 8, 0).unwrap();
}

#[test]
fn c3_stress_rotate_no_flush() {
    stress(Noise::RotateNoFlush, 5, 0).unwrap();
}

/// Sanity check of the checker itself: this is the ALREADY KNOWN finding and is expected to fail
#[test]
#[ignore = "already known: version change of another keyspace bumps the visible seqno past a batch"]
fn c0_known_flush_of_other_keyspace() {
    stress_n(Noise::KnownFlushOfOtherKeyspace, 30, 2, 2000).unwrap();
}

#[test]
fn c4_stress_snapshot_churn() {
    stress(Noise::SnapshotChurn, 8, 0).unwrap();
}

// ---------------------------------------------------------------------------------------------
// c5: same check, but writers are transactions (single-writer and optimistic), readers are read_tx
// ---------------------------------------------------------------------------------------------

#[test]
fn c5_stress_optimistic_tx() {
    use fjall::OptimisticTxDatabase;

    let folder = tempfile::tempdir().unwrap();
    let db = OptimisticTxDatabase::builder(&folder)
        .worker_threads_unchecked(0)
        .open()
        .unwrap();
    let a = db.keyspace("a", KeyspaceCreateOptions::default).unwrap();
    let b = db.keyspace("b", KeyspaceCreateOptions::default).unwrap();

    let stop = Arc::new(AtomicBool::new(false));
    let gen = Arc::new(AtomicU64::new(0));
    let err: Arc<std::sync::Mutex<Option<String>>> = Arc::default();
    let mut handles = vec![];

    for _ in 0..3 {
        let (db, a, b, stop, gen) = (db.clone(), a.clone(), b.clone(), stop.clone(), gen.clone());
        handles.push(std::thread::spawn(move || {
            while !stop.load(Ordering::Relaxed) {
                let g = gen.fetch_add(1, Ordering::Relaxed);
                let v = format!("{g:010}");
                let mut tx = db.write_tx().unwrap();
                for i in 0..KEYS {
                    // write twice, the last one must win
                    tx.insert(&a, key(i), "garbage");
                    tx.insert(&a, key(i), v.as_bytes());
                    tx.insert(&b, key(i), v.as_bytes());
                }
                tx.commit().unwrap().unwrap();
            }
        }));
    }
    for _ in 0..3 {
        let (db, a, b, stop, err) = (db.clone(), a.clone(), b.clone(), stop.clone(), err.clone());
        handles.push(std::thread::spawn(move || {
            while !stop.load(Ordering::Relaxed) {
                if let Err(e) = check_snapshot(db.inner(), a.inner(), b.inner()) {
                    *err.lock().unwrap() = Some(e);
                    stop.store(true, Ordering::Relaxed);
                }
            }
        }));
    }

    let start = Instant::now();
    while start.elapsed() < Duration::from_secs(6) && !stop.load(Ordering::Relaxed) {
        std::thread::sleep(Duration::from_millis(50));
    }
    stop.store(true, Ordering::Relaxed);
    for h in handles {
        h.join().unwrap();
    }
    eprintln!("optimistic: {} txs", gen.load(Ordering::Relaxed));
    let e = err.lock().unwrap().take();
    if let Some(e) = e {
        panic!("{e}");
    }
}

#[test]
fn c5_stress_single_writer_tx() {
    use fjall::SingleWriterTxDatabase;

    let folder = tempfile::tempdir().unwrap();
    let db = SingleWriterTxDatabase::builder(&folder)
        .worker_threads_unchecked(0)
        .open()
        .unwrap();
    let a = db.keyspace("a", KeyspaceCreateOptions::default).unwrap();
    let b = db.keyspace("b", KeyspaceCreateOptions::default).unwrap();

    let stop = Arc::new(AtomicBool::new(false));
    let gen = Arc::new(AtomicU64::new(0));
    let err: Arc<std::sync::Mutex<Option<String>>> = Arc::default();
    let mut handles = vec![];

    for _ in 0..3 {
        let (db, a, b, stop, gen) = (db.clone(), a.clone(), b.clone(), stop.clone(), gen.clone());
        handles.push(std::thread::spawn(move || {
            while !stop.load(Ordering::Relaxed) {
                let mut tx = db.write_tx();
                let g = gen.fetch_add(1, Ordering::Relaxed);
                let v = format!("{g:010}");
                for i in 0..KEYS {
                    tx.remove(&a, key(i));
                    tx.insert(&a, key(i), v.as_bytes());
                    tx.insert(&b, key(i), v.as_bytes());
                }
                tx.commit().unwrap();
            }
        }));
    }
    for _ in 0..3 {
        let (db, a, b, stop, err) = (db.clone(), a.clone(), b.clone(), stop.clone(), err.clone());
        handles.push(std::thread::spawn(move || {
            while !stop.load(Ordering::Relaxed) {
                if let Err(e) = check_snapshot(db.inner(), a.inner(), b.inner()) {
                    *err.lock().unwrap() = Some(e);
                    stop.store(true, Ordering::Relaxed);
                }
            }
        }));
    }

    let start = Instant::now();
    while start.elapsed() < Duration::from_secs(6) && !stop.load(Ordering::Relaxed) {
        std::thread::sleep(Duration::from_millis(50));
    }
    stop.store(true, Ordering::Relaxed);
    for h in handles {
        h.join().unwrap();
    }
    eprintln!("single-writer: {} txs", gen.load(Ordering::Relaxed));
    let e = err.lock().unwrap().take();
    if let Some(e) = e {
        panic!("{e}");
    }
}

// ---------------------------------------------------------------------------------------------
// crash images
// ---------------------------------------------------------------------------------------------

fn copy_dir(from: &std::path::Path, to: &std::path::Path) {
    std::fs::create_dir_all(to).unwrap();
    for e in std::fs::read_dir(from).unwrap() {
        let e = e.unwrap();
        let p = e.path();
        let t = to.join(e.file_name());
        if e.file_type().unwrap().is_dir() {
            copy_dir(&p, &t);
        } else {
            // NOTE: a file may vanish while we copy (background compaction); callers that need an
            // exact crash image quiesce the database first
            match std::fs::copy(&p, &t) {
                Ok(_) => {}
                Err(e) if e.kind() == std::io::ErrorKind::NotFound => {}
                Err(e) => panic!("{e:?}"),
            }
        }
    }
}

/// Waits until no flush or compaction is running or queued, so that copying the directory of the
/// (still open) database yields what a process crash at this moment would leave behind
fn quiesce(db: &Database, keyspaces: &[&fjall::Keyspace]) {
    quiesce_for(db, keyspaces, 30);
}

fn quiesce_for(db: &Database, keyspaces: &[&fjall::Keyspace], ticks: usize) {
    let mut calm = 0;
    while calm < ticks {
        let busy = db.outstanding_flushes() > 0
            || db.active_compactions() > 0
            || keyspaces.iter().any(|k| k.sealed_memtable_count() > 0);
        calm = if busy { 0 } else { calm + 1 };
        std::thread::sleep(Duration::from_millis(10));
    }
}

fn check_image(path: &std::path::Path) -> Result<Option<String>, String> {
    let db = Database::builder(path)
        .worker_threads_unchecked(0)
        .open()
        .map_err(|e| format!("open: {e:?}"))?;
    let a = db.keyspace("a", KeyspaceCreateOptions::default).unwrap();
    let b = db.keyspace("b", KeyspaceCreateOptions::default).unwrap();
    check_snapshot(&db, &a, &b)?;
    Ok(a.get(key(0)).unwrap().map(|v| String::from_utf8_lossy(&v).to_string()))
}

/// c7: manual journal persist: batch sits in the journal writer's buffer, then one of its keyspaces is flushed
#[test]
fn c7_crash_image_manual_persist_flush_one_keyspace() {
    let folder = tempfile::tempdir().unwrap();
    let db = Database::builder(&folder)
        .manual_journal_persist(true)
        .open()
        .unwrap();
    let a = db.keyspace("a", KeyspaceCreateOptions::default).unwrap();
    let b = db.keyspace("b", KeyspaceCreateOptions::default).unwrap();

    let mut batch = db.batch();
    for i in 0..KEYS {
        batch.insert(&a, key(i), "0000000001");
        batch.insert(&b, key(i), "0000000001");
    }
    batch.commit().unwrap();

    a.rotate_memtable_and_wait().unwrap();
    assert_eq!(1, a.table_count());

    let image = tempfile::tempdir().unwrap();
    copy_dir(folder.path(), image.path());

    let seen = check_image(image.path()).unwrap();
    eprintln!("c7: image has gen {seen:?}");
}

/// c8: quiesced crash images under real maintenance (small memtables, workers on)
#[test]
fn c8_crash_images_under_maintenance() {
    for manual in [false, true] {
        let folder = tempfile::tempdir().unwrap();
        let db = Database::builder(&folder)
            .manual_journal_persist(manual)
            .open()
            .unwrap();
        let opts = || KeyspaceCreateOptions::default().max_memtable_size(64 * 1024);
        let a = db.keyspace("a", opts).unwrap();
        let b = db
            .keyspace("b", || {
                KeyspaceCreateOptions::default().max_memtable_size(200 * 1024)
            })
            .unwrap();

        let mut g = 0u64;
        for round in 0..12 {
            for _ in 0..300 {
                g += 1;
                let v = format!("{g:010}");
                let mut batch = db.batch();
                for i in 0..KEYS {
                    batch.insert(&a, key(i), v.as_bytes());
                    batch.insert(&b, key(i), v.as_bytes());
                }
                batch.commit().unwrap();
            }
            quiesce(&db, &[&a, &b]);

            let image = tempfile::tempdir().unwrap();
            copy_dir(folder.path(), image.path());
            match check_image(image.path()) {
                Ok(seen) => eprintln!(
                    "c8 manual={manual} round {round}: written gen {g}, image gen {seen:?}, tables a={} b={}",
                    a.table_count(),
                    b.table_count()
                ),
                Err(e) => panic!("c8 manual={manual} round {round}: {e}"),
            }
        }
    }
}

// ---------------------------------------------------------------------------------------------
// c9: snapshot held across flush, tracker gc, version-history gc and major compaction
// ---------------------------------------------------------------------------------------------

fn held_snapshot(blob: bool) {
    let folder = tempfile::tempdir().unwrap();
    let db = Database::builder(&folder).open().unwrap();
    let opts = || {
        let o = KeyspaceCreateOptions::default();
        if blob {
            o.with_kv_separation(Some(
                fjall::KvSeparationOptions::default()
                    .separation_threshold(1)
                    .staleness_threshold(0.01)
                    .age_cutoff(1.0),
            ))
        } else {
            o
        }
    };
    let a = db.keyspace("a", opts).unwrap();
    let b = db.keyspace("b", opts).unwrap();
    let c = db.keyspace("c", KeyspaceCreateOptions::default).unwrap();

    let write = |g: u64| {
        let v = format!("{g:010}");
        let mut batch = db.batch();
        for i in 0..KEYS {
            batch.insert(&a, key(i), v.as_bytes());
            batch.insert(&b, key(i), v.as_bytes());
        }
        batch.commit().unwrap();
    };

    write(1);
    a.rotate_memtable_and_wait().unwrap();
    c.insert("x", "x").unwrap();
    c.insert("x", "y").unwrap();

    let snap = db.snapshot();
    let snap2 = snap.clone();
    drop(snap);

    let check = |what: &str| {
        for ks in [&a, &b] {
            let n = snap2.iter(ks).count();
            assert_eq!(KEYS, n, "{what}: scan of {:?}", ks.name());
            for g in snap2.iter(ks) {
                assert_eq!(&*g.value().unwrap(), b"0000000001", "{what}");
            }
            for i in 0..KEYS {
                assert_eq!(
                    snap2.get(ks, key(i)).unwrap().as_deref(),
                    Some(b"0000000001".as_slice()),
                    "{what}: {:?}/{}",
                    ks.name(),
                    key(i)
                );
            }
        }
    };

    for round in 2..6u64 {
        write(round);
        // half of the batch's keys get removed again
        for i in 0..KEYS / 2 {
            a.remove(key(i)).unwrap();
        }
        c.insert("x", "z").unwrap();
        c.rotate_memtable_and_wait().unwrap(); // tracker gc
        a.rotate_memtable_and_wait().unwrap();
        b.rotate_memtable_and_wait().unwrap();
        check("after flush");

        // trigger the tracker's own gc (every 10k closes)
        for _ in 0..10_001 {
            drop(db.snapshot());
        }
        c.insert("x", "zz").unwrap();
        c.rotate_memtable_and_wait().unwrap();
        a.major_compact().unwrap();
        b.major_compact().unwrap();
        check("after major compaction");
    }
}

#[test]
fn c9_held_snapshot_standard() {
    held_snapshot(false);
}

#[test]
fn c9_held_snapshot_blob() {
    held_snapshot(true);
}

// Same candidates with big batches (apply phase of a batch takes milliseconds)
#[test]
fn c1b_big_batches_no_maintenance() {
    stress_n(Noise::None, 8, 0, 2000).unwrap();
}

#[test]
fn c2b_big_batches_locked_version_changes() {
    stress_n(Noise::LockedVersionChanges, 10, 0, 2000).unwrap();
}

#[test]
fn c3b_big_batches_rotate_no_flush() {
    stress_n(Noise::RotateNoFlush, 6, 0, 2000).unwrap();
}

#[test]
fn c4b_big_batches_snapshot_churn() {
    stress_n(Noise::SnapshotChurn, 8, 0, 2000).unwrap();
}

// ---------------------------------------------------------------------------------------------
// c6: version changes of a keyspace that IS part of the batches, but all done under the journal
// lock (bulk ingestion flushes the keyspace's memtables itself), plus rotation, tracker gc and
// version-history gc; no worker threads, so no flush/compaction ever completes in the background
// ---------------------------------------------------------------------------------------------
#[test]
fn c6_ingestion_into_batched_keyspace() {
    let keys = 64;
    let folder = tempfile::tempdir().unwrap();
    let db = Database::builder(&folder)
        .worker_threads_unchecked(0)
        .open()
        .unwrap();
    let a = db.keyspace("a", KeyspaceCreateOptions::default).unwrap();
    let b = db.keyspace("b", KeyspaceCreateOptions::default).unwrap();

    let stop = Arc::new(AtomicBool::new(false));
    let gen = Arc::new(AtomicU64::new(0));
    let err: Arc<std::sync::Mutex<Option<String>>> = Arc::default();
    let mut handles = vec![];

    for _ in 0..2 {
        let (db, a, b, stop, gen) = (db.clone(), a.clone(), b.clone(), stop.clone(), gen.clone());
        handles.push(std::thread::spawn(move || {
            while !stop.load(Ordering::Relaxed) {
                let g = gen.fetch_add(1, Ordering::Relaxed);
                let v = format!("{g:010}");
                let mut batch = db.batch();
                for i in 0..keys {
                    batch.insert(&a, key(i), v.as_bytes());
                    batch.insert(&b, key(i), v.as_bytes());
                }
                batch.commit().unwrap();
            }
        }));
    }
    for _ in 0..3 {
        let (db, a, b, stop, err) = (db.clone(), a.clone(), b.clone(), stop.clone(), err.clone());
        handles.push(std::thread::spawn(move || {
            while !stop.load(Ordering::Relaxed) {
                // NOTE: range scan, so the ingested keys (prefix "zz") are not looked at
                let snap = db.snapshot();
                let mut seen: Option<Vec<u8>> = None;
                let mut cnt = 0;
                for ks in [&a, &b] {
                    for g in snap.prefix(ks, "k") {
                        let v = g.value().unwrap();
                        cnt += 1;
                        if let Some(s) = &seen {
                            if s.as_slice() != &*v {
                                *err.lock().unwrap() = Some(format!(
                                    "torn snapshot @{}: {:?} vs {:?}",
                                    snap.seqno(),
                                    String::from_utf8_lossy(s),
                                    String::from_utf8_lossy(&v)
                                ));
                                stop.store(true, Ordering::Relaxed);
                            }
                        } else {
                            seen = Some(v.to_vec());
                        }
                    }
                }
                if cnt != 0 && cnt != 2 * keys {
                    *err.lock().unwrap() =
                        Some(format!("torn snapshot @{}: {cnt} items", snap.seqno()));
                    stop.store(true, Ordering::Relaxed);
                }
            }
        }));
    }
    {
        let (db, a, b, stop) = (db.clone(), a.clone(), b.clone(), stop.clone());
        handles.push(std::thread::spawn(move || {
            let mut n = 0u64;
            // NOTE: no workers = no compaction, so stay below the L0 write stall (20 runs)
            while !stop.load(Ordering::Relaxed) && n < 16 {
                n += 1;
                std::thread::sleep(Duration::from_millis(300));
                let ks = if n % 2 == 0 { &a } else { &b };
                let mut ing = ks.start_ingestion().unwrap();
                ing.write(format!("zz{n:05}"), "v").unwrap();
                ing.finish().unwrap();
                if n % 3 == 0 {
                    ks.rotate_memtable().unwrap();
                }
                for _ in 0..3_500 {
                    drop(db.snapshot());
                }
            }
        }));
    }

    let start = Instant::now();
    while start.elapsed() < Duration::from_secs(10) && !stop.load(Ordering::Relaxed) {
        std::thread::sleep(Duration::from_millis(50));
    }
    stop.store(true, Ordering::Relaxed);
    for h in handles {
        h.join().unwrap();
    }
    eprintln!(
        "c6: {} batches, tables a={} b={}",
        gen.load(Ordering::Relaxed),
        a.table_count(),
        b.table_count()
    );
    let e = err.lock().unwrap().take();
    if let Some(e) = e {
        panic!("{e}");
    }
}

// ---------------------------------------------------------------------------------------------
// c10 - FAILS on the unchanged code. Caveat: this is a crash image, i.e. it violates the first
// sentence of C06 ("every snapshot sees each batch entirely or not at all, across all keyspaces")
// for readers AFTER a reopen; C06's quantifier only talks about live schedules.
//
// The flush worker relies on `journal_writer.pos()` (BufWriter::stream_position, which happens to
// flush the BufWriter) as its only "write-ahead" barrier. That barrier is taken BEFORE the worker
// looks at the list of sealed memtables. A batch that is committed without a durability level
// (manual_journal_persist, or `WriteBatch::durability(None)`) and whose keyspace is rotated after
// that barrier is still swept up by the same flush: its items of ONE keyspace reach a table while
// its journal record still sits in the process-local buffer. A process crash at that point leaves
// a half-applied batch for every reader after the reopen.
//
// The natural window (pos() .. tree.flush()) is only microseconds wide, so the test widens it with
// two legal stalls: the tree's flush lock (doc-hidden `keyspace.tree`) and a slow
// `create_options` closure of `Database::keyspace` (it runs under the keyspaces write lock, which a
// committing batch waits for while holding the journal lock - that keeps the worker away from its
// next `pos()` call).
// ---------------------------------------------------------------------------------------------
#[test]
fn c10_crash_image_half_batch_after_flush_worker_window() {
    side_window(true);
}

/// Sanity variant: with the default durability (journal buffer written out on commit) the same
/// schedule leaves a consistent image
#[test]
fn c10_sanity_default_durability() {
    side_window(false);
}

fn side_window(manual_journal_persist: bool) {
    use fjall::AbstractTree;
    use std::sync::mpsc::channel;

    let folder = tempfile::tempdir().unwrap();
    let db = Database::builder(&folder)
        .manual_journal_persist(manual_journal_persist)
        .worker_threads(1)
        .open()
        .unwrap();
    let a = db.keyspace("a", KeyspaceCreateOptions::default).unwrap();
    let b = db.keyspace("b", KeyspaceCreateOptions::default).unwrap();

    let write = |g: u64| {
        let v = format!("{g:010}");
        let mut batch = db.batch();
        for i in 0..KEYS {
            batch.insert(&a, key(i), v.as_bytes());
            batch.insert(&b, key(i), v.as_bytes());
        }
        batch.commit().unwrap();
    };

    // generation 0 is durable
    write(0);
    db.persist(fjall::PersistMode::SyncAll).unwrap();

    // stall the flush worker between its journal barrier and the flush itself
    let flush_lock = a.tree.get_flush_lock();
    assert!(a.rotate_memtable().unwrap());
    std::thread::sleep(Duration::from_millis(500));

    // generation 1: acknowledged, but only in the journal writer's buffer
    write(1);
    assert!(a.rotate_memtable().unwrap());

    // keep the worker away from the journal afterwards
    let (entered_tx, entered_rx) = channel();
    let (release_tx, release_rx) = channel::<()>();
    let t1 = {
        let db = db.clone();
        std::thread::spawn(move || {
            db.keyspace("slow", move || {
                entered_tx.send(()).unwrap();
                release_rx.recv().unwrap();
                KeyspaceCreateOptions::default()
            })
            .unwrap();
        })
    };
    entered_rx.recv().unwrap();
    let t2 = {
        let (db, b) = (db.clone(), b.clone());
        std::thread::spawn(move || {
            let mut batch = db.batch();
            batch.insert(&b, "zzz", "zzz");
            batch.commit().unwrap();
        })
    };
    std::thread::sleep(Duration::from_millis(300));

    drop(flush_lock);
    while a.table_count() == 0 {
        std::thread::sleep(Duration::from_millis(10));
    }
    std::thread::sleep(Duration::from_millis(300));

    // "crash"
    let image = tempfile::tempdir().unwrap();
    copy_dir(folder.path(), image.path());

    release_tx.send(()).unwrap();
    t1.join().unwrap();
    t2.join().unwrap();

    {
        let db = Database::builder(image.path())
            .worker_threads_unchecked(0)
            .open()
            .unwrap();
        let a = db.keyspace("a", KeyspaceCreateOptions::default).unwrap();
        let b = db.keyspace("b", KeyspaceCreateOptions::default).unwrap();
        let snap = db.snapshot();
        let ga = snap.get(&a, key(0)).unwrap().unwrap();
        let gb = snap.get(&b, key(0)).unwrap().unwrap();
        eprintln!(
            "image: a/k000 = {:?}, b/k000 = {:?}",
            String::from_utf8_lossy(&ga),
            String::from_utf8_lossy(&gb)
        );
        assert_eq!(ga, gb, "half of batch 1 survived the crash");
    }
}

// ---------------------------------------------------------------------------------------------
// c11: real flushes, compactions and major compactions complete while READERS are active, but
// never while a batch is in flight (the single writer quiesces the database before its next
// batch) - isolates the reader side (version selection, tracker gc, version-history gc, MVCC gc)
// from the already known writer-side issue
// ---------------------------------------------------------------------------------------------
#[test]
fn c11_readers_during_maintenance_no_batch_in_flight() {
    let keys = 64;
    let folder = tempfile::tempdir().unwrap();
    let db = Database::builder(&folder).open().unwrap();
    let a = db.keyspace("a", KeyspaceCreateOptions::default).unwrap();
    let b = db
        .keyspace("b", || {
            KeyspaceCreateOptions::default().with_kv_separation(Some(
                fjall::KvSeparationOptions::default().separation_threshold(1),
            ))
        })
        .unwrap();

    let stop = Arc::new(AtomicBool::new(false));
    let err: Arc<std::sync::Mutex<Option<String>>> = Arc::default();
    let mut handles = vec![];

    for r in 0..4 {
        let (db, a, b, stop, err) = (db.clone(), a.clone(), b.clone(), stop.clone(), err.clone());
        handles.push(std::thread::spawn(move || {
            let mut held: Option<(fjall::Snapshot, Vec<u8>)> = None;
            let mut n = 0u64;
            while !stop.load(Ordering::Relaxed) {
                n += 1;
                let res = if r == 0 {
                    check_scan(&a, keys).and_then(|()| check_scan(&b, keys))
                } else {
                    check_snapshot_n(&db, &a, &b, keys)
                };
                if let Err(e) = res {
                    *err.lock().unwrap() = Some(e);
                    stop.store(true, Ordering::Relaxed);
                }

                // a snapshot that is held for a while must keep seeing its generation everywhere
                if r == 1 {
                    if let Some((snap, gen)) = &held {
                        for ks in [&a, &b] {
                            for i in 0..keys {
                                let v = snap.get(ks, key(i)).unwrap();
                                if v.as_deref() != Some(gen.as_slice()) {
                                    *err.lock().unwrap() = Some(format!(
                                        "held snapshot @{}: {:?}/{} = {:?}, expected {:?}",
                                        snap.seqno(),
                                        ks.name(),
                                        key(i),
                                        v.map(|v| String::from_utf8_lossy(&v).to_string()),
                                        String::from_utf8_lossy(gen)
                                    ));
                                    stop.store(true, Ordering::Relaxed);
                                }
                            }
                        }
                    }
                    if n % 50 == 0 || held.is_none() {
                        let snap = db.snapshot();
                        held = snap.get(&a, key(0)).unwrap().map(|v| (snap, v.to_vec()));
                    }
                }
            }
        }));
    }

    let start = Instant::now();
    let mut g = 0u64;
    while start.elapsed() < Duration::from_secs(25) && !stop.load(Ordering::Relaxed) {
        g += 1;
        let v = format!("{g:010}");
        let mut batch = db.batch();
        for i in 0..keys {
            batch.insert(&a, key(i), v.as_bytes());
            batch.insert(&b, key(i), v.as_bytes());
        }
        batch.commit().unwrap();

        match g % 4 {
            0 => a.rotate_memtable_and_wait().unwrap(),
            1 => b.rotate_memtable_and_wait().unwrap(),
            2 => {
                if g % 8 == 2 {
                    a.major_compact().unwrap();
                } else {
                    b.major_compact().unwrap();
                }
            }
            _ => {}
        }
        quiesce_for(&db, &[&a, &b], 4);
    }
    stop.store(true, Ordering::Relaxed);
    for h in handles {
        h.join().unwrap();
    }
    eprintln!("c11: {g} generations, tables a={} b={}", a.table_count(), b.table_count());
    let e = err.lock().unwrap().take();
    if let Some(e) = e {
        panic!("{e}");
    }
}
