// CARGO_TARGET_DIR=/tmp/hunt-C15/target cargo test --offline --test hunt_demo -- --test-threads=1 --nocapture
//
// Property C15: "If bytes of a completed record are altered on disk, opening either fails or
// yields the state of some prefix of the commit history; it never yields altered keys or values."
//
// FAILING on the unchanged code:
//   * c15_altered_start_seqno_yields_state_that_never_existed          (finding 1)
//   * c15_altered_start_seqno_resurrects_deleted_key                   (finding 1, tombstone variant)
//   * c15_damaged_record_cuts_journal_but_flushed_keyspace_keeps_later_commits (finding 2)
//   * c15_damaged_record_in_sealed_journal_is_skipped_and_active_journal_still_replayed (finding 2, sealed journal)
// PASSING sanity variants / candidates that found nothing:
//   * c15_sanity_unaltered_and_checksummed_byte
//   * c15_roundtrip_lengths_batches_and_cross_compression
//   * c15_roundtrip_transactions_kv_separation_crash_image
//   * c15_sweep_everything_but_start_seqno (ignored by default, ~2 min; run with --ignored)

use fjall::{CompressionType, Database, KeyspaceCreateOptions};
use std::collections::BTreeMap;
use std::path::Path;

type State = BTreeMap<(String, Vec<u8>), Vec<u8>>;

const START_LEN: usize = 1 + 4 + 8; // tag, item count, seqno
const ITEM_HEADER_LEN: usize = 1 + 1 + 1 + 8 + 2 + 4 + 4;
const END_LEN: usize = 1 + 8 + 4; // tag, checksum, trailer magic
const SEQNO_OFFSET_IN_START: usize = 1 + 4;

fn copy_dir(src: &Path, dst: &Path, skip: &str) {
    std::fs::create_dir_all(dst).unwrap();
    for e in std::fs::read_dir(src).unwrap() {
        let e = e.unwrap();
        let name = e.file_name();
        if name.to_string_lossy() == skip {
            continue;
        }
        let to = dst.join(&name);
        if e.metadata().unwrap().is_dir() {
            copy_dir(&e.path(), &to, skip);
        } else {
            std::fs::copy(e.path(), to).unwrap();
        }
    }
}

/// Writes a journal file of the usual preallocated size (sparse) with `used` at its start.
fn write_journal(dir: &Path, name: &str, used: &[u8]) {
    use std::io::Write;
    let mut f = std::fs::File::create(dir.join(name)).unwrap();
    f.set_len(64 * 1024 * 1024).unwrap();
    f.write_all(used).unwrap();
    f.sync_all().unwrap();
}

/// The written part of a journal file (everything up to the last non-zero byte).
fn used_journal_bytes(dir: &Path, name: &str) -> Vec<u8> {
    let bytes = std::fs::read(dir.join(name)).unwrap();
    let used = bytes.iter().rposition(|b| *b != 0).map_or(0, |x| x + 1);
    bytes[..used].to_vec()
}

/// Copy of the database directory `src` whose journal `name` has `alter` applied.
fn altered_copy(src: &Path, name: &str, alter: impl FnOnce(&mut Vec<u8>)) -> tempfile::TempDir {
    altered_copy_of(src, name, used_journal_bytes(src, name), alter)
}

fn altered_copy_of(src: &Path, name: &str, mut used: Vec<u8>, alter: impl FnOnce(&mut Vec<u8>)) -> tempfile::TempDir {
    alter(&mut used);
    let t = tempfile::tempdir().unwrap();
    copy_dir(src, t.path(), name);
    write_journal(t.path(), name, &used);
    t
}

fn read_state(db: &Database, names: &[&str]) -> fjall::Result<State> {
    let mut s = State::new();
    for n in names {
        let ks = db.keyspace(n, KeyspaceCreateOptions::default)?;
        for g in ks.iter() {
            let (k, v) = g.into_inner()?;
            s.insert((n.to_string(), k.to_vec()), v.to_vec());
        }
    }
    Ok(s)
}

fn compact(s: &State) -> String {
    s.iter()
        .map(|((ks, k), v)| {
            format!(
                "{ks}/{}={}{}",
                String::from_utf8_lossy(k),
                String::from_utf8_lossy(&v[..v.len().min(6)]),
                if v.len() > 6 { ".." } else { "" }
            )
        })
        .collect::<Vec<_>>()
        .join(" ")
}

fn u64_at(bytes: &[u8], off: usize) -> u64 {
    u64::from_le_bytes(bytes[off..off + 8].try_into().unwrap())
}

/// Opens the directory and checks the property: open fails, or the state is a prefix state.
fn assert_fails_or_prefix(dir: &Path, names: &[&str], prefixes: &[State], what: &str) {
    match Database::builder(dir).open() {
        Err(e) => println!("{what}: open failed with {e:?} (fine)"),
        Ok(db) => {
            let s = read_state(&db, names).unwrap();
            match prefixes.iter().position(|p| *p == s) {
                Some(i) => println!("{what}: state of prefix #{i} (fine)"),
                None => {
                    let all = prefixes
                        .iter()
                        .enumerate()
                        .map(|(i, p)| format!("  #{i}: {{{}}}", compact(p)))
                        .collect::<Vec<_>>()
                        .join("\n");
                    panic!(
                        "{what}: open succeeded with state {{{}}} which is not the state of any prefix of the commit history:\n{all}",
                        compact(&s)
                    );
                }
            }
        }
    }
}

/// History H1 (one keyspace, single inserts): a=1, b=1, a=2, b=2.
fn history_1(dir: &Path) -> fjall::Result<Vec<State>> {
    let names = ["one"];
    let mut prefixes = vec![];
    let db = Database::builder(dir).open()?;
    let ks = db.keyspace("one", KeyspaceCreateOptions::default)?;
    prefixes.push(read_state(&db, &names)?);
    for (k, v) in [("a", "1"), ("b", "1"), ("a", "2"), ("b", "2")] {
        ks.insert(k, v)?;
        prefixes.push(read_state(&db, &names)?);
    }
    Ok(prefixes)
}

#[test]
fn c15_sanity_unaltered_and_checksummed_byte() -> fjall::Result<()> {
    let folder = tempfile::tempdir()?;
    let prefixes = history_1(folder.path())?;

    // unaltered copy: the full history comes back
    let t = altered_copy(folder.path(), "0.jnl", |_| {});
    {
        let db = Database::builder(t.path()).open()?;
        assert_eq!(&read_state(&db, &["one"])?, prefixes.last().unwrap());
    }

    // a byte that the checksum covers (value of the first record): open fails
    let value_off = START_LEN + ITEM_HEADER_LEN + 1;
    let t = altered_copy(folder.path(), "0.jnl", |j| {
        assert_eq!(j[value_off], b'1');
        j[value_off] ^= 0x01;
    });
    assert!(matches!(
        Database::builder(t.path()).open(),
        Err(fjall::Error::JournalRecovery(_))
    ));
    Ok(())
}

/// FINDING 1. The seqno in the batch start marker is not covered by the batch checksum
/// (the checksum is computed over the items only), and replay applies every item with it.
#[test]
fn c15_altered_start_seqno_yields_state_that_never_existed() -> fjall::Result<()> {
    let folder = tempfile::tempdir()?;
    let prefixes = history_1(folder.path())?;

    // first record = [Start][Item a=1][End]; flip the top bit of the lowest seqno byte
    let t = altered_copy(folder.path(), "0.jnl", |j| {
        assert_eq!(j[0], 1, "start tag");
        assert_eq!(u32::from_le_bytes(j[1..5].try_into().unwrap()), 1, "item count");
        let seqno = u64_at(j, SEQNO_OFFSET_IN_START);
        assert!(seqno < 0x80, "seqno of the first insert is small: {seqno}");
        assert_eq!(j[START_LEN + ITEM_HEADER_LEN], b'a');
        j[SEQNO_OFFSET_IN_START] ^= 0x80;
        println!("seqno of record 'a=1' altered from {seqno} to {}", u64_at(j, SEQNO_OFFSET_IN_START));
    });

    // expected: Err(..) or one of {}, {a=1}, {a=1,b=1}, {a=2,b=1}, {a=2,b=2}
    // actual: Ok with {a=1, b=2}
    assert_fails_or_prefix(t.path(), &["one"], &prefixes, "altered seqno of first record");
    Ok(())
}

/// FINDING 1, tombstone variant: raising the seqno of an insert above the seqno of the tombstone
/// that deleted it brings the deleted value back while later commits are present.
#[test]
fn c15_altered_start_seqno_resurrects_deleted_key() -> fjall::Result<()> {
    let folder = tempfile::tempdir()?;
    let names = ["one"];
    let mut prefixes = vec![];
    {
        let db = Database::builder(&folder).open()?;
        let ks = db.keyspace("one", KeyspaceCreateOptions::default)?;
        prefixes.push(read_state(&db, &names)?);
        ks.insert("first", "1")?;
        prefixes.push(read_state(&db, &names)?);
        ks.insert("secret", "old")?;
        prefixes.push(read_state(&db, &names)?);
        ks.remove("secret")?;
        prefixes.push(read_state(&db, &names)?);
        ks.insert("z", "later")?;
        prefixes.push(read_state(&db, &names)?);
    }

    // second record = [Start][Item secret=old][End]
    let rec2 = START_LEN + ITEM_HEADER_LEN + "first".len() + "1".len() + END_LEN;
    let t = altered_copy(folder.path(), "0.jnl", |j| {
        assert_eq!(j[rec2], 1, "start tag");
        assert_eq!(&j[rec2 + START_LEN + ITEM_HEADER_LEN..][..6], b"secret");
        let seqno = u64_at(j, rec2 + SEQNO_OFFSET_IN_START);
        j[rec2 + SEQNO_OFFSET_IN_START + 1] ^= 0x01; // + 256
        println!("seqno of 'secret=old' altered from {seqno} to {}", u64_at(j, rec2 + SEQNO_OFFSET_IN_START));
    });

    // expected: Err(..) or a prefix state; actual: Ok with {first=1, secret=old, z=later}
    assert_fails_or_prefix(t.path(), &names, &prefixes, "altered seqno of a deleted insert");
    Ok(())
}

/// FINDING 2. Every decode error of the raw journal reader (invalid tag, bad trailer, failed
/// decompression, length mismatch) is taken for a torn tail: the journal is cut at that point and
/// replay ends *successfully*, even though complete, checksummed records follow. Within one journal
/// and one keyspace that still is a prefix; as soon as later commits are durable elsewhere (tables of
/// a keyspace that was flushed in between) the result is a state that never existed.
#[test]
fn c15_damaged_record_cuts_journal_but_flushed_keyspace_keeps_later_commits() -> fjall::Result<()> {
    let folder = tempfile::tempdir()?;
    let names = ["one", "two"];
    let mut prefixes = vec![];
    {
        let db = Database::builder(&folder).open()?;
        let one = db.keyspace("one", KeyspaceCreateOptions::default)?;
        let two = db.keyspace("two", KeyspaceCreateOptions::default)?;
        prefixes.push(read_state(&db, &names)?);
        one.insert("x", "1")?;
        prefixes.push(read_state(&db, &names)?);
        two.insert("k", "1")?;
        prefixes.push(read_state(&db, &names)?);
        one.insert("y", "1")?;
        prefixes.push(read_state(&db, &names)?);
        two.insert("k2", "1")?;
        prefixes.push(read_state(&db, &names)?);
        // "two" is flushed, "one" lives on in the journal only
        two.rotate_memtable_and_wait()?;
        assert_eq!(&read_state(&db, &names)?, prefixes.last().unwrap());
    }

    // alter the item tag of the very first record (one/x=1): 2 -> 0
    let t = altered_copy(folder.path(), "0.jnl", |j| {
        assert_eq!(j[START_LEN], 2, "item tag");
        assert_eq!(j[START_LEN + ITEM_HEADER_LEN], b'x');
        j[START_LEN] ^= 0x02;
    });

    // expected: Err(..) or a prefix state (two/k present implies one/x present)
    // actual: Ok with {two/k=1, two/k2=1} and nothing in "one"
    assert_fails_or_prefix(t.path(), &names, &prefixes, "altered item tag of first record");
    Ok(())
}

/// FINDING 2, sealed-journal variant: the cut happens in a sealed journal (0.jnl), the active
/// journal (1.jnl) is replayed afterwards nevertheless.
#[test]
fn c15_damaged_record_in_sealed_journal_is_skipped_and_active_journal_still_replayed() -> fjall::Result<()> {
    let folder = tempfile::tempdir()?;
    let names = ["one"]; // the projection of the history onto keyspace "one" is enough
    let mut prefixes = vec![];
    {
        let db = Database::builder(&folder).open()?;
        let one = db.keyspace("one", KeyspaceCreateOptions::default)?;
        let big = db.keyspace("big", KeyspaceCreateOptions::default)?;
        prefixes.push(read_state(&db, &names)?);
        one.insert("x", "1")?;
        prefixes.push(read_state(&db, &names)?);
        one.insert("y", "1")?;
        prefixes.push(read_state(&db, &names)?);
        for i in 0..66u64 {
            big.insert(format!("v{i:03}"), pseudo(1_024 * 1_024, i + 1))?;
        }
        big.rotate_memtable_and_wait()?;
        assert_eq!(db.journal_count(), 2, "journal was rotated, 0.jnl is kept for keyspace one");
        one.insert("z", "1")?;
        prefixes.push(read_state(&db, &names)?);
    }
    assert!(folder.path().join("1.jnl").try_exists()?);

    // alter the item tag of the second record (one/y=1) in the sealed journal: 2 -> 0
    let rec2 = START_LEN + ITEM_HEADER_LEN + 2 + END_LEN;
    let t = altered_copy(folder.path(), "0.jnl", |j| {
        assert_eq!(j[rec2], 1, "start tag");
        assert_eq!(j[rec2 + START_LEN], 2, "item tag");
        assert_eq!(j[rec2 + START_LEN + ITEM_HEADER_LEN], b'y');
        j[rec2 + START_LEN] ^= 0x02;
    });

    // expected: Err(..) or one of {}, {x}, {x,y}, {x,y,z}; actual: Ok with {x, z}
    assert_fails_or_prefix(t.path(), &names, &prefixes, "altered item tag in sealed journal");
    Ok(())
}

fn pseudo(n: usize, seed: u64) -> Vec<u8> {
    let mut x = seed.wrapping_mul(0x9E37_79B9_7F4A_7C15) | 1;
    (0..n)
        .map(|_| {
            x ^= x << 13;
            x ^= x >> 7;
            x ^= x << 17;
            (x >> 24) as u8
        })
        .collect()
}

/// Candidate without finding: value lengths around the compression threshold, incompressible and
/// compressible data, empty values inside batches, every tombstone kind, clear, several keyspaces;
/// written with compression on/off and read with compression on/off.
#[test]
fn c15_roundtrip_lengths_batches_and_cross_compression() -> fjall::Result<()> {
    let names = ["one", "two"];
    for write_comp in [CompressionType::Lz4, CompressionType::None] {
        for read_comp in [CompressionType::Lz4, CompressionType::None] {
            let folder = tempfile::tempdir()?;
            let expected;
            {
                let db = Database::builder(&folder).journal_compression(write_comp).open()?;
                let one = db.keyspace("one", KeyspaceCreateOptions::default)?;
                let two = db.keyspace("two", KeyspaceCreateOptions::default)?;

                two.insert("gone", "x")?;
                two.clear()?;

                let lens = [0usize, 1, 2, 255, 256, 4_095, 4_096, 4_097, 8_191, 65_535, 65_536, 70_001, 300_000];
                for (i, len) in lens.iter().enumerate() {
                    one.insert(format!("r{i:02}"), pseudo(*len, i as u64 + 1))?; // incompressible
                    one.insert(format!("c{i:02}"), vec![b'q'; *len])?; // compressible
                    one.insert(format!("z{i:02}"), vec![0u8; *len])?; // zeroes
                }
                let mut batch = db.batch();
                for (i, len) in lens.iter().enumerate() {
                    batch.insert(&two, format!("r{i:02}"), pseudo(*len, i as u64 + 100));
                    batch.insert(&one, format!("e{i:02}"), "");
                    batch.insert(&two, pseudo(1 + i * 5_000, 7), vec![0xFFu8; *len]);
                }
                batch.insert(&one, vec![0u8; 65_535], vec![0u8; 4_096]);
                batch.remove(&one, "r03");
                batch.remove_weak(&one, "c04");
                batch.commit()?;
                one.remove("z05")?;
                one.remove_weak("z06")?;
                one.insert([0u8], [0u8])?;
                one.insert([0xFFu8; 3], [])?;

                expected = read_state(&db, &names)?;
                assert!(expected.len() > 60);
            }
            {
                let db = Database::builder(&folder).journal_compression(read_comp).open()?;
                let got = read_state(&db, &names)?;
                assert!(got == expected, "write={write_comp:?} read={read_comp:?}: content differs after journal replay");
                // write more under the other setting and read back under the first
                let one = db.keyspace("one", KeyspaceCreateOptions::default)?;
                one.insert("more", pseudo(10_000, 9))?;
                one.insert("more2", vec![b'm'; 10_000])?;
            }
            {
                let db = Database::builder(&folder).journal_compression(write_comp).open()?;
                let got = read_state(&db, &names)?;
                assert_eq!(got.len(), expected.len() + 2);
                assert_eq!(got[&("one".to_string(), b"more".to_vec())], pseudo(10_000, 9));
                assert_eq!(got[&("one".to_string(), b"more2".to_vec())], vec![b'm'; 10_000]);
            }
        }
    }
    Ok(())
}

/// Candidate without finding: transactions of both kinds (write sets with empty values, tombstones,
/// values around the threshold, two keyspaces, one of them key-value separated), recovered from a
/// crash image (directory copied while the database is open) under the other compression setting.
#[test]
fn c15_roundtrip_transactions_kv_separation_crash_image() -> fjall::Result<()> {
    use fjall::{KvSeparationOptions, OptimisticTxDatabase, PersistMode, Readable, SingleWriterTxDatabase};

    let lens = [0usize, 1, 4_095, 4_096, 4_097, 100_000];
    let blob_opts = || KeyspaceCreateOptions::default().with_kv_separation(Some(KvSeparationOptions::default()));

    for kind in 0..2 {
        let folder = tempfile::tempdir()?;
        let mut expected = State::new();
        let mut put = |ks: &str, k: Vec<u8>, v: Vec<u8>| {
            expected.insert((ks.to_string(), k), v);
        };

        macro_rules! fill {
            ($db:expr, $tx:expr, $one:expr, $two:expr) => {
                for (i, len) in lens.iter().enumerate() {
                    let (k, v) = (format!("r{i}").into_bytes(), pseudo(*len, 40 + i as u64));
                    $tx.insert(&$one, k.clone(), v.clone());
                    put("one", k, v);
                    let (k, v) = (format!("c{i}").into_bytes(), vec![7u8; *len]);
                    $tx.insert(&$two, k.clone(), v.clone());
                    put("two", k, v);
                }
                $tx.insert(&$one, "dead", "x");
                $tx.remove(&$one, "dead");
                $tx.insert(&$two, "twice", "x");
                $tx.insert(&$two, "twice", "");
                put("two", b"twice".to_vec(), vec![]);
            };
        }

        let image;
        if kind == 0 {
            let db = SingleWriterTxDatabase::builder(&folder).open()?;
            let one = db.keyspace("one", KeyspaceCreateOptions::default)?;
            let two = db.keyspace("two", blob_opts)?;
            let mut tx = db.write_tx();
            fill!(db, tx, one, two);
            assert!(tx.get(&one, "dead")?.is_none());
            tx.commit()?;
            db.persist(PersistMode::Buffer)?;
            image = altered_copy(folder.path(), "0.jnl", |_| {});
        } else {
            let db = OptimisticTxDatabase::builder(&folder)
                .journal_compression(CompressionType::None)
                .open()?;
            let one = db.keyspace("one", KeyspaceCreateOptions::default)?;
            let two = db.keyspace("two", blob_opts)?;
            let mut tx = db.write_tx()?;
            fill!(db, tx, one, two);
            assert!(tx.get(&one, "dead")?.is_none());
            tx.commit()?.expect("no conflict");
            db.persist(PersistMode::Buffer)?;
            image = altered_copy(folder.path(), "0.jnl", |_| {});
        }

        let read_comp = if kind == 0 { CompressionType::None } else { CompressionType::Lz4 };
        let db = Database::builder(image.path()).journal_compression(read_comp).open()?;
        let got = read_state(&db, &["one", "two"])?;
        assert!(got == expected, "kind={kind}: content differs after replay of the crash image");
    }
    Ok(())
}

/// Candidate without finding beyond finding 1 and 2: every byte of a journal with single inserts, a
/// two-keyspace batch with an empty value, an LZ4-compressed value, tombstones of both kinds and a
/// clear is altered (every single-bit flip and 0xFF); with the start-marker seqno bytes left out, every open
/// fails or yields a prefix state (all data in this history lives in one journal and no keyspace is
/// flushed, so the cut of finding 2 is a prefix here).
#[test]
#[ignore = "takes a few minutes; run with --ignored"]
fn c15_sweep_everything_but_start_seqno() -> fjall::Result<()> {
    let folder = tempfile::tempdir()?;
    let names = ["one", "two"];
    let mut prefixes: Vec<State> = vec![];
    {
        let db = Database::builder(&folder).open()?;
        let a = db.keyspace("one", KeyspaceCreateOptions::default)?;
        let b = db.keyspace("two", KeyspaceCreateOptions::default)?;
        prefixes.push(read_state(&db, &names)?);
        macro_rules! step {
            ($e:expr) => {
                $e;
                prefixes.push(read_state(&db, &names)?);
            };
        }
        step!(a.insert("a", "1")?);
        step!(a.insert("b", "1")?);
        step!(a.insert("a", "2")?);
        step!({
            let mut batch = db.batch();
            batch.insert(&a, "c", "1");
            batch.remove(&a, "b");
            batch.insert(&b, "x", "");
            batch.insert(&b, "y", "yy");
            batch.commit()?
        });
        step!(a.insert("big", "abcdefgh".repeat(600))?);
        step!(a.remove("a")?);
        step!(b.clear()?);
        step!(b.insert("x", "3")?);
        step!(a.remove_weak("c")?);
        step!(a.insert("b", "4")?);
    }
    let used = used_journal_bytes(folder.path(), "0.jnl");

    // find the start markers by walking the records of the pristine journal
    let mut seqno_bytes = std::collections::BTreeSet::new();
    {
        let mut pos = 0;
        while pos < used.len() {
            assert_eq!(used[pos], 1, "start tag at {pos}");
            let count = u32::from_le_bytes(used[pos + 1..pos + 5].try_into().unwrap());
            for i in 0..8 {
                seqno_bytes.insert(pos + SEQNO_OFFSET_IN_START + i);
            }
            pos += START_LEN;
            for _ in 0..count {
                match used[pos] {
                    2 => {
                        let kl = u16::from_le_bytes(used[pos + 11..pos + 13].try_into().unwrap()) as usize;
                        let dl = u32::from_le_bytes(used[pos + 17..pos + 21].try_into().unwrap()) as usize;
                        pos += ITEM_HEADER_LEN + kl + dl;
                    }
                    4 => pos += 9,
                    t => panic!("unexpected tag {t} at {pos}"),
                }
            }
            assert_eq!(used[pos], 3, "end tag at {pos}");
            pos += END_LEN;
        }
    }
    println!("journal: {} bytes, {} start-seqno bytes skipped", used.len(), seqno_bytes.len());

    let mut bad = vec![];
    let (mut n_err, mut n_prefix, mut n_panic) = (0, 0, 0);
    for off in (0..used.len()).filter(|o| !seqno_bytes.contains(o)) {
        for pat in [0x01u8, 0x02, 0x04, 0x08, 0x10, 0x20, 0x40, 0x80, 0xFF] {
            let t = altered_copy_of(folder.path(), "0.jnl", used.clone(), |j| j[off] ^= pat);
            let p = t.path().to_path_buf();
            let r = std::panic::catch_unwind(|| -> fjall::Result<State> {
                let db = Database::builder(&p).open()?;
                read_state(&db, &names)
            });
            match r {
                Err(_) => {
                    n_panic += 1;
                    println!("PANIC at off={off} pat={pat:#x}");
                }
                Ok(Err(_)) => n_err += 1,
                Ok(Ok(s)) => {
                    if prefixes.iter().any(|p| *p == s) {
                        n_prefix += 1;
                    } else {
                        println!("NON-PREFIX at off={off} pat={pat:#x}: {}", compact(&s));
                        bad.push((off, pat));
                    }
                }
            }
        }
    }
    println!("err={n_err} prefix={n_prefix} panic={n_panic} bad={}", bad.len());
    assert!(bad.is_empty() && n_panic == 0, "{bad:?}");
    Ok(())
}
