// CARGO_TARGET_DIR=/tmp/hunt-C10/target cargo test --offline --release --test hunt_demo -- --test-threads=1 --nocapture
//
// Property C10, liveness half: "once all keyspaces have been flushed the number of journal files returns to one".
//
// FAIL on the unchanged code (all the same root cause: JournalManager::maintenance only accepts
// `tree.get_highest_persisted_seqno() >= watermark`, but a keyspace's tables may legitimately never reach / fall below
// the watermark although none of its journal records is needed any more):
//   t03_clear_lagging_keyspace                   <- main demo: clear() after the journal was sealed; journals pile up without bound
//   t12_clear_then_reopen                        <- the stuck journal survives a restart (recomputed watermarks have the same problem)
//   t04_weak_tombstone_flush_produces_nothing    <- flush GC drops value + weak tombstone, flush result is empty
//   t07_major_compaction_lowers_persisted_seqno  <- compaction evicts the newest item (tombstone), persisted seqno falls back to None
//
// PASS (sanity / pin the cause / safety half of the property, crash images after journal deletions):
//   t01, t02, t03b, t03c, t05, t06, t08, t10, t11

use fjall::{Database, Keyspace, KeyspaceCreateOptions};
use std::path::Path;

const MIB: usize = 1_024 * 1_024;

struct Rng(u64);

impl Rng {
    fn next(&mut self) -> u64 {
        let mut x = self.0;
        x ^= x << 13;
        x ^= x >> 7;
        x ^= x << 17;
        self.0 = x;
        x
    }

    fn blob(&mut self, len: usize) -> Vec<u8> {
        let mut v = Vec::with_capacity(len + 8);
        while v.len() < len {
            v.extend_from_slice(&self.next().to_le_bytes());
        }
        v.truncate(len);
        v
    }
}

fn big_opts() -> KeyspaceCreateOptions {
    // NOTE: Never rotate the filler keyspace's memtable automatically, so the schedule is deterministic
    KeyspaceCreateOptions::default().max_memtable_size(512 * MIB as u64)
}

/// Writes > 64 MB of incompressible journal traffic into `ks`
fn fill(ks: &Keyspace, rng: &mut Rng, round: u32) -> fjall::Result<()> {
    for i in 0..66u32 {
        ks.insert(format!("filler-{round}-{i}"), rng.blob(MIB))?;
    }
    Ok(())
}

fn jnl_files(path: &Path) -> Vec<String> {
    let mut v = std::fs::read_dir(path)
        .unwrap()
        .map(|d| d.unwrap().file_name().to_str().unwrap().to_owned())
        .filter(|n| n.ends_with(".jnl"))
        .collect::<Vec<_>>();
    v.sort();
    v
}

fn copy_dir(src: &Path, dst: &Path) {
    std::fs::create_dir_all(dst).unwrap();
    for dirent in std::fs::read_dir(src).unwrap() {
        let dirent = dirent.unwrap();
        let to = dst.join(dirent.file_name());
        if dirent.file_type().unwrap().is_dir() {
            copy_dir(&dirent.path(), &to);
        } else {
            std::fs::copy(dirent.path(), to).unwrap();
        }
    }
}

/// Takes a crash image of the (quiescent) database and opens it
fn crash_image(db: &Database, src: &Path) -> (tempfile::TempDir, Database) {
    db.persist(fjall::PersistMode::SyncAll).unwrap();
    let dir = tempfile::tempdir().unwrap();
    copy_dir(src, dir.path());
    let copy = Database::builder(dir.path()).open().unwrap();
    (dir, copy)
}

fn wait_for_journal_count(db: &Database, n: usize) -> bool {
    for _ in 0..300 {
        if db.journal_count() == n {
            return true;
        }
        std::thread::sleep(std::time::Duration::from_millis(10));
    }
    false
}

// ---------------------------------------------------------------------------------------------

/// Sanity: lagging keyspace keeps the sealed journal alive, flushing it releases the journal
#[test]
fn t01_lagging_keyspace_baseline() -> fjall::Result<()> {
    let folder = tempfile::tempdir()?;
    let mut rng = Rng(0x1234_5678_9abc_def1);

    let db = Database::builder(folder.path()).open()?;
    let a = db.keyspace("a", KeyspaceCreateOptions::default)?;
    let b = db.keyspace("b", big_opts)?;

    a.insert("a1", "v1")?;
    fill(&b, &mut rng, 0)?;
    b.rotate_memtable_and_wait()?;

    assert_eq!(2, db.journal_count());
    assert_eq!(2, jnl_files(folder.path()).len());

    {
        let (_dir, copy) = crash_image(&db, folder.path());
        let ca = copy.keyspace("a", KeyspaceCreateOptions::default)?;
        let cb = copy.keyspace("b", big_opts)?;
        assert_eq!(Some("v1".as_bytes().into()), ca.get("a1")?);
        assert_eq!(66, cb.len()?);
    }

    a.insert("a2", "v2")?;
    a.rotate_memtable_and_wait()?;
    assert!(wait_for_journal_count(&db, 1));
    assert_eq!(1, jnl_files(folder.path()).len());

    {
        let (_dir, copy) = crash_image(&db, folder.path());
        let ca = copy.keyspace("a", KeyspaceCreateOptions::default)?;
        let cb = copy.keyspace("b", big_opts)?;
        assert_eq!(Some("v1".as_bytes().into()), ca.get("a1")?);
        assert_eq!(Some("v2".as_bytes().into()), ca.get("a2")?);
        assert_eq!(66, cb.len()?);
    }

    Ok(())
}

fn flush_all(keyspaces: &[&Keyspace]) -> fjall::Result<()> {
    for ks in keyspaces {
        ks.rotate_memtable_and_wait()?;
    }
    Ok(())
}

/// Bulk ingestion into the lagging keyspace lifts its persisted seqno over the watermark
#[test]
fn t02_ingestion_into_lagging_keyspace() -> fjall::Result<()> {
    let folder = tempfile::tempdir()?;
    let mut rng = Rng(0x1234_5678_9abc_def2);

    let db = Database::builder(folder.path()).open()?;
    let a = db.keyspace("a", KeyspaceCreateOptions::default)?;
    let b = db.keyspace("b", big_opts)?;

    a.insert("a1", "v1")?;
    fill(&b, &mut rng, 0)?;
    b.rotate_memtable_and_wait()?;
    assert_eq!(2, db.journal_count());

    a.insert("a2", "v2")?;

    {
        let mut ing = a.start_ingestion()?;
        ing.write("i1", "x")?;
        ing.write("i2", "x")?;
        ing.finish()?;
    }

    a.insert("a3", "v3")?;

    // some maintenance
    b.insert("x", "y")?;
    b.rotate_memtable_and_wait()?;
    eprintln!("journal count after ingestion = {}", db.journal_count());

    {
        let (_dir, copy) = crash_image(&db, folder.path());
        let ca = copy.keyspace("a", KeyspaceCreateOptions::default)?;
        assert_eq!(Some("v1".as_bytes().into()), ca.get("a1")?);
        assert_eq!(Some("v2".as_bytes().into()), ca.get("a2")?);
        assert_eq!(Some("v3".as_bytes().into()), ca.get("a3")?);
        assert_eq!(Some("x".as_bytes().into()), ca.get("i1")?);
    }

    Ok(())
}

/// Lagging keyspace is cleared after the journal was sealed
#[test]
fn t03_clear_lagging_keyspace() -> fjall::Result<()> {
    let folder = tempfile::tempdir()?;
    let mut rng = Rng(0x1234_5678_9abc_def3);

    let db = Database::builder(folder.path()).open()?;
    let a = db.keyspace("a", KeyspaceCreateOptions::default)?;
    let b = db.keyspace("b", big_opts)?;

    a.insert("a1", "v1")?;
    fill(&b, &mut rng, 0)?;
    b.rotate_memtable_and_wait()?;
    assert_eq!(2, db.journal_count());

    a.clear()?;

    for round in 1..=2 {
        fill(&b, &mut rng, round)?;
        flush_all(&[&a, &b])?;
        eprintln!(
            "round {round}: journal_count={} files={:?}",
            db.journal_count(),
            jnl_files(folder.path())
        );
    }

    flush_all(&[&a, &b])?;
    assert_eq!(0, a.sealed_memtable_count());
    assert_eq!(0, b.sealed_memtable_count());
    assert!(a.is_empty()?);

    assert!(
        wait_for_journal_count(&db, 1),
        "all keyspaces are flushed, but there are {} journals: {:?}",
        db.journal_count(),
        jnl_files(folder.path()),
    );

    Ok(())
}

/// Lagging keyspace is deleted after the journal was sealed
#[test]
fn t05_delete_lagging_keyspace() -> fjall::Result<()> {
    let folder = tempfile::tempdir()?;
    let mut rng = Rng(0x1234_5678_9abc_def5);

    let db = Database::builder(folder.path()).open()?;
    let a = db.keyspace("a", KeyspaceCreateOptions::default)?;
    let b = db.keyspace("b", big_opts)?;

    a.insert("a1", "v1")?;
    fill(&b, &mut rng, 0)?;
    b.rotate_memtable_and_wait()?;
    assert_eq!(2, db.journal_count());

    db.delete_keyspace(a)?;
    let a = db.keyspace("a", KeyspaceCreateOptions::default)?;
    a.insert("a2", "v2")?;

    b.insert("x", "y")?;
    flush_all(&[&b])?;
    assert!(wait_for_journal_count(&db, 1));

    {
        let (_dir, copy) = crash_image(&db, folder.path());
        let ca = copy.keyspace("a", KeyspaceCreateOptions::default)?;
        assert_eq!(None, ca.get("a1")?);
        assert_eq!(Some("v2".as_bytes().into()), ca.get("a2")?);
    }

    Ok(())
}

/// Clean reopen with a sealed journal, then flush
#[test]
fn t06_reopen_with_sealed_journal() -> fjall::Result<()> {
    let folder = tempfile::tempdir()?;
    let mut rng = Rng(0x1234_5678_9abc_def6);

    {
        let db = Database::builder(folder.path()).open()?;
        let a = db.keyspace("a", KeyspaceCreateOptions::default)?;
        let b = db.keyspace("b", big_opts)?;
        let c = db.keyspace("c", KeyspaceCreateOptions::default)?;

        a.insert("a1", "v1")?;
        c.insert("c1", "v1")?;
        fill(&b, &mut rng, 0)?;
        b.rotate_memtable_and_wait()?;
        assert_eq!(2, db.journal_count());
        a.insert("a2", "v2")?;
        c.insert("c2", "v2")?;
        c.rotate_memtable_and_wait()?;
        c.insert("c3", "v3")?;
        assert_eq!(2, db.journal_count());
    }

    {
        let db = Database::builder(folder.path()).open()?;
        let a = db.keyspace("a", KeyspaceCreateOptions::default)?;
        let b = db.keyspace("b", big_opts)?;
        let c = db.keyspace("c", KeyspaceCreateOptions::default)?;

        // recovered sealed memtable of a is flushed in background -> journal is evicted
        assert!(wait_for_journal_count(&db, 1), "{}", db.journal_count());
        eprintln!("files = {:?}", jnl_files(folder.path()));

        let (_dir, copy) = crash_image(&db, folder.path());
        let ca = copy.keyspace("a", KeyspaceCreateOptions::default)?;
        let cc = copy.keyspace("c", KeyspaceCreateOptions::default)?;
        let cb = copy.keyspace("b", big_opts)?;
        assert_eq!(Some("v1".as_bytes().into()), ca.get("a1")?);
        assert_eq!(Some("v2".as_bytes().into()), ca.get("a2")?);
        assert_eq!(Some("v1".as_bytes().into()), cc.get("c1")?);
        assert_eq!(Some("v2".as_bytes().into()), cc.get("c2")?);
        assert_eq!(Some("v3".as_bytes().into()), cc.get("c3")?);
        assert_eq!(66, cb.len()?);
        drop((a, b, c));
    }

    Ok(())
}

/// Tombstone is the newest item of lagging keyspace, then flush + major compaction
#[test]
fn t07_major_compaction_lowers_persisted_seqno() -> fjall::Result<()> {
    let folder = tempfile::tempdir()?;
    let mut rng = Rng(0x1234_5678_9abc_def7);

    let db = Database::builder(folder.path()).open()?;
    let a = db.keyspace("a", KeyspaceCreateOptions::default)?;
    let b = db.keyspace("b", big_opts)?;
    let c = db.keyspace("c", KeyspaceCreateOptions::default)?;

    a.insert("a1", "v1")?;
    a.remove("a1")?;
    c.insert("c1", "v1")?;
    fill(&b, &mut rng, 0)?;
    b.rotate_memtable_and_wait()?;
    assert_eq!(2, db.journal_count());

    // a is flushed, but c still lags, so the journal stays
    a.rotate_memtable_and_wait()?;
    assert_eq!(2, db.journal_count());
    a.major_compact()?;
    eprintln!("a tables after major compaction: {}", a.table_count());

    flush_all(&[&a, &b, &c])?;

    assert!(
        wait_for_journal_count(&db, 1),
        "all keyspaces are flushed, but there are {} journals: {:?}",
        db.journal_count(),
        jnl_files(folder.path()),
    );

    Ok(())
}

/// Weak tombstone + value are both dropped by the flush, so the table never reaches the watermark
#[test]
fn t04_weak_tombstone_flush_produces_nothing() -> fjall::Result<()> {
    let folder = tempfile::tempdir()?;
    let mut rng = Rng(0x1234_5678_9abc_def4);

    let db = Database::builder(folder.path()).open()?;
    let a = db.keyspace("a", KeyspaceCreateOptions::default)?;
    let b = db.keyspace("b", big_opts)?;

    {
        let mut batch = db.batch();
        batch.insert(&a, "a1", "v1");
        batch.commit()?;
        let mut batch = db.batch();
        batch.remove_weak(&a, "a1");
        batch.commit()?;
    }
    fill(&b, &mut rng, 0)?;
    b.rotate_memtable_and_wait()?;
    assert_eq!(2, db.journal_count());

    flush_all(&[&a, &b])?;
    eprintln!("a tables: {}", a.table_count());
    b.insert("x", "y")?;
    flush_all(&[&a, &b])?;

    assert!(
        wait_for_journal_count(&db, 1),
        "all keyspaces are flushed, but there are {} journals: {:?}",
        db.journal_count(),
        jnl_files(folder.path()),
    );

    Ok(())
}

fn check(db: &Database, src: &Path, expect: &[(&str, &str, Option<&str>)]) -> fjall::Result<()> {
    let (_dir, copy) = crash_image(db, src);
    for (ks, k, v) in expect {
        let h = copy.keyspace(ks, KeyspaceCreateOptions::default)?;
        assert_eq!(
            v.map(|v| v.as_bytes().into()),
            h.get(k)?,
            "keyspace {ks} key {k}, journals={:?}",
            jnl_files(src)
        );
    }
    Ok(())
}

/// Two sealed journals, three small keyspaces flushed in different orders, crash image after every step
#[test]
fn t08_two_rotations_flush_orders() -> fjall::Result<()> {
    for order in 0..3 {
        let folder = tempfile::tempdir()?;
        let mut rng = Rng(0x1234_5678_9abc_de08);

        let db = Database::builder(folder.path()).open()?;
        let a = db.keyspace("a", KeyspaceCreateOptions::default)?;
        let c = db.keyspace("c", KeyspaceCreateOptions::default)?;
        let d = db.keyspace("d", || {
            KeyspaceCreateOptions::default()
                .with_kv_separation(Some(fjall::KvSeparationOptions::default()))
        })?;
        let b = db.keyspace("b", big_opts)?;

        a.insert("k1", "a1")?;
        d.insert("k1", "d1".repeat(2_000))?;
        fill(&b, &mut rng, 0)?;
        b.rotate_memtable_and_wait()?;
        assert_eq!(2, db.journal_count());

        c.insert("k1", "c1")?;
        a.insert("k2", "a2")?;
        {
            let mut batch = db.batch();
            batch.insert(&a, "k3", "a3");
            batch.insert(&c, "k3", "c3");
            batch.insert(&d, "k3", "d3");
            batch.commit()?;
        }
        fill(&b, &mut rng, 1)?;
        b.rotate_memtable_and_wait()?;
        assert_eq!(3, db.journal_count());

        a.insert("k4", "a4")?;
        c.remove("k1")?;

        let d1 = "d1".repeat(2_000);
        let expect: Vec<(&str, &str, Option<&str>)> = vec![
            ("a", "k1", Some("a1")),
            ("a", "k2", Some("a2")),
            ("a", "k3", Some("a3")),
            ("a", "k4", Some("a4")),
            ("c", "k1", None),
            ("c", "k3", Some("c3")),
            ("d", "k1", Some(&d1)),
            ("d", "k3", Some("d3")),
        ];

        check(&db, folder.path(), &expect)?;

        let seq: [&Keyspace; 3] = match order {
            0 => [&a, &c, &d],
            1 => [&c, &d, &a],
            _ => [&d, &a, &c],
        };

        for ks in seq {
            ks.rotate_memtable_and_wait()?;
            std::thread::sleep(std::time::Duration::from_millis(100));
            eprintln!(
                "order {order}: flushed {:?}, journals={:?}",
                ks.name(),
                jnl_files(folder.path())
            );
            check(&db, folder.path(), &expect)?;
        }

        assert!(wait_for_journal_count(&db, 1), "{}", db.journal_count());
        check(&db, folder.path(), &expect)?;
    }

    Ok(())
}

/// Transactions over several keyspaces, one of them lagging
#[test]
fn t11_transactions() -> fjall::Result<()> {
    let folder = tempfile::tempdir()?;
    let mut rng = Rng(0x1234_5678_9abc_de11);

    let db = fjall::OptimisticTxDatabase::builder(folder.path()).open()?;
    let a = db.keyspace("a", KeyspaceCreateOptions::default)?;
    let c = db.keyspace("c", KeyspaceCreateOptions::default)?;
    let b = db.keyspace("b", big_opts)?;

    {
        let mut tx = db.write_tx()?;
        tx.insert(&a, "k1", "a1");
        tx.insert(&c, "k1", "c1");
        tx.commit()?.unwrap();
    }

    fill(b.inner(), &mut rng, 0)?;
    b.inner().rotate_memtable_and_wait()?;
    assert_eq!(2, db.inner().journal_count());

    {
        let mut tx = db.write_tx()?;
        tx.insert(&a, "k2", "a2");
        tx.remove(&c, "k1");
        tx.commit()?.unwrap();
    }

    c.inner().rotate_memtable_and_wait()?;
    std::thread::sleep(std::time::Duration::from_millis(100));

    let expect: Vec<(&str, &str, Option<&str>)> = vec![
        ("a", "k1", Some("a1")),
        ("a", "k2", Some("a2")),
        ("c", "k1", None),
    ];
    check(db.inner(), folder.path(), &expect)?;

    a.inner().rotate_memtable_and_wait()?;
    assert!(wait_for_journal_count(db.inner(), 1));
    check(db.inner(), folder.path(), &expect)?;

    Ok(())
}

/// The stuck journal survives restarts
#[test]
fn t12_clear_then_reopen() -> fjall::Result<()> {
    let folder = tempfile::tempdir()?;
    let mut rng = Rng(0x1234_5678_9abc_de12);

    {
        let db = Database::builder(folder.path()).open()?;
        let a = db.keyspace("a", KeyspaceCreateOptions::default)?;
        let b = db.keyspace("b", big_opts)?;

        a.insert("a1", "v1")?;
        fill(&b, &mut rng, 0)?;
        b.rotate_memtable_and_wait()?;
        assert_eq!(2, db.journal_count());

        a.clear()?;
        flush_all(&[&a, &b])?;
    }

    {
        let db = Database::builder(folder.path()).open()?;
        let a = db.keyspace("a", KeyspaceCreateOptions::default)?;
        let b = db.keyspace("b", big_opts)?;
        assert!(a.is_empty()?);
        assert_eq!(66, b.len()?);

        b.insert("x", "y")?;
        flush_all(&[&a, &b])?;

        assert!(
            wait_for_journal_count(&db, 1),
            "all keyspaces are flushed, but there are {} journals: {:?}",
            db.journal_count(),
            jnl_files(folder.path()),
        );
    }

    Ok(())
}

/// Several writer threads, automatic memtable rotation, clear + ingestion mixed in;
/// writers are paused now and then, background work drains, and a crash image is verified
#[test]
fn t10_stress_with_crash_images() -> fjall::Result<()> {
    use std::sync::atomic::{AtomicBool, AtomicU64, Ordering::SeqCst};
    use std::sync::{Arc, RwLock};

    let folder = tempfile::tempdir()?;

    let db = Database::builder(folder.path()).open()?;
    let small = || KeyspaceCreateOptions::default().max_memtable_size(300_000);
    let a = db.keyspace("a", small)?;
    let c = db.keyspace("c", KeyspaceCreateOptions::default)?; // lags (never rotates on its own)
    let e = db.keyspace("e", small)?; // gets cleared
    let b = db.keyspace("b", KeyspaceCreateOptions::default)?; // filler, rotates at 64 MiB

    let gate = Arc::new(RwLock::new(()));
    let stop = Arc::new(AtomicBool::new(false));

    let a_cnt = Arc::new(AtomicU64::new(0));
    let c_cnt = Arc::new(AtomicU64::new(0));
    let b_cnt = Arc::new(AtomicU64::new(0));
    let e_lo = Arc::new(AtomicU64::new(0));
    let e_hi = Arc::new(AtomicU64::new(0));

    let mut threads = vec![];

    for (ks, cnt, sleep_us) in [(a.clone(), a_cnt.clone(), 50), (c.clone(), c_cnt.clone(), 3_000)] {
        let gate = gate.clone();
        let stop = stop.clone();
        threads.push(std::thread::spawn(move || {
            let mut rng = Rng(0x9999_0000_1111 + sleep_us);
            while !stop.load(SeqCst) {
                let _g = gate.read().unwrap();
                let i = cnt.load(SeqCst);
                ks.insert(i.to_be_bytes(), rng.blob(200)).unwrap();
                cnt.store(i + 1, SeqCst);
                drop(_g);
                std::thread::sleep(std::time::Duration::from_micros(sleep_us));
            }
        }));
    }

    {
        let gate = gate.clone();
        let stop = stop.clone();
        let b = b.clone();
        let cnt = b_cnt.clone();
        threads.push(std::thread::spawn(move || {
            let mut rng = Rng(0x7777_0000_1111);
            while !stop.load(SeqCst) {
                let _g = gate.read().unwrap();
                let i = cnt.load(SeqCst);
                b.insert(i.to_be_bytes(), rng.blob(MIB / 2)).unwrap();
                cnt.store(i + 1, SeqCst);
                drop(_g);
                std::thread::sleep(std::time::Duration::from_millis(2));
            }
        }));
    }

    {
        let gate = gate.clone();
        let stop = stop.clone();
        let e = e.clone();
        let lo = e_lo.clone();
        let hi = e_hi.clone();
        threads.push(std::thread::spawn(move || {
            let mut rng = Rng(0x5555_0000_1111);
            while !stop.load(SeqCst) {
                let _g = gate.read().unwrap();
                let i = hi.load(SeqCst);
                if i % 4_000 == 3_999 {
                    e.clear().unwrap();
                    lo.store(i, SeqCst);
                } else if i % 4_000 == 1_999 {
                    // NOTE: keys are ascending
                    let mut ing = e.start_ingestion().unwrap();
                    ing.write(i.to_be_bytes(), rng.blob(200)).unwrap();
                    ing.finish().unwrap();
                    hi.store(i + 1, SeqCst);
                    continue;
                }
                e.insert(i.to_be_bytes(), rng.blob(200)).unwrap();
                hi.store(i + 1, SeqCst);
                drop(_g);
                std::thread::sleep(std::time::Duration::from_micros(100));
            }
        }));
    }

    let mut max_journals = 0;

    for round in 0..6 {
        std::thread::sleep(std::time::Duration::from_millis(2_500));

        let g = gate.write().unwrap();

        // drain background work
        let mut stable = 0;
        while stable < 20 {
            let busy = db.outstanding_flushes() > 0
                || db.active_compactions() > 0
                || [&a, &b, &c, &e].iter().any(|k| k.sealed_memtable_count() > 0);
            stable = if busy { 0 } else { stable + 1 };
            std::thread::sleep(std::time::Duration::from_millis(10));
        }

        max_journals = max_journals.max(db.journal_count());
        eprintln!(
            "round {round}: journals={:?} a={} c={} b={} e={}..{}",
            jnl_files(folder.path()),
            a_cnt.load(SeqCst),
            c_cnt.load(SeqCst),
            b_cnt.load(SeqCst),
            e_lo.load(SeqCst),
            e_hi.load(SeqCst),
        );

        {
            let (_dir, copy) = crash_image(&db, folder.path());
            let ca = copy.keyspace("a", small)?;
            let cc = copy.keyspace("c", KeyspaceCreateOptions::default)?;
            let cb = copy.keyspace("b", KeyspaceCreateOptions::default)?;
            let ce = copy.keyspace("e", small)?;
            assert_eq!(a_cnt.load(SeqCst) as usize, ca.len()?, "a");
            assert_eq!(c_cnt.load(SeqCst) as usize, cc.len()?, "c");
            assert_eq!(b_cnt.load(SeqCst) as usize, cb.len()?, "b");
            assert_eq!((e_hi.load(SeqCst) - e_lo.load(SeqCst)) as usize, ce.len()?, "e");
        }

        drop(g);
    }

    stop.store(true, SeqCst);
    for t in threads {
        t.join().unwrap();
    }

    eprintln!("max journals = {max_journals}");
    assert!(max_journals > 1, "test did not rotate the journal");

    Ok(())
}

/// Sanity variant of t03 that pins the cause: the journals are only released after the cleared
/// keyspace gets a new write *and* is flushed again, i.e. once its tables carry a seqno >= the stale watermark
#[test]
fn t03b_clear_then_write_and_flush_releases_journals() -> fjall::Result<()> {
    let folder = tempfile::tempdir()?;
    let mut rng = Rng(0x1234_5678_9abc_de3b);

    let db = Database::builder(folder.path()).open()?;
    let a = db.keyspace("a", KeyspaceCreateOptions::default)?;
    let b = db.keyspace("b", big_opts)?;

    a.insert("a1", "v1")?;
    fill(&b, &mut rng, 0)?;
    b.rotate_memtable_and_wait()?;
    assert_eq!(2, db.journal_count());

    a.clear()?;
    fill(&b, &mut rng, 1)?;
    flush_all(&[&a, &b])?;

    // everything is flushed, nothing in 0.jnl or 1.jnl is needed, but both are still there
    assert!(!wait_for_journal_count(&db, 1));
    assert_eq!(3, db.journal_count());

    a.insert("a2", "v2")?;
    flush_all(&[&a, &b])?;
    assert!(wait_for_journal_count(&db, 1));

    check(&db, folder.path(), &[("a", "a1", None), ("a", "a2", Some("v2"))])?;

    Ok(())
}

/// Sanity variant of t03: clear *before* the journal is sealed -> no watermark for `a`, journal is released
#[test]
fn t03c_clear_before_rotation_is_fine() -> fjall::Result<()> {
    let folder = tempfile::tempdir()?;
    let mut rng = Rng(0x1234_5678_9abc_de3c);

    let db = Database::builder(folder.path()).open()?;
    let a = db.keyspace("a", KeyspaceCreateOptions::default)?;
    let b = db.keyspace("b", big_opts)?;

    a.insert("a1", "v1")?;
    a.clear()?;
    fill(&b, &mut rng, 0)?;
    b.rotate_memtable_and_wait()?;
    flush_all(&[&a, &b])?;
    assert!(wait_for_journal_count(&db, 1));

    check(&db, folder.path(), &[("a", "a1", None)])?;

    Ok(())
}
