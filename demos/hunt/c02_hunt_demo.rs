// CARGO_TARGET_DIR=/tmp/hunt-C02/target cargo test --offline --test hunt_demo -- --test-threads=1
//
// Property C02: acknowledged writes survive a process crash, in commit order, and reopening succeeds.
//
// FAILING on the unchanged code (each one is a separate defect, most important first):
//   F1  kill_with_capacity_batch_survives / image_with_capacity_batch_survives
//       a batch built with the public `OwnedWriteBatch::with_capacity` is acknowledged by `commit()` but never
//       leaves the process (stays in the journal's BufWriter) -> lost when the process is killed
//   F2  kill_empty_key_insert_then_reopen / kill_empty_key_remove_then_reopen
//       `Keyspace::insert("", ..)` appends a *valid* journal record and then panics in the memtable insert
//       (crash between journal append and memtable apply) -> every later `Database::open` panics in replay
//   F3  crash_during_first_open_before_version_marker (+ strace variant, real SIGKILL)
//       process dies in `Database::create_new` after 0.jnl was created, before the version marker exists
//       -> every later open fails with AlreadyExists
//   F4  ingested_tombstone_major_compaction_reopen
//       insert a; bulk-ingest tombstone(a); major compaction drops both -> persisted seqno of the keyspace
//       falls back to None -> replay no longer skips the journal record -> `a` is back after reopen
//
// PASSING sanity variants / histories tried without finding anything are kept below (slow ones are #[ignore]).

use fjall::{Database, KeyspaceCreateOptions, OwnedWriteBatch};
use std::collections::BTreeMap;
use std::path::Path;

type Model = BTreeMap<Vec<u8>, Vec<u8>>;

/// Copies a directory recursively (a "crash image": everything that was handed to the OS with write(2)
/// survives the death of the process, so a copy of the directory taken while the database is open and idle
/// is what a SIGKILL at that instant leaves behind).
fn copy_dir(from: &Path, to: &Path) {
    std::fs::create_dir_all(to).unwrap();
    for dirent in std::fs::read_dir(from).unwrap() {
        let dirent = dirent.unwrap();
        let ty = dirent.file_type().unwrap();
        let dst = to.join(dirent.file_name());
        if ty.is_dir() {
            copy_dir(&dirent.path(), &dst);
        } else if dirent.file_name() != "lock" {
            std::fs::copy(dirent.path(), &dst).unwrap();
        } else {
            std::fs::File::create(&dst).unwrap();
        }
    }
}

fn open_image(from: &Path) -> (tempfile::TempDir, fjall::Result<Database>) {
    let image = tempfile::tempdir().unwrap();
    copy_dir(from, image.path());
    let db = Database::builder(&image).open();
    (image, db)
}

fn dump(ks: &fjall::Keyspace) -> Model {
    ks.iter()
        .map(|g| {
            let (k, v) = g.into_inner().unwrap();
            (k.to_vec(), v.to_vec())
        })
        .collect()
}

// =============================================================================================
// Real process kills: the test binary re-executes itself as a child that performs the workload,
// reports on stdout when the call has returned successfully, and is then SIGKILLed by the parent.
// =============================================================================================

/// Child entry point (does nothing unless started by `run_child`).
#[test]
fn zz_child() {
    use std::io::Write;

    let Ok(case) = std::env::var("HUNT_DEMO_CASE") else {
        return;
    };
    let dir = std::env::var("HUNT_DEMO_DIR").unwrap();

    let db = Database::builder(&dir).open().unwrap();

    if case == "open_only" {
        println!("ACKED");
        return;
    }

    let ks = db.keyspace("default", KeyspaceCreateOptions::default).unwrap();

    match case.as_str() {
        "db_batch" => {
            let mut batch = db.batch();
            batch.insert(&ks, "a", "1");
            batch.commit().unwrap();
        }
        "with_capacity_batch" => {
            let mut batch = OwnedWriteBatch::with_capacity(db.clone(), 10);
            batch.insert(&ks, "a", "1");
            batch.commit().unwrap();
            assert_eq!(Some("1".as_bytes().into()), ks.get("a").unwrap());
        }
        "empty_key_insert" | "empty_key_remove" => {
            ks.insert("a", "1").unwrap();
            println!("ACKED");
            std::io::stdout().flush().unwrap();
            // panics between the journal append and the memtable insert; the process dies
            if case == "empty_key_insert" {
                let _ = ks.insert("", "x");
            } else {
                let _ = ks.remove("");
            }
            std::process::abort();
        }
        _ => panic!("unknown case"),
    }

    println!("ACKED");
    std::io::stdout().flush().unwrap();

    // wait to be killed
    loop {
        std::thread::sleep(std::time::Duration::from_secs(1));
    }
}

/// Runs the child; kills it with SIGKILL as soon as it reported the acknowledgement
/// (`dies_on_its_own`: the child panics/aborts by itself after the acknowledgement).
fn run_child(case: &str, dir: &Path, dies_on_its_own: bool) {
    use std::io::{BufRead, BufReader};

    let exe = std::env::current_exe().unwrap();
    let mut child = std::process::Command::new(exe)
        .args(["zz_child", "--exact", "--nocapture", "--test-threads=1"])
        .env("HUNT_DEMO_CASE", case)
        .env("HUNT_DEMO_DIR", dir)
        .stdout(std::process::Stdio::piped())
        .stderr(std::process::Stdio::null())
        .spawn()
        .unwrap();

    let stdout = child.stdout.take().unwrap();
    let mut acked = false;
    for line in BufReader::new(stdout).lines() {
        let line = line.unwrap();
        if line.contains("ACKED") {
            acked = true;
            if !dies_on_its_own {
                break;
            }
        }
    }
    assert!(acked, "child did not get as far as the acknowledgement");

    if !dies_on_its_own {
        child.kill().unwrap(); // SIGKILL
    }
    child.wait().unwrap();
}

// =============================================================================================
// F1: OwnedWriteBatch::with_capacity
// =============================================================================================

/// passes: the documented way to make a batch
#[test]
fn kill_sanity_db_batch_survives() -> fjall::Result<()> {
    let folder = tempfile::tempdir()?;
    run_child("db_batch", folder.path(), false);

    let db = Database::builder(&folder).open()?;
    let ks = db.keyspace("default", KeyspaceCreateOptions::default)?;
    assert_eq!(Some("1".as_bytes().into()), ks.get("a")?);
    Ok(())
}

/// FAILS: a committed (acknowledged) batch is lost when the process is killed
#[test]
fn kill_with_capacity_batch_survives() -> fjall::Result<()> {
    let folder = tempfile::tempdir()?;
    run_child("with_capacity_batch", folder.path(), false);

    let db = Database::builder(&folder).open()?;
    let ks = db.keyspace("default", KeyspaceCreateOptions::default)?;
    assert_eq!(
        Some("1".as_bytes().into()),
        ks.get("a")?,
        "batch.commit() had returned Ok(()) before the process was killed"
    );
    Ok(())
}

/// passes
#[test]
fn image_sanity_db_batch_survives() -> fjall::Result<()> {
    let folder = tempfile::tempdir()?;
    let db = Database::builder(&folder).open()?;
    let ks = db.keyspace("default", KeyspaceCreateOptions::default)?;

    let mut batch = db.batch();
    batch.insert(&ks, "a", "1");
    batch.commit()?;

    let (_i, db2) = open_image(folder.path());
    let db2 = db2?;
    let ks2 = db2.keyspace("default", KeyspaceCreateOptions::default)?;
    assert_eq!(Some("1".as_bytes().into()), ks2.get("a")?);
    Ok(())
}

/// FAILS: same as kill_with_capacity_batch_survives, with a crash image instead of a real kill
#[test]
fn image_with_capacity_batch_survives() -> fjall::Result<()> {
    let folder = tempfile::tempdir()?;
    let db = Database::builder(&folder).open()?;
    let ks = db.keyspace("default", KeyspaceCreateOptions::default)?;

    let mut batch = OwnedWriteBatch::with_capacity(db.clone(), 10);
    batch.insert(&ks, "a", "1");
    batch.commit()?;
    assert_eq!(Some("1".as_bytes().into()), ks.get("a")?);

    let (_i, db2) = open_image(folder.path());
    let db2 = db2?;
    let ks2 = db2.keyspace("default", KeyspaceCreateOptions::default)?;
    assert_eq!(Some("1".as_bytes().into()), ks2.get("a")?);
    Ok(())
}

/// passes: a later flushed write drags the batch along (both sit in the same BufWriter),
/// which pins the cause to the missing `persist(Buffer)` and shows that order is kept
#[test]
fn image_with_capacity_batch_followed_by_insert() -> fjall::Result<()> {
    let folder = tempfile::tempdir()?;
    let db = Database::builder(&folder).open()?;
    let ks = db.keyspace("default", KeyspaceCreateOptions::default)?;

    let mut batch = OwnedWriteBatch::with_capacity(db.clone(), 10);
    batch.insert(&ks, "a", "1");
    batch.commit()?;
    ks.insert("b", "2")?;

    let (_i, db2) = open_image(folder.path());
    let db2 = db2?;
    let ks2 = db2.keyspace("default", KeyspaceCreateOptions::default)?;
    assert_eq!(Some("1".as_bytes().into()), ks2.get("a")?);
    assert_eq!(Some("2".as_bytes().into()), ks2.get("b")?);
    Ok(())
}

// =============================================================================================
// F2: journal record that can not be applied (empty key): crash between journal append and memtable insert
// =============================================================================================

fn reopen_and_get_a(path: &Path) {
    let path = path.to_path_buf();
    let r = std::thread::spawn(move || {
        let db = Database::builder(&path).open()?;
        let ks = db.keyspace("default", KeyspaceCreateOptions::default)?;
        ks.get("a")
    })
    .join();

    match r {
        Err(_) => panic!("Database::open panicked during recovery"),
        Ok(Err(e)) => panic!("reopen failed: {e:?}"),
        Ok(Ok(v)) => assert_eq!(Some("1".as_bytes().into()), v),
    }
}

/// FAILS: the database can never be opened again (open panics with "key may not be empty")
#[test]
fn kill_empty_key_insert_then_reopen() {
    let folder = tempfile::tempdir().unwrap();
    run_child("empty_key_insert", folder.path(), true);
    reopen_and_get_a(folder.path());
}

/// FAILS: same with remove
#[test]
fn kill_empty_key_remove_then_reopen() {
    let folder = tempfile::tempdir().unwrap();
    run_child("empty_key_remove", folder.path(), true);
    reopen_and_get_a(folder.path());
}

/// passes: batches validate their items before anything is appended to the journal
#[test]
fn sanity_empty_key_in_batch_is_refused_up_front() {
    let folder = tempfile::tempdir().unwrap();
    {
        let db = Database::builder(&folder).open().unwrap();
        let ks = db.keyspace("default", KeyspaceCreateOptions::default).unwrap();
        ks.insert("a", "1").unwrap();

        let (db2, ks2) = (db.clone(), ks.clone());
        let res = std::thread::spawn(move || {
            let mut batch = db2.batch();
            batch.insert(&ks2, "", "x");
            batch.commit()
        })
        .join();
        assert!(res.is_err(), "panics");
    }
    reopen_and_get_a(folder.path());
}

// =============================================================================================
// F3: crash in the middle of the very first open (Database::create_new)
// =============================================================================================

/// FAILS: Io(AlreadyExists) forever
#[test]
fn crash_during_first_open_before_version_marker() {
    let folder = tempfile::tempdir().unwrap();

    {
        let _db = Database::builder(&folder).open().unwrap();
    }

    // State of the directory if the process died in Database::create_new right before
    // the version marker was created: lock file, keyspaces folder and 0.jnl exist already
    // (the meta keyspace keyspaces/0 is only created after the marker)
    let image = tempfile::tempdir().unwrap();
    copy_dir(folder.path(), image.path());
    std::fs::remove_file(image.path().join("version")).unwrap();
    std::fs::remove_dir_all(image.path().join("keyspaces").join("0")).unwrap();

    let res = Database::builder(&image).open();
    assert!(res.is_ok(), "reopen after crash failed: {:?}", res.err());
}

/// FAILS (needs strace): the same with a real SIGKILL delivered on entering the 2nd fsync of the process
/// (1st fsync = 0.jnl itself, 2nd = the database folder after 0.jnl was created)
#[test]
fn strace_kill_during_first_open() {
    let folder = tempfile::tempdir().unwrap();
    let dir = folder.path().join("db");

    let exe = std::env::current_exe().unwrap();
    let status = std::process::Command::new("strace")
        .args(["-f", "-o", "/dev/null", "-e", "trace=fsync", "-e"])
        .arg("inject=fsync:signal=SIGKILL:when=2")
        .arg(&exe)
        .args(["zz_child", "--exact", "--nocapture", "--test-threads=1"])
        .env("HUNT_DEMO_CASE", "open_only")
        .env("HUNT_DEMO_DIR", &dir)
        .stdout(std::process::Stdio::null())
        .stderr(std::process::Stdio::null())
        .status();

    let Ok(status) = status else {
        eprintln!("strace not available, skipping");
        return;
    };
    assert!(!status.success(), "child should have been killed");
    assert!(dir.join("0.jnl").exists());
    assert!(!dir.join("version").exists());

    let res = Database::builder(&dir).open();
    assert!(res.is_ok(), "reopen after crash failed: {:?}", res.err());
}

// =============================================================================================
// F4: ingested tombstone + major compaction lowers the persisted seqno
// =============================================================================================

fn ingest_then_compact(compact: bool) -> fjall::Result<()> {
    let folder = tempfile::tempdir()?;
    let db = Database::builder(&folder).open()?;
    let ks = db.keyspace("default", KeyspaceCreateOptions::default)?;
    ks.insert("a", "1")?;

    let mut ing = ks.start_ingestion()?;
    ing.write_tombstone("a")?;
    ing.finish()?;
    assert_eq!(None, ks.get("a")?);

    // lets the GC watermark move on
    let other = db.keyspace("other", KeyspaceCreateOptions::default)?;
    for i in 0..10u8 {
        other.insert([i], "x")?;
    }

    if compact {
        ks.major_compact()?;
        assert_eq!(0, ks.table_count(), "tombstone and value are both gone");
    }
    assert_eq!(None, ks.get("a")?);

    // crash image
    {
        let (_i, db2) = open_image(folder.path());
        let db2 = db2?;
        let ks2 = db2.keyspace("default", KeyspaceCreateOptions::default)?;
        assert_eq!(None, ks2.get("a")?, "deleted key is back after a crash");
    }

    // clean reopen
    drop(ks);
    drop(other);
    drop(db);
    let db = Database::builder(&folder).open()?;
    let ks = db.keyspace("default", KeyspaceCreateOptions::default)?;
    assert_eq!(None, ks.get("a")?, "deleted key is back after a clean reopen");
    Ok(())
}

/// passes
#[test]
fn ingested_tombstone_without_compaction_reopen() -> fjall::Result<()> {
    ingest_then_compact(false)
}

/// FAILS: "a" is resurrected
#[test]
fn ingested_tombstone_major_compaction_reopen() -> fjall::Result<()> {
    ingest_then_compact(true)
}

// =============================================================================================
// Histories tried without finding a violation
// =============================================================================================

/// passes: remove_weak journals a weak tombstone but applies a strong one at runtime; no visible difference here
#[test]
fn remove_weak_crash() -> fjall::Result<()> {
    let folder = tempfile::tempdir()?;
    let db = Database::builder(&folder).open()?;
    let ks = db.keyspace("default", KeyspaceCreateOptions::default)?;
    ks.insert("a", "1")?;
    ks.rotate_memtable_and_wait()?;
    ks.remove_weak("a")?;
    assert_eq!(None, ks.get("a")?);

    let (_i, db2) = open_image(folder.path());
    let db2 = db2?;
    let ks2 = db2.keyspace("default", KeyspaceCreateOptions::default)?;
    assert_eq!(None, ks2.get("a")?);
    ks2.rotate_memtable_and_wait()?;
    ks2.major_compact()?;
    assert_eq!(None, ks2.get("a")?);
    Ok(())
}

fn big_value(i: u64) -> Vec<u8> {
    static BASE: std::sync::OnceLock<Vec<u8>> = std::sync::OnceLock::new();
    let base = BASE.get_or_init(|| {
        let mut v = vec![0u8; 1_000_000];
        let mut x = 0x9E37_79B9_7F4A_7C15_u64;
        for b in &mut v {
            x ^= x << 13;
            x ^= x >> 7;
            x ^= x << 17;
            *b = x as u8;
        }
        v
    });
    let mut v = base.clone();
    v[..8].copy_from_slice(&i.to_be_bytes());
    v
}

fn check_image(folder: &Path, models: &[(&str, &Model)], step: &str) {
    let (_i, db) = open_image(folder);
    let db = db.unwrap_or_else(|e| panic!("{step}: reopen failed: {e:?}"));
    for (name, model) in models {
        assert!(db.keyspace_exists(name), "{step}: keyspace {name} missing");
        let ks = db.keyspace(name, KeyspaceCreateOptions::default).unwrap();
        let got = dump(&ks);
        let got_keys: Vec<_> = got.keys().cloned().collect();
        let want_keys: Vec<_> = model.keys().cloned().collect();
        assert_eq!(want_keys, got_keys, "{step}: keys of {name} differ");
        assert!(**model == got, "{step}: values of {name} differ");
    }
    // and once more after the recovered database did its background work
    for (name, _) in models {
        let ks = db.keyspace(name, KeyspaceCreateOptions::default).unwrap();
        ks.rotate_memtable_and_wait().unwrap();
    }
    drop(db);
}

/// passes (slow): journal rotation, a small keyspace keeping the sealed journal alive, clear, second rotation,
/// eviction; crash image checked against the model after every step
#[test]
#[ignore]
fn journal_rotation_history() -> fjall::Result<()> {
    let folder = tempfile::tempdir()?;
    let db = Database::builder(&folder).open()?;
    let a = db.keyspace("a", KeyspaceCreateOptions::default)?;
    let b = db.keyspace("b", KeyspaceCreateOptions::default)?;
    let mut ma = Model::new();
    let mut mb = Model::new();

    a.insert("a1", "v1")?;
    ma.insert(b"a1".to_vec(), b"v1".to_vec());
    a.insert("a0", "v0")?;
    ma.insert(b"a0".to_vec(), b"v0".to_vec());

    for i in 0..66u64 {
        let v = big_value(i);
        b.insert(i.to_be_bytes(), v.clone())?;
        mb.insert(i.to_be_bytes().to_vec(), v);
    }
    check_image(folder.path(), &[("a", &ma), ("b", &mb)], "step0");
    b.rotate_memtable_and_wait()?;
    assert_eq!(2, db.journal_count());
    check_image(folder.path(), &[("a", &ma), ("b", &mb)], "step1");

    a.insert("a2", "v2")?;
    ma.insert(b"a2".to_vec(), b"v2".to_vec());
    a.remove("a1")?;
    ma.remove(b"a1".as_slice());
    check_image(folder.path(), &[("a", &ma), ("b", &mb)], "step2");

    a.clear()?;
    ma.clear();
    check_image(folder.path(), &[("a", &ma), ("b", &mb)], "step3a");
    a.insert("a3", "v3")?;
    ma.insert(b"a3".to_vec(), b"v3".to_vec());
    check_image(folder.path(), &[("a", &ma), ("b", &mb)], "step3b");

    for i in 100..166u64 {
        let v = big_value(i);
        b.insert(i.to_be_bytes(), v.clone())?;
        mb.insert(i.to_be_bytes().to_vec(), v);
    }
    b.rotate_memtable_and_wait()?;
    check_image(folder.path(), &[("a", &ma), ("b", &mb)], "step4");

    a.rotate_memtable_and_wait()?;
    check_image(folder.path(), &[("a", &ma), ("b", &mb)], "step5");

    a.insert("a4", "v4")?;
    ma.insert(b"a4".to_vec(), b"v4".to_vec());
    check_image(folder.path(), &[("a", &ma), ("b", &mb)], "step6");

    Ok(())
}

fn data_len(journal: &Path) -> usize {
    let bytes = std::fs::read(journal).unwrap();
    bytes.iter().rposition(|b| *b != 0).map_or(0, |x| x + 1)
}

/// Torn journal append: the last record is cut at every byte offset (rest zero padding as in the
/// preallocated journal, or - `truncate` - end of file), then: reopen must succeed, the state must be the one
/// before or after the operation, a write after that recovery must survive a second crash.
fn torn_append_check(
    op: impl Fn(&Database, &fjall::Keyspace, &fjall::Keyspace),
    step_by: usize,
    truncate: bool,
) {
    let folder = tempfile::tempdir().unwrap();
    let db = Database::builder(&folder).open().unwrap();
    let a = db.keyspace("a", KeyspaceCreateOptions::default).unwrap();
    let b = db.keyspace("b", KeyspaceCreateOptions::default).unwrap();
    a.insert("k1", "v1").unwrap();
    b.insert("k1", "w1").unwrap();
    a.insert("k2", "v2").unwrap();

    let before_a = dump(&a);
    let before_b = dump(&b);
    let jnl = folder.path().join("0.jnl");
    let len_before = data_len(&jnl);
    op(&db, &a, &b);
    let len_after = data_len(&jnl);
    let after_a = dump(&a);
    let after_b = dump(&b);
    assert!(len_after > len_before);

    let image0 = tempfile::tempdir().unwrap();
    copy_dir(folder.path(), image0.path());
    let full = std::fs::read(image0.path().join("0.jnl")).unwrap();

    let mut cut = len_before;
    loop {
        let image = tempfile::tempdir().unwrap();
        copy_dir(image0.path(), image.path());
        let mut torn = full.clone();
        for b in &mut torn[cut..len_after] {
            *b = 0;
        }
        if truncate {
            torn.truncate(cut);
        }
        std::fs::write(image.path().join("0.jnl"), &torn).unwrap();

        let path = image.path().to_path_buf();
        let r = std::thread::spawn(move || Database::builder(&path).open()).join();
        let db2 = match r {
            Ok(Ok(db)) => db,
            Ok(Err(e)) => panic!("cut={cut} ({len_before}..{len_after}): reopen failed: {e:?}"),
            Err(_) => panic!("cut={cut}: reopen panicked"),
        };
        let a2 = db2.keyspace("a", KeyspaceCreateOptions::default).unwrap();
        let b2 = db2.keyspace("b", KeyspaceCreateOptions::default).unwrap();
        let (ga, gb) = (dump(&a2), dump(&b2));
        let is_before = ga == before_a && gb == before_b;
        let is_after = ga == after_a && gb == after_b;
        if cut == len_after {
            assert!(is_after, "cut={cut}: complete record not recovered");
        } else {
            assert!(
                is_before || is_after,
                "cut={cut} of {len_before}..{len_after}: state is neither before nor after",
            );
        }

        a2.insert("later", "x").unwrap();
        let (_i3, db3) = open_image(image.path());
        drop(a2);
        drop(b2);
        drop(db2);
        let db3 = db3.unwrap_or_else(|e| panic!("cut={cut}: second reopen failed: {e:?}"));
        let a3 = db3.keyspace("a", KeyspaceCreateOptions::default).unwrap();
        assert_eq!(
            Some("x".as_bytes().into()),
            a3.get("later").unwrap(),
            "cut={cut}: write after torn-tail recovery lost"
        );

        if cut == len_after {
            break;
        }
        cut = (cut + step_by).min(len_after);
    }
}

/// all pass (slow, every run copies a 64 MiB journal)
#[test]
#[ignore]
fn torn_single_insert() {
    torn_append_check(|_, a, _| a.insert("k3", "v3").unwrap(), 1, false);
}

#[test]
#[ignore]
fn torn_remove() {
    torn_append_check(|_, a, _| a.remove("k1").unwrap(), 1, false);
}

#[test]
#[ignore]
fn torn_clear() {
    torn_append_check(|_, a, _| a.clear().unwrap(), 1, false);
    torn_append_check(|_, a, _| a.clear().unwrap(), 1, true);
}

#[test]
#[ignore]
fn torn_batch() {
    let op = |db: &Database, a: &fjall::Keyspace, b: &fjall::Keyspace| {
        let mut batch = db.batch();
        batch.insert(a, "k3", "v3");
        batch.remove(b, "k1");
        batch.insert(b, "k9", "abcdefgh".repeat(1000)); // lz4 compressed in the journal
        batch.insert(a, "k1", "v1-new");
        batch.commit().unwrap();
    };
    torn_append_check(op, 1, false);
    torn_append_check(op, 1, true);
}

#[test]
#[ignore]
fn torn_large_values() {
    torn_append_check(
        |_, a, _| a.insert("k3", "abcdefgh".repeat(2000)).unwrap(),
        1,
        false,
    );
    torn_append_check(
        |_, a, _| a.insert("k3", &big_value(7)[..20_000]).unwrap(),
        97,
        false,
    );
}
