// CARGO_TARGET_DIR=/tmp/hunt-C12/target cargo test --offline --test hunt_demo -- --test-threads=1 --nocapture
//
// Property C12, clause "its files disappear once the last handle is dropped".
//
// FAILING on the unchanged code:
//   folder_of_deleted_keyspace_lingers_behind_sealed_journal
//   tx_keyspace_direct_insert_into_deleted_keyspace_is_not_refused   (secondary, see comment there)
// PASSING sanity variants that pin the cause:
//   sanity_folder_disappears_without_sealed_journal
//   sanity_folder_disappears_after_next_journal_maintenance

use fjall::{Database, KeyspaceCreateOptions, Readable, SingleWriterTxDatabase};
use std::path::Path;

fn noise() -> Vec<u8> {
    // incompressible 1 MiB
    let mut v = vec![0u8; 1024 * 1024];
    let mut x: u64 = 0x9E37_79B9_7F4A_7C15;
    for b in &mut v {
        x ^= x << 13;
        x ^= x >> 7;
        x ^= x << 17;
        *b = x as u8;
    }
    v
}

/// Fills the active journal with > 64 MB through keyspace `big` and flushes `big`,
/// which makes the flush worker rotate (seal) the journal.
fn force_journal_rotation(db: &Database, big: &fjall::Keyspace) -> fjall::Result<()> {
    let block = noise();
    for i in 0..66u64 {
        let mut v = block.clone();
        v[..8].copy_from_slice(&i.to_be_bytes());
        big.insert(format!("k{i}"), v)?;
    }
    big.rotate_memtable_and_wait()?;
    assert!(db.journal_count() >= 2, "journal should have been rotated");
    Ok(())
}

fn keyspace_dirs(root: &Path) -> Vec<String> {
    let mut v: Vec<String> = std::fs::read_dir(root.join("keyspaces"))
        .unwrap()
        .map(|e| e.unwrap().file_name().to_str().unwrap().to_string())
        .collect();
    v.sort();
    v
}

/// History:
///  1. create "a" and "big", insert one item into "a" (stays in a's memtable)
///  2. write 66 MB into "big" and flush it -> the worker seals the journal; the sealed journal's
///     eviction watermarks hold a clone of the handle of every keyspace with memtable data, i.e. of "a"
///  3. delete_keyspace(a) - consumes the only user handle; no other user handle exists
///  4. wait; write (without flushing) to another keyspace; wait again
///  => the folder of "a" is still on disk: the journal manager still owns a handle of it, and only
///     JournalManager::maintenance (run on the next memtable rotation / flush of SOME keyspace) lets go of it.
#[test]
fn folder_of_deleted_keyspace_lingers_behind_sealed_journal() -> fjall::Result<()> {
    let folder = tempfile::tempdir()?;
    let db = Database::builder(&folder).open()?;

    let a = db.keyspace("a", KeyspaceCreateOptions::default)?;
    let big = db.keyspace("big", KeyspaceCreateOptions::default)?;
    a.insert("a1", "a")?;
    let a_id = a.id();
    let a_path = a.path().to_path_buf();

    force_journal_rotation(&db, &big)?;

    db.delete_keyspace(a)?; // last (and only) user handle is consumed here
    assert!(!db.keyspace_exists("a"));

    // give background workers all the time they want
    std::thread::sleep(std::time::Duration::from_millis(500));

    // the database is in use, but nothing gets flushed
    big.insert("more", "data")?;
    let other = db.keyspace("other", KeyspaceCreateOptions::default)?;
    other.insert("x", "y")?;
    std::thread::sleep(std::time::Duration::from_millis(500));

    eprintln!(
        "keyspace dirs: {:?} (deleted id = {a_id}), journals = {}",
        keyspace_dirs(folder.path()),
        db.journal_count()
    );

    assert!(
        !a_path.try_exists()?,
        "C12 violated: folder {} of the deleted keyspace still exists although no handle is left",
        a_path.display(),
    );

    Ok(())
}

/// Same history without step 2: the folder disappears at once.
#[test]
fn sanity_folder_disappears_without_sealed_journal() -> fjall::Result<()> {
    let folder = tempfile::tempdir()?;
    let db = Database::builder(&folder).open()?;

    let a = db.keyspace("a", KeyspaceCreateOptions::default)?;
    let big = db.keyspace("big", KeyspaceCreateOptions::default)?;
    a.insert("a1", "a")?;
    big.insert("b", "b")?;
    big.rotate_memtable_and_wait()?;
    assert_eq!(1, db.journal_count());
    let a_path = a.path().to_path_buf();

    db.delete_keyspace(a)?;

    assert!(!a_path.try_exists()?);
    Ok(())
}

/// Same history as the failing test, but then ANOTHER keyspace is flushed: the journal maintenance that follows
/// drops the watermark of the deleted keyspace and only then the folder goes away.
#[test]
fn sanity_folder_disappears_after_next_journal_maintenance() -> fjall::Result<()> {
    let folder = tempfile::tempdir()?;
    let db = Database::builder(&folder).open()?;

    let a = db.keyspace("a", KeyspaceCreateOptions::default)?;
    let big = db.keyspace("big", KeyspaceCreateOptions::default)?;
    a.insert("a1", "a")?;
    let a_path = a.path().to_path_buf();

    force_journal_rotation(&db, &big)?;

    db.delete_keyspace(a)?;
    std::thread::sleep(std::time::Duration::from_millis(200));
    let lingered = a_path.try_exists()?;

    big.insert("more", "data")?;
    big.rotate_memtable_and_wait()?;
    std::thread::sleep(std::time::Duration::from_millis(200));

    eprintln!("lingered before the unrelated flush: {lingered}");
    assert!(!a_path.try_exists()?, "gone after the next journal maintenance");
    Ok(())
}

/// Secondary observation (same root as the already known "WriteBatch::commit is not refused", listed here
/// because for a transactional database THIS is the direct insert/remove of the handle):
/// SingleWriterTxKeyspace::insert / remove through the handle of a deleted keyspace return Ok.
#[test]
fn tx_keyspace_direct_insert_into_deleted_keyspace_is_not_refused() -> fjall::Result<()> {
    let folder = tempfile::tempdir()?;
    let db = SingleWriterTxDatabase::builder(&folder).open()?;

    let ks = db.keyspace("a", KeyspaceCreateOptions::default)?;
    ks.insert("k", "v")?;
    let old = ks.clone();

    db.inner().delete_keyspace(ks.inner().clone())?;
    drop(ks);
    assert!(!db.keyspace_exists("a"));

    // the plain handle refuses
    assert!(matches!(
        old.inner().insert("k2", "v2"),
        Err(fjall::Error::KeyspaceDeleted)
    ));

    // the transactional handle does not
    let r_insert = old.insert("k2", "v2");
    let r_remove = old.remove("k");
    eprintln!("tx insert: {r_insert:?}, tx remove: {r_remove:?}");
    eprintln!("old handle now reads k2 = {:?}", db.read_tx().get(&old, "k2")?);

    assert!(r_insert.is_err(), "C12 violated: direct insert through the old (tx) handle was accepted");
    assert!(r_remove.is_err(), "C12 violated: direct remove through the old (tx) handle was accepted");
    Ok(())
}
