// CARGO_TARGET_DIR=/tmp/hunt-C03/target cargo test --offline --test hunt_demo eio_ -- --nocapture --test-threads=1
//
// (needs /usr/bin/strace; the test binary re-invokes itself under strace as the "crashed and restarted" process)
//
// A transient read error (EIO) while the journal is read back during Database::open.
// At almost every position it makes the open fail and leaves the journal alone (fine: try again later) -
// that is what JournalReader::next intends: only UnexpectedEof counts as "the journal ends here".
// But the one byte of an item header that is decoded through lsm-tree (`CompressionType::decode_from`
// in src/journal/entry.rs) reports the error as `Error::Storage(lsm_tree::Error::Io)`, not `Error::Io`.
// JournalReader::next takes that for a torn tail and TRUNCATES the journal at the last valid position,
// JournalBatchReader::on_close then cuts back to the last complete batch, and the open succeeds.
// Every complete, acknowledged batch behind that point is gone for good; and where one keyspace of such
// a batch had already been flushed, the batch is now there HALF (all-or-nothing is broken).
//
// FAILS on the unchanged code:
//   eio_on_compression_byte_tears_batches_apart   (aaa has its half of 50 batches, bbb has nothing)
//   eio_on_compression_byte_truncates_journal     (50 complete batches silently cut off, open "ok")
// PASSES (pins the cause to that one byte):
//   eio_sanity_first_block, eio_sanity_second_block_neighbour_bytes
use fjall::{Database, KeyspaceCreateOptions};
use std::path::Path;

const BEFORE: usize = 101;
const AFTER: usize = 50;

fn build(dir: &Path, shift: usize, flush_a: bool) -> std::path::PathBuf {
    let db = Database::builder(dir).open().unwrap();
    let a = db.keyspace("aaa", KeyspaceCreateOptions::default).unwrap();
    let b = db.keyspace("bbb", KeyspaceCreateOptions::default).unwrap();
    // record = Start(13) + Item(21 + key 5 + value) + End(13)
    for i in 0..100 {
        a.insert(format!("k{i:04}"), vec![b'v'; 29]).unwrap(); // 81 bytes each
    }
    // 77 bytes => 8177 so far (with shift == 1)
    a.insert(format!("k{:04}", 100), vec![b'v'; 24 + shift]).unwrap();
    // the batches that must survive: two keyspaces each
    for i in 0..AFTER {
        let mut batch = db.batch();
        batch.insert(&a, format!("x{i:04}"), "after");
        batch.insert(&b, format!("x{i:04}"), "after");
        batch.commit().unwrap();
    }
    if flush_a {
        // keyspace aaa gets its half of every batch into a table; bbb's half lives in the journal only
        a.rotate_memtable_and_wait().unwrap();
    }
    let journal = dir.join("0.jnl");
    let bytes = std::fs::read(&journal).unwrap();
    assert_eq!(bytes[8176 + shift], 1, "a Start marker begins here");
    assert_eq!(bytes[8189 + shift], 2, "its first item begins here");
    // shift == 1: the compression byte (None = 0) is the first byte of the second 8 KiB block
    journal
}

fn count(dir: &Path) -> (usize, usize, usize) {
    let db = Database::builder(dir).open().unwrap();
    let a = db.keyspace("aaa", KeyspaceCreateOptions::default).unwrap();
    let b = db.keyspace("bbb", KeyspaceCreateOptions::default).unwrap();
    (
        a.prefix("k").count(),
        a.prefix("x").count(),
        b.prefix("x").count(),
    )
}

#[test]
fn child_open_only() {
    let Ok(dir) = std::env::var("HUNT_EIO_DIR") else {
        return;
    };
    match Database::builder(&dir).open() {
        Ok(db) => {
            let a = db.keyspace("aaa", KeyspaceCreateOptions::default).unwrap();
            eprintln!("child: open ok, aaa has {} x-keys", a.prefix("x").count());
        }
        Err(e) => eprintln!("child: open failed: {e:?}"),
    }
}

fn run_with_eio(dir: &Path, journal: &Path, nth_read: usize) -> String {
    let exe = std::env::current_exe().unwrap();
    let out = std::process::Command::new("strace")
        .args(["-f", "-o", "/dev/null", "-e", "trace=read"])
        .arg("-e")
        .arg(format!("inject=read:error=EIO:when={nth_read}"))
        .arg("-P")
        .arg(journal)
        .arg(&exe)
        .args(["--exact", "child_open_only", "--nocapture", "--test-threads=1"])
        .env("HUNT_EIO_DIR", dir)
        .output()
        .unwrap();
    let stderr = String::from_utf8_lossy(&out.stderr).to_string();
    stderr
        .lines()
        .find(|l| l.starts_with("child:"))
        .unwrap_or("child: ???")
        .to_string()
}

/// sanity: an EIO on the FIRST block read makes the open fail and destroys nothing
#[test]
fn eio_sanity_first_block() {
    if std::env::var("HUNT_EIO_DIR").is_ok() {
        return;
    }
    let scratch = tempfile::tempdir_in("/tmp/hunt-C03/target").unwrap();
    let dir = scratch.path().join("db");
    let journal = build(&dir, 1, false);
    assert_eq!(count(&dir), (BEFORE, AFTER, AFTER));
    let line = run_with_eio(&dir, &journal, 1);
    eprintln!("{line}");
    assert!(line.contains("open failed"), "{line}");
    assert_eq!(count(&dir), (BEFORE, AFTER, AFTER), "nothing may be lost");
}

/// the second block read is triggered by the compression byte at offset 8192
#[test]
fn eio_on_compression_byte_truncates_journal() {
    if std::env::var("HUNT_EIO_DIR").is_ok() {
        return;
    }
    let scratch = tempfile::tempdir_in("/tmp/hunt-C03/target").unwrap();
    let dir = scratch.path().join("db");
    let journal = build(&dir, 1, false);
    assert_eq!(count(&dir), (BEFORE, AFTER, AFTER));
    let len_before = {
        let b = std::fs::read(&journal).unwrap();
        b.iter().rposition(|x| *x != 0).unwrap() + 1
    };
    let line = run_with_eio(&dir, &journal, 2);
    eprintln!("{line}");
    let len_after = std::fs::metadata(&journal).unwrap().len();
    eprintln!("journal data: {len_before} bytes before, file length {len_after} after the failed read");
    // one transient read error later, with the disk healthy again:
    assert_eq!(
        count(&dir),
        (BEFORE, AFTER, AFTER),
        "{AFTER} complete, acknowledged batches were cut off the journal by a transient read error ({line})"
    );
}

/// sanity: same read fails, but the block boundary falls on a neighbouring byte of the item header
/// (value type / keyspace id, read through std::io): the open fails and nothing is lost
#[test]
fn eio_sanity_second_block_neighbour_bytes() {
    if std::env::var("HUNT_EIO_DIR").is_ok() {
        return;
    }
    for shift in [0usize, 2] {
        let scratch = tempfile::tempdir_in("/tmp/hunt-C03/target").unwrap();
        let dir = scratch.path().join("db");
        let journal = build(&dir, shift, false);
        assert_eq!(count(&dir), (BEFORE, AFTER, AFTER));
        let line = run_with_eio(&dir, &journal, 2);
        eprintln!("shift {shift}: {line}");
        assert!(line.contains("open failed"), "{line}");
        assert_eq!(count(&dir), (BEFORE, AFTER, AFTER), "nothing may be lost");
    }
}

/// Same fault, but keyspace aaa was flushed before the crash/reopen: its half of each of the 50 batches
/// is in a table, the other half (bbb) only in the journal - which the "repair" cuts off.
/// After that, every one of the 50 batches is there HALF.
#[test]
fn eio_on_compression_byte_tears_batches_apart() {
    if std::env::var("HUNT_EIO_DIR").is_ok() {
        return;
    }
    let scratch = tempfile::tempdir_in("/tmp/hunt-C03/target").unwrap();
    let dir = scratch.path().join("db");
    let journal = build(&dir, 1, true);
    assert_eq!(count(&dir), (BEFORE, AFTER, AFTER));
    let line = run_with_eio(&dir, &journal, 2);
    eprintln!("{line}");
    eprintln!(
        "journal file length after the failed read: {}",
        std::fs::metadata(&journal).unwrap().len()
    );
    let (k, xa, xb) = count(&dir);
    eprintln!("aaa: {k} k-keys, {xa} x-keys; bbb: {xb} x-keys");
    assert_eq!(
        xa, xb,
        "batches wrote x-keys to aaa and bbb together, but aaa has {xa} and bbb has {xb} of them ({line})"
    );
}
