// CARGO_TARGET_DIR=/tmp/hunt-C14/target cargo test --offline --release --test hunt_demo -- --test-threads=1 --nocapture
//
// Property C14, last clause: "the write stall mechanisms always let writers proceed eventually".
//
// Root cause shown here: Keyspace::check_write_halt (src/keyspace/mod.rs) loops `while l0_run_count() >= 30`
// and can only be released by a compaction of that keyspace's L0. Nothing guarantees that such a compaction
// can ever happen:
//
//  (A) after Database::delete_keyspace the compaction worker declines every compaction of that keyspace
//      (src/compaction/worker.rs: `if keyspace.is_deleted { return Ok(()) }`), while rotation + flush of its
//      memtables go on, and WriteBatch::commit / transaction commits (unlike Keyspace::insert) neither refuse a
//      deleted keyspace nor skip its back pressure. Its L0 therefore grows one run per flush, without bound,
//      and the 30th run halts the committing thread forever - although delete_keyspace is documented as
//      "safe, even if the keyspace is still accessed in another thread".
//      In a SingleWriterTxDatabase the halted commit holds the single-writer lock: every writer of every
//      keyspace is blocked forever.
//
//  (B) the strategy itself may not want to compact L0 yet: Leveled::with_l0_threshold(n) with n > 30 only
//      compacts L0 at n tables, the halt is hard-wired at 30 runs.
//
// Tests named `sanity_*` pass on the unchanged code, the others fail (a writer never returns).

use fjall::{AbstractTree, Database, KeyspaceCreateOptions, SingleWriterTxDatabase};
use std::sync::atomic::{AtomicBool, AtomicU64, Ordering};
use std::sync::Arc;
use std::time::{Duration, Instant};

const STUCK_AFTER: Duration = Duration::from_secs(20);

fn tiny() -> KeyspaceCreateOptions {
    KeyspaceCreateOptions::default().max_memtable_size(1_000)
}

/// Waits until `counter` reaches `goal`; returns false if it stops moving for STUCK_AFTER.
fn watch(counter: &AtomicU64, goal: u64) -> bool {
    let mut last = 0;
    let mut last_change = Instant::now();
    loop {
        std::thread::sleep(Duration::from_millis(20));
        let now = counter.load(Ordering::Relaxed);
        if now >= goal {
            return true;
        }
        if now != last {
            last = now;
            last_change = Instant::now();
        } else if last_change.elapsed() > STUCK_AFTER {
            return false;
        }
    }
}

// ---------------------------------------------------------------------------------------------------------
// (A) plain Database: thread A commits batches over two keyspaces, thread B deletes one of them meanwhile
// ---------------------------------------------------------------------------------------------------------

// NOTE: Kept small on purpose: every commit posts rotation requests, and the (known) worker deadlock on a full
// worker queue (1000 messages) is not what is shown here
const BATCHES: u64 = 400;

fn batches_with_optional_concurrent_delete(delete_after: Option<u64>) {
    let folder = tempfile::tempdir().unwrap();
    let db = Database::builder(&folder).worker_threads(2).open().unwrap();
    let victim = db.keyspace("victim", tiny).unwrap();
    let other = db.keyspace("other", tiny).unwrap();

    let commits = Arc::new(AtomicU64::new(0));

    // Thread A: the writer
    {
        let (db, victim, other, commits) =
            (db.clone(), victim.clone(), other.clone(), commits.clone());
        std::thread::spawn(move || {
            // NOTE: one batch is bigger than a memtable, so every commit asks for a rotation of both keyspaces
            let v = vec![3u8; 600];
            for n in 0..BATCHES {
                let mut batch = db.batch();
                // the whole key range every time, so that every flushed memtable is a new L0 run
                for k in ["a", "z"] {
                    batch.insert(&victim, k, &v);
                    batch.insert(&other, k, &v);
                }
                batch.commit().unwrap(); // never returns an error in this test
                commits.store(n + 1, Ordering::Relaxed);
                // pace the writer a little, so that the background workers keep up (one flush per few commits)
                std::thread::sleep(Duration::from_millis(2));
            }
        });
    }

    // Thread B: deletes the keyspace while A is at work
    if let Some(after) = delete_after {
        let (db, victim, commits) = (db.clone(), victim.clone(), commits.clone());
        std::thread::spawn(move || {
            while commits.load(Ordering::Relaxed) < after {
                std::thread::yield_now();
            }
            db.delete_keyspace(victim).unwrap();
        });
    }

    let ok = watch(&commits, BATCHES);

    if !ok {
        // The background workers are alive and well: another keyspace still gets rotated, flushed and compacted
        let (tx, rx) = std::sync::mpsc::channel();
        let other = other.clone();
        std::thread::spawn(move || {
            other.insert("probe", "probe").unwrap();
            other.rotate_memtable_and_wait().unwrap();
            tx.send(()).ok();
        });
        eprintln!(
            "workers still serve the other keyspace: {}",
            rx.recv_timeout(Duration::from_secs(10)).is_ok()
        );
    }

    eprintln!(
        "commits={} victim: l0 runs={} sealed={} | other: l0 runs={} sealed={} | active compactions={}",
        commits.load(Ordering::Relaxed),
        victim.tree.l0_run_count(),
        victim.sealed_memtable_count(),
        other.tree.l0_run_count(),
        other.sealed_memtable_count(),
        db.active_compactions(),
    );

    assert!(
        ok,
        "WriteBatch::commit #{} has not returned for {STUCK_AFTER:?}: the writer is halted forever (L0 runs of the deleted keyspace = {})",
        commits.load(Ordering::Relaxed) + 1,
        victim.tree.l0_run_count(),
    );
}

#[test]
fn sanity_batches_over_two_keyspaces_proceed() {
    batches_with_optional_concurrent_delete(None);
}

#[test]
fn batch_commit_never_returns_after_concurrent_delete_keyspace() {
    batches_with_optional_concurrent_delete(Some(50));
}

// ---------------------------------------------------------------------------------------------------------
// (A') SingleWriterTxDatabase: the halted commit holds the single-writer lock, nobody can write anymore
// ---------------------------------------------------------------------------------------------------------

#[test]
fn single_writer_tx_commit_halts_and_blocks_all_other_writers() {
    let folder = tempfile::tempdir().unwrap();
    let db = SingleWriterTxDatabase::builder(&folder)
        .worker_threads(2)
        .open()
        .unwrap();
    let victim = db.keyspace("victim", tiny).unwrap();
    let other = db.keyspace("other", tiny).unwrap();
    let third = db.keyspace("third", tiny).unwrap();

    let commits = Arc::new(AtomicU64::new(0));
    let bystander_writes = Arc::new(AtomicU64::new(0));
    let stop = Arc::new(AtomicBool::new(false));

    {
        let (db, victim, other, commits) =
            (db.clone(), victim.clone(), other.clone(), commits.clone());
        std::thread::spawn(move || {
            let v = vec![3u8; 600];
            for n in 0..BATCHES {
                let mut tx = db.write_tx();
                for k in ["a", "z"] {
                    tx.insert(&victim, k, &v);
                    tx.insert(&other, k, &v);
                }
                tx.commit().unwrap();
                commits.store(n + 1, Ordering::Relaxed);
                std::thread::sleep(Duration::from_millis(2));
            }
        });
    }
    {
        // a bystander that never touches the deleted keyspace
        let (third, bystander_writes, stop) = (third.clone(), bystander_writes.clone(), stop.clone());
        std::thread::spawn(move || {
            while !stop.load(Ordering::Relaxed) {
                third.insert("x", "y").unwrap();
                bystander_writes.fetch_add(1, Ordering::Relaxed);
                std::thread::sleep(Duration::from_millis(1));
            }
        });
    }
    {
        let (db, victim, commits) = (db.clone(), victim.clone(), commits.clone());
        std::thread::spawn(move || {
            while commits.load(Ordering::Relaxed) < 50 {
                std::thread::yield_now();
            }
            db.inner().delete_keyspace(victim.inner().clone()).unwrap();
        });
    }

    let ok = watch(&commits, BATCHES);

    let before = bystander_writes.load(Ordering::Relaxed);
    std::thread::sleep(Duration::from_secs(2));
    let after = bystander_writes.load(Ordering::Relaxed);
    stop.store(true, Ordering::Relaxed);

    eprintln!(
        "commits={} victim l0 runs={} | bystander writes in the last 2s: {}",
        commits.load(Ordering::Relaxed),
        victim.inner().tree.l0_run_count(),
        after - before,
    );

    assert!(
        ok,
        "transaction commit #{} never returns (deleted keyspace has {} L0 runs); bystander made {} writes in 2s",
        commits.load(Ordering::Relaxed) + 1,
        victim.inner().tree.l0_run_count(),
        after - before,
    );
}

// ---------------------------------------------------------------------------------------------------------
// (B) same halt loop, other reason why the awaited compaction never comes: L0 threshold of the strategy > 30
// ---------------------------------------------------------------------------------------------------------

fn rounds_with_l0_threshold(l0_threshold: u8) {
    const ROUNDS: u64 = 60;

    let folder = tempfile::tempdir().unwrap();
    let db = Database::builder(&folder).worker_threads(2).open().unwrap();
    let ks = db
        .keyspace("default", || {
            KeyspaceCreateOptions::default().compaction_strategy(Arc::new(
                fjall::compaction::Leveled::default().with_l0_threshold(l0_threshold),
            ))
        })
        .unwrap();

    let rounds = Arc::new(AtomicU64::new(0));
    {
        let (ks, rounds) = (ks.clone(), rounds.clone());
        std::thread::spawn(move || {
            for round in 0..ROUNDS {
                ks.insert("a", round.to_be_bytes()).unwrap();
                ks.insert("z", round.to_be_bytes()).unwrap();
                ks.rotate_memtable_and_wait().unwrap();
                rounds.store(round + 1, Ordering::Relaxed);
            }
        });
    }

    let ok = watch(&rounds, ROUNDS);

    eprintln!(
        "l0_threshold={l0_threshold}: rounds={} l0 runs={} tables={} compactions completed={}",
        rounds.load(Ordering::Relaxed),
        ks.tree.l0_run_count(),
        ks.table_count(),
        db.compactions_completed(),
    );

    assert!(
        ok,
        "Keyspace::insert of round {} never returns: {} L0 runs, the strategy compacts L0 at {l0_threshold} tables only",
        rounds.load(Ordering::Relaxed) + 1,
        ks.tree.l0_run_count(),
    );
}

#[test]
fn sanity_l0_threshold_30_proceeds() {
    rounds_with_l0_threshold(30);
}

#[test]
fn l0_threshold_31_halts_writer_forever() {
    rounds_with_l0_threshold(31);
}
