// CARGO_TARGET_DIR=/tmp/hunt-C17/target cargo test --offline --test hunt_demo -- --test-threads=1 --nocapture
//
// Property C17 hunt. FAILING on the unchanged code (each for the stated reason):
//   c2_writer_thread_during_db_drop_then_reopen  - MAIN finding, public API only: a thread writes through its Keyspace
//        handle while the Database handle is dropped; after *all* handles are gone the directory stays locked forever
//        (Error::Locked), journal is never synced. Race, but hit within a handful of the up to 300 iterations.
//   c3_survivor_rotates_after_db_drop_then_reopen - deterministic sibling (needs the doc-hidden rotate_memtable hook).
//   c7_marker_absent_after_journal_rotation       - secondary: populated directory without version marker is opened as a
//        brand-new database and written to (needs ~66 MB of journal data so that 0.jnl no longer exists).
// PASSING sanity / explored candidates: c1, c2_sanity, c3_sanity, c4, c5, c6.
use fjall::{Database, KeyspaceCreateOptions};
use std::collections::BTreeMap;
use std::path::Path;
use std::sync::atomic::{AtomicBool, Ordering};
use std::sync::Arc;

fn tree_snapshot(path: &Path) -> BTreeMap<String, (u64, Vec<u8>)> {
    fn walk(base: &Path, p: &Path, out: &mut BTreeMap<String, (u64, Vec<u8>)>) {
        for e in std::fs::read_dir(p).unwrap() {
            let e = e.unwrap();
            let path = e.path();
            let rel = path.strip_prefix(base).unwrap().display().to_string();
            if path.is_dir() {
                out.insert(format!("{rel}/"), (0, vec![]));
                walk(base, &path, out);
            } else {
                let bytes = std::fs::read(&path).unwrap();
                // only keep a short digest (len + first/last bytes would be weak; keep all but journals are 16+ MiB zeros, still OK)
                let len = bytes.len() as u64;
                let mut h: u64 = 0xcbf29ce484222325;
                for b in &bytes {
                    h ^= u64::from(*b);
                    h = h.wrapping_mul(0x100000001b3);
                }
                out.insert(rel, (len, h.to_le_bytes().to_vec()));
            }
        }
    }
    let mut out = BTreeMap::new();
    walk(path, path, &mut out);
    out
}

fn thread_count() -> usize {
    std::fs::read_dir("/proc/self/task").unwrap().count()
}

/// Candidate 1: only a keyspace handle survives; second open must be refused and change nothing
#[test]
fn c1_keyspace_survivor_blocks_second_open() -> fjall::Result<()> {
    let folder = tempfile::tempdir()?;
    let db = Database::builder(&folder).open()?;
    let ks = db.keyspace("default", KeyspaceCreateOptions::default)?;
    ks.insert("a", "b")?;
    drop(db);
    ks.insert("c", "d")?;

    let before = tree_snapshot(folder.path());
    assert!(matches!(
        Database::builder(&folder).open(),
        Err(fjall::Error::Locked)
    ));
    assert!(matches!(
        fjall::SingleWriterTxDatabase::builder(&folder).open(),
        Err(fjall::Error::Locked)
    ));
    assert!(matches!(
        fjall::OptimisticTxDatabase::builder(&folder).open(),
        Err(fjall::Error::Locked)
    ));
    let after = tree_snapshot(folder.path());
    assert_eq!(before, after);

    drop(ks);
    let db = Database::builder(&folder).open()?;
    let ks = db.keyspace("default", KeyspaceCreateOptions::default)?;
    assert_eq!(&*ks.get("a")?.unwrap(), b"b");
    assert_eq!(&*ks.get("c")?.unwrap(), b"d");
    Ok(())
}

/// Candidate 3 (deterministic): the database handle is dropped first, the surviving keyspace handle
/// rotates its memtable (doc-hidden hook), then the keyspace handle is dropped: nothing is alive anymore
#[test]
fn c3_survivor_rotates_after_db_drop_then_reopen() -> fjall::Result<()> {
    let folder = tempfile::tempdir()?;
    let db = Database::builder(&folder).open()?;
    let ks = db.keyspace("default", KeyspaceCreateOptions::default)?;
    ks.insert("a", "b")?;
    drop(db);
    ks.insert("c", "d")?;
    assert!(ks.rotate_memtable()?);
    drop(ks);

    // every handle is gone
    let res = Database::builder(&folder).open();
    assert!(
        res.is_ok(),
        "reopen after the last handle was dropped failed: {:?}",
        res.err()
    );
    Ok(())
}

/// Sanity variant of c3: no rotation after the database drop
#[test]
fn c3_sanity_no_rotation() -> fjall::Result<()> {
    let folder = tempfile::tempdir()?;
    let db = Database::builder(&folder).open()?;
    let ks = db.keyspace("default", KeyspaceCreateOptions::default)?;
    ks.insert("a", "b")?;
    drop(db);
    ks.insert("c", "d")?;
    drop(ks);
    let res = Database::builder(&folder).open();
    assert!(res.is_ok(), "{:?}", res.err());
    Ok(())
}

fn race_once(i: usize) -> Result<(), String> {
    race_once_inner(i, false)
}

fn race_once_inner(i: usize, stop_writer_first: bool) -> Result<(), String> {
    let folder = tempfile::tempdir().unwrap();
    let db = Database::builder(&folder).open().unwrap();
    let ks = db
        .keyspace("default", || {
            KeyspaceCreateOptions::default().max_memtable_size(1_000)
        })
        .unwrap();

    // NOTE: More keyspaces make the tail of DatabaseInner::drop (after its last queue drain) a bit longer
    for k in 0..8 {
        let _ = db
            .keyspace(&format!("extra{k}"), KeyspaceCreateOptions::default)
            .unwrap();
    }

    let stop = Arc::new(AtomicBool::new(false));
    let writer = {
        let ks = ks.clone();
        let stop = stop.clone();
        std::thread::spawn(move || {
            let mut n = 0u64;
            while !stop.load(Ordering::Relaxed) {
                ks.insert(n.to_be_bytes(), [0u8; 64]).unwrap();
                n += 1;
            }
            n
        })
    };
    drop(ks);

    std::thread::sleep(std::time::Duration::from_millis(20));
    if stop_writer_first {
        // sanity variant: nobody sends rotation requests while the database is being dropped
        stop.store(true, Ordering::Relaxed);
        while !writer.is_finished() {
            std::thread::yield_now();
        }
    }
    drop(db);
    stop.store(true, Ordering::Relaxed);
    let _n = writer.join().unwrap();

    // All handles (Database, Keyspace clones) are dropped now
    match Database::builder(&folder).open() {
        Ok(_) => Ok(()),
        Err(e) => Err(format!("iteration {i}: reopen failed: {e:?}")),
    }
}

/// Candidate 2: a thread keeps writing through its keyspace handle while the Database handle is dropped
#[test]
fn c2_writer_thread_during_db_drop_then_reopen() {
    for i in 0..300 {
        if let Err(e) = race_once(i) {
            panic!("{e}");
        }
    }
}

/// Sanity variant of c2: same history, but the writer thread has finished (and dropped its handle)
/// before the Database handle is dropped. Passes.
#[test]
fn c2_sanity_writer_stops_before_db_drop() {
    for i in 0..40 {
        if let Err(e) = race_once_inner(i, true) {
            panic!("{e}");
        }
    }
}

/// Candidate 6: pending flushes / compactions at drop time from several threads
#[test]
fn c6_pending_work_at_drop() -> fjall::Result<()> {
    let base_threads = thread_count();
    for _ in 0..5 {
        let folder = tempfile::tempdir()?;
        {
            let db = Database::builder(&folder).open()?;
            let mut handles = vec![];
            for t in 0..4 {
                let db = db.clone();
                handles.push(std::thread::spawn(move || {
                    let ks = db
                        .keyspace(&format!("ks{t}"), KeyspaceCreateOptions::default)
                        .unwrap();
                    for r in 0..20u64 {
                        for k in 0..50u64 {
                            ks.insert((r * 100 + k).to_be_bytes(), [1u8; 100]).unwrap();
                        }
                        ks.rotate_memtable().unwrap();
                    }
                    // db + ks dropped here, in thread
                }));
            }
            drop(db);
            for h in handles {
                h.join().unwrap();
            }
        }
        let tc = thread_count();
        // allow a short grace for exiting threads
        let mut ok = tc <= base_threads;
        for _ in 0..100 {
            if thread_count() <= base_threads {
                ok = true;
                break;
            }
            std::thread::sleep(std::time::Duration::from_millis(10));
        }
        assert!(ok, "threads remain: {} > {}", thread_count(), base_threads);

        let db = Database::builder(&folder).open()?;
        for t in 0..4 {
            let ks = db.keyspace(&format!("ks{t}"), KeyspaceCreateOptions::default)?;
            assert_eq!(ks.len()?, 20 * 50);
        }
    }
    Ok(())
}

/// Candidate 4: arbitrary marker bytes
#[test]
fn c4_marker_bytes() -> fjall::Result<()> {
    let markers: Vec<(&str, Vec<u8>, bool)> = vec![
        ("empty", vec![], false),
        ("FJ", b"FJ".to_vec(), false),
        ("FJL", b"FJL".to_vec(), false),
        ("FJL0", b"FJL\x00".to_vec(), false),
        ("FJL1", b"FJL\x01".to_vec(), false),
        ("FJL2", b"FJL\x02".to_vec(), false),
        ("FJL3", b"FJL\x03".to_vec(), true),
        ("FJL4", b"FJL\x04".to_vec(), false),
        ("FJL255", b"FJL\xff".to_vec(), false),
        ("ascii3", b"FJL3".to_vec(), false),
        ("FJL3+junk", b"FJL\x03junk".to_vec(), false),
        ("fjl3", b"fjl\x03".to_vec(), false),
    ];

    for (name, bytes, should_open) in markers {
        let folder = tempfile::tempdir()?;
        {
            let db = Database::builder(&folder).open()?;
            let ks = db.keyspace("default", KeyspaceCreateOptions::default)?;
            ks.insert("a", "b")?;
        }
        std::fs::write(folder.path().join("version"), &bytes)?;
        let before = tree_snapshot(folder.path());
        let res = Database::builder(&folder).open();
        let opened = res.is_ok();
        drop(res);
        if !should_open {
            eprintln!("marker {name}: opened={opened}");
            if !opened {
                assert_eq!(before, tree_snapshot(folder.path()), "marker {name}: dir changed");
            }
        }
        if name != "FJL3+junk" {
            assert_eq!(opened, should_open, "marker {name}");
        }
    }
    Ok(())
}

/// Candidate 5: marker absent in a populated directory
#[test]
fn c5_marker_absent_populated() -> fjall::Result<()> {
    let folder = tempfile::tempdir()?;
    {
        let db = Database::builder(&folder).open()?;
        let ks = db.keyspace("default", KeyspaceCreateOptions::default)?;
        ks.insert("a", "b")?;
    }
    std::fs::remove_file(folder.path().join("version"))?;
    let before = tree_snapshot(folder.path());
    let res = Database::builder(&folder).open();
    eprintln!("absent marker: {:?}", res.as_ref().map(|_| ()));
    let opened = res.is_ok();
    drop(res);
    let after = tree_snapshot(folder.path());
    assert!(!opened);
    assert_eq!(before, after);
    Ok(())
}

/// Candidate 7: marker absent in a populated directory whose journal was rotated (no 0.jnl anymore)
#[test]
fn c7_marker_absent_after_journal_rotation() -> fjall::Result<()> {
    use rand::RngExt;
    let folder = tempfile::tempdir()?;
    {
        let db = Database::builder(&folder).open()?;
        let ks = db.keyspace("default", KeyspaceCreateOptions::default)?;
        let big = db.keyspace("big", KeyspaceCreateOptions::default)?;
        ks.insert("a", "b")?;
        let mut rng = rand::rng();
        for i in 0..66u32 {
            let mut v = vec![0u8; 1_000_000];
            rng.fill(&mut v[..]);
            big.insert(i.to_be_bytes(), v)?;
        }
        big.rotate_memtable_and_wait()?;
        ks.rotate_memtable_and_wait()?;
        big.insert("x", "y")?;
        big.rotate_memtable_and_wait()?;
        eprintln!("journal_count={}", db.journal_count());
    }
    let names: Vec<_> = std::fs::read_dir(folder.path())?
        .map(|e| e.unwrap().file_name())
        .collect();
    eprintln!("files: {names:?}");
    std::fs::remove_file(folder.path().join("version"))?;
    let before = tree_snapshot(folder.path());
    let res = Database::builder(&folder).open();
    eprintln!("absent marker: {:?}", res.as_ref().map(|_| ()));
    let opened = res.is_ok();
    if let Ok(db) = &res {
        // what the caller gets: a "new" database in a directory full of old data
        eprintln!(
            "opened as new database: keyspace_count={} exists(default)={}",
            db.keyspace_count(),
            db.keyspace_exists("default"),
        );
    }
    drop(res);
    let after = tree_snapshot(folder.path());
    for k in after.keys() {
        if !before.contains_key(k) {
            eprintln!("created by the open: {k}");
        }
    }
    assert!(!opened, "directory without version marker was opened");
    assert_eq!(before, after);
    Ok(())
}
