// CARGO_TARGET_DIR=/tmp/hunt-C03/target cargo test --offline --test hunt_demo -- --nocapture --test-threads=1
//
// Property C03 (batches / transactions are all-or-nothing across crashes).
//
// FAILING on the unchanged code (genuine finding, one root cause: a memtable is turned into durable
// tables before the journal records it was built from are even handed to the OS / fsynced):
//   - manual_persist_batch_then_ingestion_crash_image   (process crash, crash image of an open database)
//   - manual_persist_tx_then_ingestion_crash_image      (same with a committed transaction)
//   - default_options_flush_then_journal_tail_lost      (default options, simulated power loss: un-fsynced journal tail cut by hand)
// PASSING sanity variants that pin the cause:
//   - manual_persist_batch_persist_then_ingestion_crash_image (journal buffer written out before the ingestion)
//   - manual_persist_batch_then_rotate_crash_image            (flush worker path: `Writer::pos()` happens to flush the BufWriter)
// PASSING candidates that found nothing (cut-point sweeps, slow: a few minutes each):
//   - sweep_mixed_batches, sweep_transactions, sweep_after_flush, sweep_after_journal_rotation, manual_persist_natural_tear
//
// Quick run of the finding only:
// CARGO_TARGET_DIR=/tmp/hunt-C03/target cargo test --offline --test hunt_demo -- --nocapture --test-threads=1 manual_persist_batch manual_persist_tx default_options

use fjall::{Database, KeyspaceCreateOptions};
use std::collections::BTreeMap;
use std::path::{Path, PathBuf};

type Model = BTreeMap<String, BTreeMap<Vec<u8>, Vec<u8>>>;

fn copy_dir_without_journals(src: &Path, dst: &Path) {
    std::fs::create_dir_all(dst).unwrap();
    for dirent in std::fs::read_dir(src).unwrap() {
        let dirent = dirent.unwrap();
        let p = dirent.path();
        let target = dst.join(dirent.file_name());
        if dirent.file_type().unwrap().is_dir() {
            copy_dir_without_journals(&p, &target);
        } else {
            let name = dirent.file_name().to_str().unwrap().to_owned();
            if name.ends_with(".jnl") {
                continue;
            }
            std::fs::copy(&p, &target).unwrap();
        }
    }
}

fn journal_files(dir: &Path) -> Vec<PathBuf> {
    let mut v: Vec<(u64, PathBuf)> = std::fs::read_dir(dir)
        .unwrap()
        .map(|d| d.unwrap().path())
        .filter(|p| p.extension().is_some_and(|e| e == "jnl"))
        .map(|p| {
            (
                p.file_stem()
                    .unwrap()
                    .to_str()
                    .unwrap()
                    .parse::<u64>()
                    .unwrap(),
                p,
            )
        })
        .collect();
    v.sort();
    v.into_iter().map(|(_, p)| p).collect()
}

/// Reads the used part of a (preallocated, zero padded) journal file
fn journal_data(path: &Path) -> Vec<u8> {
    use std::io::Read;
    let mut f = std::fs::File::open(path).unwrap();
    let mut data = vec![];
    let mut buf = vec![0u8; 1 << 20];
    let mut zero_run = 0usize;
    loop {
        let n = f.read(&mut buf).unwrap();
        if n == 0 {
            break;
        }
        data.extend_from_slice(&buf[..n]);
        if buf[..n].iter().all(|b| *b == 0) {
            zero_run += n;
            if zero_run >= 2 << 20 {
                break;
            }
        } else {
            zero_run = 0;
        }
    }
    while data.last() == Some(&0) {
        data.pop();
    }
    data
}

/// Returns the entry boundaries (end offsets of each entry) and the batch boundaries (end offsets of each End entry)
fn parse(data: &[u8]) -> (Vec<usize>, Vec<usize>) {
    let mut pos = 0;
    let mut entries = vec![];
    let mut batches = vec![];
    while pos < data.len() {
        match data[pos] {
            1 => pos += 1 + 4 + 8,
            2 => {
                let key_len = u16::from_le_bytes(data[pos + 11..pos + 13].try_into().unwrap());
                let on_disk =
                    u32::from_le_bytes(data[pos + 17..pos + 21].try_into().unwrap()) as usize;
                pos += 21 + key_len as usize + on_disk;
            }
            3 => {
                pos += 1 + 8 + 4;
                batches.push(pos);
            }
            4 => pos += 1 + 8,
            t => panic!("bad tag {t} at {pos}"),
        }
        entries.push(pos);
    }
    assert_eq!(pos, data.len());
    (entries, batches)
}

fn dump(db: &Database, names: &[&str]) -> Model {
    let mut m = Model::new();
    for name in names {
        let ks = db.keyspace(name, KeyspaceCreateOptions::default).unwrap();
        let mut inner = BTreeMap::new();
        for guard in ks.iter() {
            let (k, v) = guard.into_inner().unwrap();
            inner.insert(k.to_vec(), v.to_vec());
        }
        m.insert((*name).to_owned(), inner);
    }
    m
}

fn rnd(seed: u64, len: usize) -> Vec<u8> {
    let mut x = seed.wrapping_mul(0x9E37_79B9_7F4A_7C15) | 1;
    (0..len)
        .map(|_| {
            x ^= x << 13;
            x ^= x >> 7;
            x ^= x << 17;
            (x >> 24) as u8
        })
        .collect()
}

/// Runs the cut-point sweep.
///
/// `base`: directory of a database that is still open (crash image source)
/// `snapshots`: (journal end offset, expected model) after each operation; index 0 is the state before the first op
fn sweep(
    base: &Path,
    names: &[&str],
    snapshots: &[(usize, Model)],
    all_cuts: bool,
) -> Vec<String> {
    let journals = journal_files(base);
    assert_eq!(1, journals.len());
    let jname = journals[0].file_name().unwrap().to_owned();
    let data = journal_data(&journals[0]);
    let (entries, batches) = parse(&data);
    eprintln!(
        "journal has {} bytes, {} entries, {} batches",
        data.len(),
        entries.len(),
        batches.len()
    );
    assert_eq!(data.len(), snapshots.last().unwrap().0);

    let start = snapshots[0].0;

    let mut cuts = vec![];
    for c in start..=data.len() {
        let near = entries
            .iter()
            .any(|e| (c as i64 - *e as i64).abs() <= 24)
            || c == start;
        if all_cuts || near || c % 61 == 0 {
            cuts.push(c);
        }
    }

    let mut failures = vec![];

    for &cut in &cuts {
        for pad in [false, true] {
            let tmp = tempfile::tempdir().unwrap();
            let img = tmp.path().join("img");
            copy_dir_without_journals(base, &img);
            {
                let f = std::fs::File::create(img.join(&jname)).unwrap();
                use std::io::Write;
                (&f).write_all(&data[..cut]).unwrap();
                if pad {
                    f.set_len(64 * 1024 * 1024).unwrap();
                }
            }

            // the expected state: last snapshot whose offset is <= cut
            let (_, expected) = snapshots
                .iter()
                .rev()
                .find(|(off, _)| *off <= cut)
                .unwrap();

            let res = std::panic::catch_unwind(|| {
                let mut errs = vec![];
                {
                    let db = match Database::builder(&img).open() {
                        Ok(db) => db,
                        Err(e) => {
                            errs.push(format!("cut={cut} pad={pad}: open failed: {e:?}"));
                            return errs;
                        }
                    };
                    let got = dump(&db, names);
                    if &got != expected {
                        errs.push(format!(
                            "cut={cut} pad={pad}: state after recovery differs: got {:?} expected {:?}",
                            summarize(&got),
                            summarize(expected)
                        ));
                    }

                    // later appends
                    let a = db.keyspace(names[0], KeyspaceCreateOptions::default).unwrap();
                    let b = db
                        .keyspace(names[names.len() - 1], KeyspaceCreateOptions::default)
                        .unwrap();
                    let mut batch = db.batch();
                    batch.insert(&a, "zz-later", "later-a");
                    batch.insert(&b, "zz-later", "later-b");
                    batch.commit().unwrap();
                    a.insert("zz-later2", "x").unwrap();
                }
                {
                    let db = match Database::builder(&img).open() {
                        Ok(db) => db,
                        Err(e) => {
                            errs.push(format!("cut={cut} pad={pad}: 2nd open failed: {e:?}"));
                            return errs;
                        }
                    };
                    let got = dump(&db, names);
                    let mut expected = expected.clone();
                    expected
                        .get_mut(names[0])
                        .unwrap()
                        .insert(b"zz-later".to_vec(), b"later-a".to_vec());
                    expected
                        .get_mut(names[0])
                        .unwrap()
                        .insert(b"zz-later2".to_vec(), b"x".to_vec());
                    expected
                        .get_mut(names[names.len() - 1])
                        .unwrap()
                        .insert(b"zz-later".to_vec(), b"later-b".to_vec());
                    if got != expected {
                        errs.push(format!(
                            "cut={cut} pad={pad}: state after later append + reopen differs: got {:?} expected {:?}",
                            summarize(&got),
                            summarize(&expected)
                        ));
                    }
                }
                errs
            });

            match res {
                Ok(errs) => failures.extend(errs),
                Err(_) => failures.push(format!("cut={cut} pad={pad}: PANIC")),
            }
        }
    }

    failures
}

fn summarize(m: &Model) -> Vec<(String, Vec<(String, usize)>)> {
    m.iter()
        .map(|(k, v)| {
            (
                k.clone(),
                v.iter()
                    .map(|(k, v)| (String::from_utf8_lossy(k).into_owned(), v.len()))
                    .collect(),
            )
        })
        .collect()
}

fn journal_end(dir: &Path) -> usize {
    let journals = journal_files(dir);
    journal_data(journals.last().unwrap()).len()
}

#[test]
fn sweep_mixed_batches() {
    let folder = tempfile::tempdir().unwrap();
    let names = ["a", "b"];
    let db = Database::builder(folder.path()).open().unwrap();
    let a = db.keyspace("a", KeyspaceCreateOptions::default).unwrap();
    let b = db.keyspace("b", KeyspaceCreateOptions::default).unwrap();

    let mut snaps = vec![];

    a.insert("pre", "x").unwrap();
    b.insert("pre", "y").unwrap();
    snaps.push((journal_end(folder.path()), dump(&db, &names)));

    // batch 1: small values, two keyspaces, tombstone
    let mut batch = db.batch();
    batch.insert(&a, "k1", "v1");
    batch.insert(&b, "k1", "v1");
    batch.remove(&a, "pre");
    batch.insert(&b, "k2", "");
    batch.commit().unwrap();
    snaps.push((journal_end(folder.path()), dump(&db, &names)));

    // batch 2: values around the compression threshold (4096)
    let mut batch = db.batch();
    batch.insert(&a, "c1", vec![b'c'; 4095]);
    batch.insert(&b, "c2", vec![b'c'; 4096]);
    batch.insert(&a, "c3", rnd(1, 4096));
    batch.insert(&b, "c4", rnd(2, 4097));
    batch.remove(&b, "pre");
    batch.commit().unwrap();
    snaps.push((journal_end(folder.path()), dump(&db, &names)));

    // clear
    a.clear().unwrap();
    snaps.push((journal_end(folder.path()), dump(&db, &names)));

    // single item batch
    let mut batch = db.batch();
    batch.insert(&a, "s", "1");
    batch.commit().unwrap();
    snaps.push((journal_end(folder.path()), dump(&db, &names)));

    // single insert, compressed
    b.insert("big", vec![0u8; 10_000]).unwrap();
    snaps.push((journal_end(folder.path()), dump(&db, &names)));

    // remove
    b.remove("k1").unwrap();
    snaps.push((journal_end(folder.path()), dump(&db, &names)));

    let failures = sweep(folder.path(), &names, &snaps, false);
    for f in &failures {
        eprintln!("{f}");
    }
    assert!(failures.is_empty(), "{} failures", failures.len());
}

/// Takes a crash image of a database that is still open.
///
/// Waits for background work (compaction, version GC) to settle first and retries
/// if a file vanishes while copying, so the image is a consistent point-in-time copy.
fn copy_dir_all(src: &Path, dst: &Path) {
    std::thread::sleep(std::time::Duration::from_millis(500));
    for _ in 0..20 {
        if dst.exists() {
            std::fs::remove_dir_all(dst).unwrap();
        }
        match try_copy_dir_all(src, dst) {
            Ok(()) => return,
            Err(e) if e.kind() == std::io::ErrorKind::NotFound => {
                std::thread::sleep(std::time::Duration::from_millis(200));
            }
            Err(e) => panic!("{e:?}"),
        }
    }
    panic!("could not take crash image");
}

fn try_copy_dir_all(src: &Path, dst: &Path) -> std::io::Result<()> {
    std::fs::create_dir_all(dst)?;
    for dirent in std::fs::read_dir(src)? {
        let dirent = dirent?;
        let p = dirent.path();
        let target = dst.join(dirent.file_name());
        if dirent.file_type()?.is_dir() {
            try_copy_dir_all(&p, &target)?;
        } else if p.extension().is_some_and(|e| e == "jnl") {
            // keep the image small: copy only the used part, re-create the zero padding sparsely
            let data = journal_data(&p);
            let len = p.metadata()?.len();
            let f = std::fs::File::create(&target)?;
            use std::io::Write;
            (&f).write_all(&data)?;
            f.set_len(len.max(data.len() as u64))?;
        } else {
            std::fs::copy(&p, &target)?;
        }
    }
    Ok(())
}

/// Candidate: batch is only in the journal's user-space buffer, bulk ingestion flushes the memtable of one of its keyspaces
#[test]
fn manual_persist_batch_then_ingestion_crash_image() {
    let folder = tempfile::tempdir().unwrap();
    let db = Database::builder(folder.path())
        .manual_journal_persist(true)
        .open()
        .unwrap();
    let a = db.keyspace("a", KeyspaceCreateOptions::default).unwrap();
    let b = db.keyspace("b", KeyspaceCreateOptions::default).unwrap();

    let mut batch = db.batch();
    batch.insert(&a, "k", "from-batch");
    batch.insert(&b, "k", "from-batch");
    batch.commit().unwrap();

    let mut ing = a.start_ingestion().unwrap();
    ing.write("zzz", "ingested").unwrap();
    ing.finish().unwrap();

    // crash image
    let tmp = tempfile::tempdir().unwrap();
    let img = tmp.path().join("img");
    copy_dir_all(folder.path(), &img);

    let db2 = Database::builder(&img).open().unwrap();
    let a2 = db2.keyspace("a", KeyspaceCreateOptions::default).unwrap();
    let b2 = db2.keyspace("b", KeyspaceCreateOptions::default).unwrap();
    let in_a = a2.get("k").unwrap().is_some();
    let in_b = b2.get("k").unwrap().is_some();
    eprintln!("after crash: a.k present = {in_a}, b.k present = {in_b}");
    assert_eq!(in_a, in_b, "batch was recovered partially");
}

/// Sanity variant: same, but the memtable is flushed by the flush worker
#[test]
fn manual_persist_batch_then_rotate_crash_image() {
    let folder = tempfile::tempdir().unwrap();
    let db = Database::builder(folder.path())
        .manual_journal_persist(true)
        .open()
        .unwrap();
    let a = db.keyspace("a", KeyspaceCreateOptions::default).unwrap();
    let b = db.keyspace("b", KeyspaceCreateOptions::default).unwrap();

    let mut batch = db.batch();
    batch.insert(&a, "k", "from-batch");
    batch.insert(&b, "k", "from-batch");
    batch.commit().unwrap();

    a.rotate_memtable_and_wait().unwrap();
    assert_eq!(1, a.table_count());

    let tmp = tempfile::tempdir().unwrap();
    let img = tmp.path().join("img");
    copy_dir_all(folder.path(), &img);

    let db2 = Database::builder(&img).open().unwrap();
    let a2 = db2.keyspace("a", KeyspaceCreateOptions::default).unwrap();
    let b2 = db2.keyspace("b", KeyspaceCreateOptions::default).unwrap();
    let in_a = a2.get("k").unwrap().is_some();
    let in_b = b2.get("k").unwrap().is_some();
    eprintln!("after crash: a.k present = {in_a}, b.k present = {in_b}");
    assert_eq!(in_a, in_b, "batch was recovered partially");
}

/// Candidate: transactions of both kinds (they are committed as one batch)
#[test]
fn sweep_transactions() {
    use fjall::{OptimisticTxDatabase, Readable, SingleWriterTxDatabase};

    let names = ["a", "b", "c"];

    // single writer
    {
        let folder = tempfile::tempdir().unwrap();
        let db = SingleWriterTxDatabase::builder(folder.path()).open().unwrap();
        let a = db.keyspace("a", KeyspaceCreateOptions::default).unwrap();
        let b = db.keyspace("b", KeyspaceCreateOptions::default).unwrap();
        let c = db.keyspace("c", KeyspaceCreateOptions::default).unwrap();
        a.insert("pre", "1").unwrap();
        b.insert("pre", "1").unwrap();
        c.insert("pre", "1").unwrap();

        let mut snaps = vec![(journal_end(folder.path()), dump(db.inner(), &names))];

        let mut tx = db.write_tx();
        tx.insert(&a, "k", "1");
        tx.insert(&a, "k", "2");
        tx.remove(&b, "pre");
        tx.insert(&c, "big", vec![b'x'; 5000]);
        tx.insert(&b, "gone", "1");
        tx.remove(&b, "gone");
        assert!(tx.get(&a, "k").unwrap().is_some());
        tx.commit().unwrap();
        snaps.push((journal_end(folder.path()), dump(db.inner(), &names)));

        let mut tx = db.write_tx();
        tx.take(&a, "k").unwrap();
        tx.update_fetch(&c, "pre", |_| Some("2".into())).unwrap();
        tx.insert(&b, "q", rnd(7, 300));
        tx.commit().unwrap();
        snaps.push((journal_end(folder.path()), dump(db.inner(), &names)));

        let failures = sweep(folder.path(), &names, &snaps, false);
        for f in &failures {
            eprintln!("{f}");
        }
        assert!(failures.is_empty(), "{} failures", failures.len());
    }

    // optimistic
    {
        let folder = tempfile::tempdir().unwrap();
        let db = OptimisticTxDatabase::builder(folder.path()).open().unwrap();
        let a = db.keyspace("a", KeyspaceCreateOptions::default).unwrap();
        let b = db.keyspace("b", KeyspaceCreateOptions::default).unwrap();
        let c = db.keyspace("c", KeyspaceCreateOptions::default).unwrap();
        a.insert("pre", "1").unwrap();
        b.insert("pre", "1").unwrap();
        c.insert("pre", "1").unwrap();

        let mut snaps = vec![(journal_end(folder.path()), dump(db.inner(), &names))];

        let mut tx = db.write_tx().unwrap();
        tx.insert(&a, "k", "1");
        tx.insert(&a, "k", "2");
        tx.remove(&b, "pre");
        tx.insert(&c, "big", vec![b'x'; 5000]);
        tx.commit().unwrap().unwrap();
        snaps.push((journal_end(folder.path()), dump(db.inner(), &names)));

        let mut tx = db.write_tx().unwrap();
        tx.take(&a, "k").unwrap();
        tx.insert(&b, "q", rnd(7, 300));
        tx.insert(&c, "q", "");
        tx.commit().unwrap().unwrap();
        snaps.push((journal_end(folder.path()), dump(db.inner(), &names)));

        let failures = sweep(folder.path(), &names, &snaps, false);
        for f in &failures {
            eprintln!("{f}");
        }
        assert!(failures.is_empty(), "{} failures", failures.len());
    }
}

/// Candidate: one of the keyspaces of the batches was flushed in between (replay skips what the tables cover)
#[test]
fn sweep_after_flush() {
    let folder = tempfile::tempdir().unwrap();
    let names = ["a", "b"];
    let db = Database::builder(folder.path()).open().unwrap();
    let a = db.keyspace("a", KeyspaceCreateOptions::default).unwrap();
    let b = db.keyspace("b", KeyspaceCreateOptions::default).unwrap();

    let mut batch = db.batch();
    batch.insert(&a, "k1", "old");
    batch.insert(&b, "k1", "old");
    batch.insert(&a, "k2", "old");
    batch.insert(&b, "k2", "old");
    batch.commit().unwrap();

    a.rotate_memtable_and_wait().unwrap();
    assert_eq!(1, a.table_count());

    let mut snaps = vec![(journal_end(folder.path()), dump(&db, &names))];

    let mut batch = db.batch();
    batch.insert(&a, "k1", "new");
    batch.remove(&b, "k1");
    batch.remove(&a, "k2");
    batch.insert(&b, "k3", "new");
    batch.commit().unwrap();
    snaps.push((journal_end(folder.path()), dump(&db, &names)));

    b.clear().unwrap();
    snaps.push((journal_end(folder.path()), dump(&db, &names)));

    let mut batch = db.batch();
    batch.insert(&a, "k4", "x");
    batch.insert(&b, "k4", "x");
    batch.commit().unwrap();
    snaps.push((journal_end(folder.path()), dump(&db, &names)));

    // give background compaction some time to settle before taking images
    std::thread::sleep(std::time::Duration::from_millis(500));

    let failures = sweep(folder.path(), &names, &snaps, true);
    for f in &failures {
        eprintln!("{f}");
    }
    assert!(failures.is_empty(), "{} failures", failures.len());
}

/// Candidate: with manual persist, the journal on disk ends wherever the 8 KiB buffer was last written out
#[test]
fn manual_persist_natural_tear() {
    let names = ["a", "b"];

    for round in 0..8u64 {
        let folder = tempfile::tempdir().unwrap();
        let db = Database::builder(folder.path())
            .manual_journal_persist(true)
            .open()
            .unwrap();
        let a = db.keyspace("a", KeyspaceCreateOptions::default).unwrap();
        let b = db.keyspace("b", KeyspaceCreateOptions::default).unwrap();

        // every batch writes the same keys into both keyspaces with the batch number as value
        let n = 40 + round * 3;
        for i in 0..n {
            let mut batch = db.batch();
            for j in 0..5u64 {
                let v = rnd(i * 10 + j, 100 + (round as usize) * 37);
                batch.insert(&a, format!("k{j}"), [&i.to_be_bytes()[..], &v].concat());
                batch.insert(&b, format!("k{j}"), [&i.to_be_bytes()[..], &v].concat());
            }
            batch.commit().unwrap();
        }

        let tmp = tempfile::tempdir().unwrap();
        let img = tmp.path().join("img");
        copy_dir_all(folder.path(), &img);

        let on_disk = journal_end(&img);
        eprintln!("round {round}: journal on disk has {on_disk} bytes");

        {
            let db2 = Database::builder(&img).open().unwrap();
            let m = dump(&db2, &names);
            assert_eq!(m["a"], m["b"], "keyspaces diverged");
            let versions: std::collections::BTreeSet<Vec<u8>> =
                m["a"].values().map(|v| v[..8].to_vec()).collect();
            assert!(versions.len() <= 1, "mixed batches visible: {versions:?}");
            if on_disk > 4000 {
                assert_eq!(5, m["a"].len());
            }

            let a2 = db2.keyspace("a", KeyspaceCreateOptions::default).unwrap();
            let b2 = db2.keyspace("b", KeyspaceCreateOptions::default).unwrap();
            let mut batch = db2.batch();
            batch.insert(&a2, "later", "1");
            batch.insert(&b2, "later", "1");
            batch.commit().unwrap();
        }
        {
            let db2 = Database::builder(&img).open().unwrap();
            let m = dump(&db2, &names);
            assert_eq!(m["a"], m["b"], "keyspaces diverged");
            assert!(m["a"].contains_key(&b"later"[..]));
        }
    }
}

/// Same root cause as `manual_persist_batch_then_ingestion_crash_image`, default options, simulated power loss:
/// the journal is only written to OS buffers (never fsynced) before the flush makes the tables durable,
/// so after a power loss the journal may end before the batch although a table already holds a part of it.
#[test]
fn default_options_flush_then_journal_tail_lost() {
    let folder = tempfile::tempdir().unwrap();
    let db = Database::builder(folder.path()).open().unwrap();
    let a = db.keyspace("a", KeyspaceCreateOptions::default).unwrap();
    let b = db.keyspace("b", KeyspaceCreateOptions::default).unwrap();

    a.insert("pre", "1").unwrap();
    db.persist(fjall::PersistMode::SyncAll).unwrap();
    let synced_len = journal_end(folder.path());

    let mut batch = db.batch();
    batch.insert(&a, "k", "from-batch");
    batch.insert(&b, "k", "from-batch");
    batch.commit().unwrap();

    // flush worker: tables of `a` are fsynced, the journal is not
    a.rotate_memtable_and_wait().unwrap();
    assert_eq!(1, a.table_count());

    let tmp = tempfile::tempdir().unwrap();
    let img = tmp.path().join("img");
    copy_dir_all(folder.path(), &img);

    // power loss: everything of the journal after the last fsync is gone
    {
        let j = journal_files(&img).pop().unwrap();
        let len = j.metadata().unwrap().len();
        let f = std::fs::OpenOptions::new().write(true).open(&j).unwrap();
        f.set_len(synced_len as u64).unwrap();
        f.set_len(len).unwrap();
    }

    let db2 = Database::builder(&img).open().unwrap();
    let a2 = db2.keyspace("a", KeyspaceCreateOptions::default).unwrap();
    let b2 = db2.keyspace("b", KeyspaceCreateOptions::default).unwrap();
    let in_a = a2.get("k").unwrap().is_some();
    let in_b = b2.get("k").unwrap().is_some();
    eprintln!("after power loss: a.k present = {in_a}, b.k present = {in_b}");
    assert_eq!(in_a, in_b, "batch was recovered partially");
}

fn link_or_copy_dir(src: &Path, dst: &Path) {
    std::fs::create_dir_all(dst).unwrap();
    for dirent in std::fs::read_dir(src).unwrap() {
        let dirent = dirent.unwrap();
        let p = dirent.path();
        let target = dst.join(dirent.file_name());
        if dirent.file_type().unwrap().is_dir() {
            link_or_copy_dir(&p, &target);
        } else if p.metadata().unwrap().len() > 1_000_000 {
            // big files (tables, sealed journals) are immutable: hard link them
            std::fs::hard_link(&p, &target).unwrap();
        } else {
            std::fs::copy(&p, &target).unwrap();
        }
    }
}

/// Candidate: the journal was rotated (sealed journal + active journal), the tear is in the active journal
#[test]
fn sweep_after_journal_rotation() {
    let folder = tempfile::tempdir().unwrap();
    let names = ["a", "b"];
    let db = Database::builder(folder.path()).open().unwrap();
    let a = db.keyspace("a", KeyspaceCreateOptions::default).unwrap();
    let b = db.keyspace("b", KeyspaceCreateOptions::default).unwrap();
    let filler = db.keyspace("filler", KeyspaceCreateOptions::default).unwrap();

    // lives in the sealed journal only
    let mut batch = db.batch();
    batch.insert(&a, "sealed", "1");
    batch.insert(&b, "sealed", "1");
    batch.commit().unwrap();

    for i in 0..66u64 {
        filler.insert(format!("f{i}"), rnd(i + 100, 1_000_000)).unwrap();
    }
    filler.rotate_memtable_and_wait().unwrap();
    assert_eq!(2, db.journal_count());

    let mut snaps = vec![(journal_end(folder.path()), dump(&db, &names))];
    assert_eq!(0, snaps[0].0);

    let mut batch = db.batch();
    batch.insert(&a, "k1", "v");
    batch.remove(&b, "sealed");
    batch.insert(&b, "k1", vec![b'z'; 6000]);
    batch.commit().unwrap();
    snaps.push((journal_end(folder.path()), dump(&db, &names)));

    a.clear().unwrap();
    snaps.push((journal_end(folder.path()), dump(&db, &names)));

    let mut batch = db.batch();
    batch.insert(&a, "k2", "v");
    batch.insert(&b, "k2", "v");
    batch.commit().unwrap();
    snaps.push((journal_end(folder.path()), dump(&db, &names)));

    std::thread::sleep(std::time::Duration::from_millis(1000));

    let journals = journal_files(folder.path());
    assert_eq!(2, journals.len());
    let active = journals[1].clone();
    let jname = active.file_name().unwrap().to_owned();
    let data = journal_data(&active);
    assert_eq!(data.len(), snaps.last().unwrap().0);

    // move the active journal away so that it is not copied
    let stash = tempfile::tempdir().unwrap();

    let mut failures = vec![];
    let cuts: Vec<usize> = (0..=data.len()).filter(|c| c % 3 == 0 || *c == data.len()).collect();

    for cut in cuts {
        for pad in [false, true] {
            let img = stash.path().join(format!("img-{cut}-{pad}"));
            link_or_copy_dir(folder.path(), &img);
            {
                std::fs::remove_file(img.join(&jname)).unwrap();
                let f = std::fs::File::create(img.join(&jname)).unwrap();
                use std::io::Write;
                (&f).write_all(&data[..cut]).unwrap();
                if pad {
                    f.set_len(64 * 1024 * 1024).unwrap();
                }
            }
            let (_, expected) = snaps.iter().rev().find(|(off, _)| *off <= cut).unwrap();
            {
                let db2 = Database::builder(&img).open().unwrap();
                let got = dump(&db2, &names);
                if &got != expected {
                    failures.push(format!(
                        "cut={cut} pad={pad}: got {:?} expected {:?}",
                        summarize(&got),
                        summarize(expected)
                    ));
                }
                let a2 = db2.keyspace("a", KeyspaceCreateOptions::default).unwrap();
                let b2 = db2.keyspace("b", KeyspaceCreateOptions::default).unwrap();
                let mut batch = db2.batch();
                batch.insert(&a2, "later", "1");
                batch.insert(&b2, "later", "1");
                batch.commit().unwrap();
            }
            {
                let db2 = Database::builder(&img).open().unwrap();
                let got = dump(&db2, &names);
                let mut expected = expected.clone();
                for n in names {
                    expected
                        .get_mut(n)
                        .unwrap()
                        .insert(b"later".to_vec(), b"1".to_vec());
                }
                if got != expected {
                    failures.push(format!(
                        "cut={cut} pad={pad}: after append got {:?} expected {:?}",
                        summarize(&got),
                        summarize(&expected)
                    ));
                }
            }
            std::fs::remove_dir_all(&img).unwrap();
        }
    }

    for f in &failures {
        eprintln!("{f}");
    }
    assert!(failures.is_empty(), "{} failures", failures.len());
}

/// Same as `manual_persist_batch_then_ingestion_crash_image`, but with a committed transaction
#[test]
fn manual_persist_tx_then_ingestion_crash_image() {
    use fjall::SingleWriterTxDatabase;

    let folder = tempfile::tempdir().unwrap();
    let db = SingleWriterTxDatabase::builder(folder.path())
        .manual_journal_persist(true)
        .open()
        .unwrap();
    let a = db.keyspace("a", KeyspaceCreateOptions::default).unwrap();
    let b = db.keyspace("b", KeyspaceCreateOptions::default).unwrap();

    let mut tx = db.write_tx();
    tx.insert(&a, "account", "-100");
    tx.insert(&b, "account", "+100");
    tx.commit().unwrap();

    let mut ing = a.inner().start_ingestion().unwrap();
    ing.write("zzz", "ingested").unwrap();
    ing.finish().unwrap();

    let tmp = tempfile::tempdir().unwrap();
    let img = tmp.path().join("img");
    copy_dir_all(folder.path(), &img);

    let db2 = Database::builder(&img).open().unwrap();
    let a2 = db2.keyspace("a", KeyspaceCreateOptions::default).unwrap();
    let b2 = db2.keyspace("b", KeyspaceCreateOptions::default).unwrap();
    let in_a = a2.get("account").unwrap().is_some();
    let in_b = b2.get("account").unwrap().is_some();
    eprintln!("after crash: a.account present = {in_a}, b.account present = {in_b}");
    assert_eq!(in_a, in_b, "transaction was recovered partially");
}

/// Sanity variant that pins the cause: identical history, but the journal buffer is handed to the OS
/// before the ingestion flushes the memtable - passes
#[test]
fn manual_persist_batch_persist_then_ingestion_crash_image() {
    let folder = tempfile::tempdir().unwrap();
    let db = Database::builder(folder.path())
        .manual_journal_persist(true)
        .open()
        .unwrap();
    let a = db.keyspace("a", KeyspaceCreateOptions::default).unwrap();
    let b = db.keyspace("b", KeyspaceCreateOptions::default).unwrap();

    let mut batch = db.batch();
    batch.insert(&a, "k", "from-batch");
    batch.insert(&b, "k", "from-batch");
    batch.commit().unwrap();

    db.persist(fjall::PersistMode::Buffer).unwrap();

    let mut ing = a.start_ingestion().unwrap();
    ing.write("zzz", "ingested").unwrap();
    ing.finish().unwrap();

    let tmp = tempfile::tempdir().unwrap();
    let img = tmp.path().join("img");
    copy_dir_all(folder.path(), &img);

    let db2 = Database::builder(&img).open().unwrap();
    let a2 = db2.keyspace("a", KeyspaceCreateOptions::default).unwrap();
    let b2 = db2.keyspace("b", KeyspaceCreateOptions::default).unwrap();
    let in_a = a2.get("k").unwrap().is_some();
    let in_b = b2.get("k").unwrap().is_some();
    eprintln!("after crash: a.k present = {in_a}, b.k present = {in_b}");
    assert!(in_a && in_b);
}
