// CARGO_TARGET_DIR=/tmp/hunt-C11/target cargo test --offline --test hunt_demo -- --test-threads=1
//
// Hunt for property C11 ("after reopening, new writes supersede everything recovered").
//
// Result: no violation of C11 as written was found (the sequence number / visible seqno restoration
// holds on every history tried, see the passing tests below and hunt_fuzz.rs).
//
// SIDE FINDING (fails on the unchanged code, 3/3 runs): an acknowledged *ingested tombstone* is undone
// by the next reopen once compaction has evicted it - tests
//   ingested_tombstone_after_reopen_is_undone_by_next_reopen   (C11-shaped history: recover, supersede, reopen)
//   ingested_tombstone_single_session_then_reopen              (the first reopen is not needed)
// Root cause: journal replay decides what to skip by the keyspace's *current* highest persisted seqno
// (src/recovery.rs PersistedSeqnos::covers, used in src/db.rs Database::recover and
// recover_sealed_memtables). Bulk ingestion is not journaled, so when last-level compaction drops the
// ingested tombstone table together with the flushed value, the highest persisted seqno falls below the
// value's journal record, the record is replayed, and nothing in the journal deletes it again.
use fjall::{AbstractTree, Database, KeyspaceCreateOptions, Readable};

fn wait_idle(db: &Database) {
    for _ in 0..400 {
        if db.outstanding_flushes() == 0 && db.active_compactions() == 0 {
            std::thread::sleep(std::time::Duration::from_millis(10));
            if db.outstanding_flushes() == 0 && db.active_compactions() == 0 {
                return;
            }
        }
        std::thread::sleep(std::time::Duration::from_millis(5));
    }
}

/// FAILS on the unchanged code.
///
/// k=v1 lives only in the journal, the database is reopened, then k is removed by an
/// (acknowledged) ingested tombstone. Compaction into the last level evicts the tombstone
/// together with the value it shadows. On the next reopen the journal record of k=v1 is
/// replayed (the keyspace's highest persisted seqno fell below it) - the recovered value
/// is back although it was superseded after the first reopen.
#[test]
fn ingested_tombstone_after_reopen_is_undone_by_next_reopen() -> fjall::Result<()> {
    let folder = tempfile::tempdir()?;

    {
        let db = Database::builder(&folder).open()?;
        let ks = db.keyspace("default", KeyspaceCreateOptions::default)?;
        ks.insert("other", "x")?;
        ks.insert("k", "v1")?;
    }

    {
        // reopen #1: k=v1 is recovered from the journal
        let db = Database::builder(&folder).open()?;
        let ks = db.keyspace("default", KeyspaceCreateOptions::default)?;
        assert_eq!(Some("v1".as_bytes().into()), ks.get("k")?);

        // supersede the recovered value: remove through bulk ingestion
        let mut ing = ks.start_ingestion()?;
        ing.write_tombstone("k")?;
        ing.finish()?;
        assert_eq!(None, ks.get("k")?, "tombstone hides the recovered value");

        // a few unrelated writes move the GC watermark past the tombstone
        let other = db.keyspace("other", KeyspaceCreateOptions::default)?;
        other.insert("a", "a")?;
        other.insert("b", "b")?;
        // NOTE: rotation pulls the snapshot GC watermark up
        other.rotate_memtable_and_wait()?;
        wait_idle(&db);
        ks.major_compact()?;
        assert_eq!(None, ks.get("k")?, "still hidden after compaction");
        assert_eq!(None, db.snapshot().get(&ks, "k")?);
        eprintln!(
            "tables={} highest persisted={:?}",
            ks.table_count(),
            ks.tree.get_highest_persisted_seqno()
        );
    }

    {
        // reopen #2
        let db = Database::builder(&folder).open()?;
        let ks = db.keyspace("default", KeyspaceCreateOptions::default)?;
        assert_eq!(
            None,
            ks.get("k")?,
            "k was removed after the first reopen, but the recovered value is back",
        );
    }

    Ok(())
}

/// Sanity: same history with a journaled remove passes.
#[test]
fn journaled_remove_after_reopen_survives_next_reopen() -> fjall::Result<()> {
    let folder = tempfile::tempdir()?;

    {
        let db = Database::builder(&folder).open()?;
        let ks = db.keyspace("default", KeyspaceCreateOptions::default)?;
        ks.insert("other", "x")?;
        ks.insert("k", "v1")?;
    }

    {
        let db = Database::builder(&folder).open()?;
        let ks = db.keyspace("default", KeyspaceCreateOptions::default)?;
        assert_eq!(Some("v1".as_bytes().into()), ks.get("k")?);

        ks.remove("k")?;
        ks.rotate_memtable_and_wait()?;

        let other = db.keyspace("other", KeyspaceCreateOptions::default)?;
        other.insert("a", "a")?;
        other.insert("b", "b")?;
        // NOTE: rotation pulls the snapshot GC watermark up
        other.rotate_memtable_and_wait()?;
        wait_idle(&db);
        ks.major_compact()?;
        assert_eq!(None, ks.get("k")?);
    }

    {
        let db = Database::builder(&folder).open()?;
        let ks = db.keyspace("default", KeyspaceCreateOptions::default)?;
        assert_eq!(None, ks.get("k")?);
    }

    Ok(())
}

/// Sanity: same history as the failing test, but without the major compaction, passes
/// (the ingested tombstone table still exists and keeps the persisted seqno up).
#[test]
fn ingested_tombstone_after_reopen_without_compaction() -> fjall::Result<()> {
    let folder = tempfile::tempdir()?;

    {
        let db = Database::builder(&folder)
            .worker_threads_unchecked(1)
            .open()?;
        let ks = db.keyspace("default", KeyspaceCreateOptions::default)?;
        ks.insert("other", "x")?;
        ks.insert("k", "v1")?;
    }

    {
        let db = Database::builder(&folder).open()?;
        let ks = db.keyspace("default", KeyspaceCreateOptions::default)?;
        let mut ing = ks.start_ingestion()?;
        ing.write_tombstone("k")?;
        ing.finish()?;
        assert_eq!(None, ks.get("k")?);
        wait_idle(&db);
    }

    {
        let db = Database::builder(&folder).open()?;
        let ks = db.keyspace("default", KeyspaceCreateOptions::default)?;
        assert_eq!(None, ks.get("k")?);
    }

    Ok(())
}

// ---------------------------------------------------------------------------------------------
// Passing candidates (tried without finding a violation)
// ---------------------------------------------------------------------------------------------

fn copy_dir(src: &std::path::Path, dst: &std::path::Path) {
    std::fs::create_dir_all(dst).unwrap();
    for e in std::fs::read_dir(src).unwrap() {
        let e = e.unwrap();
        let p = e.path();
        let d = dst.join(e.file_name());
        if e.file_type().unwrap().is_dir() {
            copy_dir(&p, &d);
        } else {
            std::fs::copy(&p, &d).unwrap();
        }
    }
}

fn big_value(i: u64) -> Vec<u8> {
    // incompressible-ish 1 MiB
    let mut x = i.wrapping_mul(0x9E3779B97F4A7C15) | 1;
    let mut v = Vec::with_capacity(1 << 20);
    while v.len() < (1 << 20) {
        x ^= x << 13;
        x ^= x >> 7;
        x ^= x << 17;
        v.extend_from_slice(&x.to_le_bytes());
    }
    v
}

fn highest(db: &Database) -> u64 {
    let mut h = 0;
    for ks in db.supervisor.keyspaces.read().unwrap().values() {
        if let Some(s) = ks.tree.get_highest_seqno() {
            h = h.max(s);
        }
    }
    h
}

fn sv(s: &str) -> Option<fjall::Slice> {
    Some(s.as_bytes().into())
}

/// Journal rotation: recovered data sits in a sealed journal, an active journal, a tombstone-only
/// memtable and an ingested table (which holds the highest seqno). Crash image, overwrite, reopen again.
#[test]
fn sealed_journal_crash_image_overwrite() -> fjall::Result<()> {
    let base = tempfile::tempdir()?;
    let p0 = base.path().join("db0");
    let p1 = base.path().join("db1");
    let p2 = base.path().join("db2");

    let h0;
    {
        let db = Database::builder(&p0).open()?;
        let a = db.keyspace("a", KeyspaceCreateOptions::default)?;
        let t = db.keyspace("t", KeyspaceCreateOptions::default)?;
        let big = db.keyspace("big", KeyspaceCreateOptions::default)?;
        let ing = db.keyspace("ing", KeyspaceCreateOptions::default)?;

        a.insert("a1", "old")?;
        a.insert("a2", "old")?;
        a.insert("a3", "old")?;
        t.remove("t1")?;

        for i in 0..66u64 {
            big.insert(format!("big{i:03}"), big_value(i))?;
        }
        big.rotate_memtable_and_wait()?;
        wait_idle(&db);
        assert_eq!(2, db.journal_count());

        a.insert("a2", "new")?;
        a.remove("a3")?;

        let mut i = ing.start_ingestion()?;
        i.write("i1", "ingested")?;
        i.write("i2", "ingested")?;
        i.finish()?;
        wait_idle(&db);

        h0 = highest(&db);
        assert_eq!(Some(h0), ing.tree.get_highest_persisted_seqno());
        copy_dir(&p0, &p1);
    }

    let h1;
    {
        let db = Database::builder(&p1).open()?;
        assert!(db.seqno() > h0, "{} > {h0}", db.seqno());
        assert!(db.visible_seqno() > h0);
        let a = db.keyspace("a", KeyspaceCreateOptions::default)?;
        let t = db.keyspace("t", KeyspaceCreateOptions::default)?;
        let ing = db.keyspace("ing", KeyspaceCreateOptions::default)?;

        let snap = db.snapshot();
        assert_eq!(sv("old"), snap.get(&a, "a1")?);
        assert_eq!(sv("new"), snap.get(&a, "a2")?);
        assert_eq!(None, snap.get(&a, "a3")?);
        assert_eq!(None, snap.get(&t, "t1")?);
        assert_eq!(sv("ingested"), snap.get(&ing, "i1")?);

        a.insert("a1", "newer")?;
        a.remove("a2")?;
        a.insert("a3", "back")?;
        t.insert("t1", "x")?;
        ing.insert("i1", "overwritten")?;
        ing.remove("i2")?;

        for (ks, k, v) in [
            (&a, "a1", sv("newer")),
            (&a, "a2", None),
            (&a, "a3", sv("back")),
            (&t, "t1", sv("x")),
            (&ing, "i1", sv("overwritten")),
            (&ing, "i2", None),
        ] {
            assert_eq!(v, ks.get(k)?, "{k}");
            assert_eq!(v, db.snapshot().get(ks, k)?, "snapshot {k}");
        }
        // old snapshot unchanged
        assert_eq!(sv("old"), snap.get(&a, "a1")?);
        assert_eq!(sv("ingested"), snap.get(&ing, "i2")?);
        drop(snap);

        wait_idle(&db);
        h1 = highest(&db);
        copy_dir(&p1, &p2);
    }

    for path in [&p1, &p2] {
        for _ in 0..2 {
            let db = Database::builder(path).open()?;
            assert!(db.seqno() > h1, "{} > {h1}", db.seqno());
            let a = db.keyspace("a", KeyspaceCreateOptions::default)?;
            let t = db.keyspace("t", KeyspaceCreateOptions::default)?;
            let ing = db.keyspace("ing", KeyspaceCreateOptions::default)?;
            for (ks, k, v) in [
                (&a, "a1", sv("newer")),
                (&a, "a2", None),
                (&a, "a3", sv("back")),
                (&t, "t1", sv("x")),
                (&ing, "i1", sv("overwritten")),
                (&ing, "i2", None),
            ] {
                assert_eq!(v, ks.get(k)?, "{k}");
                assert_eq!(v, db.snapshot().get(ks, k)?, "snapshot {k}");
            }
            wait_idle(&db);
        }
    }

    Ok(())
}

/// Highest seqno lives only in (a) a flushed table of another keyspace compacted into the last level,
/// (b) a tombstone-only memtable of another keyspace, (c) a clear record. Overwrite + read back after each reopen.
#[test]
fn highest_seqno_elsewhere_then_overwrite() -> fjall::Result<()> {
    for variant in 0..4 {
        let folder = tempfile::tempdir()?;
        let h;
        {
            let db = Database::builder(&folder).open()?;
            let a = db.keyspace("a", KeyspaceCreateOptions::default)?;
            let b = db.keyspace("b", KeyspaceCreateOptions::default)?;
            a.insert("k", "old")?;
            a.insert("d", "old")?;
            match variant {
                0 => {
                    b.insert("x", "x")?;
                    b.insert("y", "y")?;
                    b.rotate_memtable_and_wait()?;
                    b.major_compact()?;
                }
                1 => {
                    b.remove("x")?;
                    b.remove("y")?;
                }
                2 => {
                    b.insert("x", "x")?;
                    b.clear()?;
                }
                _ => {
                    a.rotate_memtable_and_wait()?;
                    a.major_compact()?;
                    let mut i = b.start_ingestion()?;
                    i.write_tombstone("x")?;
                    i.finish()?;
                }
            }
            wait_idle(&db);
            // NOTE: not db.seqno() - version changes (rotation, flush, compaction) consume
            // sequence numbers that are not stored anywhere
            h = highest(&db) + 1;
        }
        for round in 0..3 {
            let db = Database::builder(&folder).open()?;
            let a = db.keyspace("a", KeyspaceCreateOptions::default)?;
            let b = db.keyspace("b", KeyspaceCreateOptions::default)?;
            if variant != 3 {
                // (ingested tombstones may be compacted away, then their seqno is not present anymore)
                assert!(db.seqno() >= h, "variant {variant}: {} >= {h}", db.seqno());
            }
            assert!(db.seqno() > highest(&db));
            assert_eq!(db.seqno(), db.visible_seqno());
            let v = format!("new{round}");
            a.insert("k", &v)?;
            assert_eq!(sv(&v), a.get("k")?);
            assert_eq!(sv(&v), db.snapshot().get(&a, "k")?);
            if round == 0 {
                a.remove("d")?;
            }
            assert_eq!(None, a.get("d")?);
            b.insert("x", &v)?;
            assert_eq!(sv(&v), b.get("x")?);
            if variant == 0 {
                assert_eq!(sv("y"), b.get("y")?);
            } else {
                assert_eq!(None, b.get("y")?);
            }
            if round == 1 {
                a.rotate_memtable_and_wait()?;
                b.rotate_memtable_and_wait()?;
            }
            wait_idle(&db);
        }
    }
    Ok(())
}

/// Sealed journal + clear in the active journal + repeated reopens without background workers
/// (sealed memtables are never flushed, so every reopen replays both journals again).
#[test]
fn sealed_journal_clear_and_workerless_reopens() -> fjall::Result<()> {
    let base = tempfile::tempdir()?;
    let p0 = base.path().join("db0");
    let p1 = base.path().join("db1");

    {
        let db = Database::builder(&p0).open()?;
        let a = db.keyspace("a", KeyspaceCreateOptions::default)?;
        let c = db.keyspace("c", KeyspaceCreateOptions::default)?;
        let big = db.keyspace("big", KeyspaceCreateOptions::default)?;

        a.insert("a1", "old")?;
        a.insert("a2", "old")?;
        c.insert("c1", "old")?;
        c.insert("c2", "old")?;

        for i in 0..66u64 {
            big.insert(format!("big{i:03}"), big_value(i))?;
        }
        big.rotate_memtable_and_wait()?;
        wait_idle(&db);
        assert_eq!(2, db.journal_count());

        c.clear()?;
        c.insert("c1", "post-clear")?;
        a.remove("a2")?;
        wait_idle(&db);
        copy_dir(&p0, &p1);
    }

    let mut expect_a1 = "old".to_string();
    for round in 0..4 {
        let db = Database::builder(&p1)
            .worker_threads_unchecked(if round < 3 { 0 } else { 1 })
            .open()?;
        assert!(db.seqno() > highest(&db));
        assert_eq!(db.seqno(), db.visible_seqno());
        let a = db.keyspace("a", KeyspaceCreateOptions::default)?;
        let c = db.keyspace("c", KeyspaceCreateOptions::default)?;

        let snap = db.snapshot();
        assert_eq!(sv(&expect_a1), a.get("a1")?, "round {round}");
        assert_eq!(sv(&expect_a1), snap.get(&a, "a1")?, "round {round}");
        assert_eq!(None, a.get("a2")?);
        assert_eq!(None, c.get("c2")?);
        assert_eq!(None, snap.get(&c, "c2")?);
        if round == 0 {
            assert_eq!(sv("post-clear"), c.get("c1")?);
        } else {
            assert_eq!(sv(&format!("c{}", round - 1)), c.get("c1")?);
        }

        expect_a1 = format!("a{round}");
        a.insert("a1", &expect_a1)?;
        c.insert("c1", format!("c{round}"))?;
        c.insert("c2", "tmp")?;
        c.remove("c2")?;
        assert_eq!(sv(&expect_a1), a.get("a1")?);
        assert_eq!(sv(&expect_a1), db.snapshot().get(&a, "a1")?);
        assert_eq!(None, db.snapshot().get(&c, "c2")?);
        if round == 3 {
            a.rotate_memtable_and_wait()?;
            c.rotate_memtable_and_wait()?;
            wait_idle(&db);
            assert_eq!(sv(&expect_a1), a.get("a1")?);
            assert_eq!(None, c.get("c2")?);
        }
    }

    {
        let db = Database::builder(&p1).open()?;
        let a = db.keyspace("a", KeyspaceCreateOptions::default)?;
        let c = db.keyspace("c", KeyspaceCreateOptions::default)?;
        assert_eq!(sv("a3"), a.get("a1")?);
        assert_eq!(sv("c3"), c.get("c1")?);
        assert_eq!(None, c.get("c2")?);
        assert_eq!(None, a.get("a2")?);
    }

    Ok(())
}

/// Transactions of both kinds overwrite / remove recovered keys after a reopen (values recovered from
/// a table, from the journal and from an ingested table), then reopen again.
#[test]
fn transactions_supersede_recovered_values() -> fjall::Result<()> {
    use fjall::{OptimisticTxDatabase, SingleWriterTxDatabase};

    for optimistic in [false, true] {
        let folder = tempfile::tempdir()?;
        {
            let db = Database::builder(&folder).open()?;
            let ks = db.keyspace("default", KeyspaceCreateOptions::default)?;
            ks.insert("table", "old")?;
            ks.insert("gone", "old")?;
            ks.rotate_memtable_and_wait()?;
            ks.major_compact()?;
            ks.insert("journal", "old")?;
            let other = db.keyspace("other", KeyspaceCreateOptions::default)?;
            let mut ing = other.start_ingestion()?;
            ing.write("ingested", "old")?;
            ing.finish()?;
            wait_idle(&db);
        }

        if optimistic {
            let db = OptimisticTxDatabase::builder(&folder).open()?;
            let ks = db.keyspace("default", KeyspaceCreateOptions::default)?;
            let other = db.keyspace("other", KeyspaceCreateOptions::default)?;
            let mut tx = db.write_tx()?;
            assert_eq!(sv("old"), tx.get(&ks, "table")?);
            assert_eq!(sv("old"), tx.get(&ks, "journal")?);
            assert_eq!(sv("old"), tx.get(&other, "ingested")?);
            tx.insert(&ks, "table", "new");
            tx.insert(&ks, "journal", "new");
            tx.insert(&other, "ingested", "new");
            tx.remove(&ks, "gone");
            assert_eq!(sv("new"), tx.get(&ks, "table")?);
            tx.commit()?.expect("no conflict");
            assert_eq!(sv("new"), ks.get("table")?);
            assert_eq!(sv("new"), ks.get("journal")?);
            assert_eq!(sv("new"), other.get("ingested")?);
            assert_eq!(None, ks.get("gone")?);
            let rtx = db.read_tx();
            assert_eq!(sv("new"), rtx.get(&ks, "table")?);
            assert_eq!(sv("new"), rtx.get(&other, "ingested")?);
            assert_eq!(None, rtx.get(&ks, "gone")?);
        } else {
            let db = SingleWriterTxDatabase::builder(&folder).open()?;
            let ks = db.keyspace("default", KeyspaceCreateOptions::default)?;
            let other = db.keyspace("other", KeyspaceCreateOptions::default)?;
            let mut tx = db.write_tx();
            assert_eq!(sv("old"), tx.get(&ks, "table")?);
            assert_eq!(sv("old"), tx.get(&ks, "journal")?);
            assert_eq!(sv("old"), tx.get(&other, "ingested")?);
            tx.insert(&ks, "table", "new");
            tx.insert(&ks, "journal", "new");
            tx.insert(&other, "ingested", "new");
            tx.remove(&ks, "gone");
            assert_eq!(sv("new"), tx.get(&ks, "table")?);
            tx.commit()?;
            assert_eq!(sv("new"), ks.get("table")?);
            assert_eq!(sv("new"), ks.get("journal")?);
            assert_eq!(sv("new"), other.get("ingested")?);
            assert_eq!(None, ks.get("gone")?);
            let rtx = db.read_tx();
            assert_eq!(sv("new"), rtx.get(&ks, "table")?);
            assert_eq!(sv("new"), rtx.get(&other, "ingested")?);
            assert_eq!(None, rtx.get(&ks, "gone")?);
        }

        for _ in 0..2 {
            let db = Database::builder(&folder).open()?;
            let ks = db.keyspace("default", KeyspaceCreateOptions::default)?;
            let other = db.keyspace("other", KeyspaceCreateOptions::default)?;
            assert!(db.seqno() > highest(&db));
            assert_eq!(sv("new"), ks.get("table")?);
            assert_eq!(sv("new"), ks.get("journal")?);
            assert_eq!(sv("new"), other.get("ingested")?);
            assert_eq!(None, ks.get("gone")?);
            ks.rotate_memtable_and_wait()?;
            wait_idle(&db);
        }
    }
    Ok(())
}

/// ALSO FAILS on the unchanged code - shows that the first reopen is not needed for the defect:
/// the journal record of k=v1 is replayed on top of nothing once compaction has evicted the
/// ingested tombstone together with the flushed copy of k=v1.
#[test]
fn ingested_tombstone_single_session_then_reopen() -> fjall::Result<()> {
    let folder = tempfile::tempdir()?;

    {
        let db = Database::builder(&folder).open()?;
        let ks = db.keyspace("default", KeyspaceCreateOptions::default)?;
        ks.insert("other", "x")?;
        ks.insert("k", "v1")?;

        let mut ing = ks.start_ingestion()?;
        ing.write_tombstone("k")?;
        ing.finish()?;
        assert_eq!(None, ks.get("k")?);

        let other = db.keyspace("other", KeyspaceCreateOptions::default)?;
        other.insert("a", "a")?;
        other.insert("b", "b")?;
        other.rotate_memtable_and_wait()?;
        wait_idle(&db);
        ks.major_compact()?;
        assert_eq!(None, ks.get("k")?);
    }

    {
        let db = Database::builder(&folder).open()?;
        let ks = db.keyspace("default", KeyspaceCreateOptions::default)?;
        assert_eq!(None, ks.get("k")?, "k was removed by an ingested tombstone");
    }

    Ok(())
}
