// CARGO_TARGET_DIR=/tmp/hunt-C05/target cargo test --offline --test hunt_demo -- --test-threads=1
//
// (debug profile; the forced schedules are sized for it. Place this file in tests/.)
//
// Property C05: snapshots / read transactions / iterators are frozen in time.
//
// FINDING: a snapshot / read_tx / iterator that is opened while a write (insert, batch, tx commit)
// is in flight can get an instant that is LARGER than the seqno of that unfinished write, because
// every tree version upgrade (flush, compaction, meta-keyspace ingestion on keyspace create/delete)
// takes a fresh seqno V from the shared generator and publishes `visible_seqno = V + 1` without
// caring about writers that hold a smaller, not yet applied seqno S. The view then sees the
// in-flight write appear piece by piece: reads are not repeatable, batches are torn, scans contain
// writes that were not committed when the view was created.
//
// FAILING on the unchanged code:
//   fail_snapshot_sees_in_flight_batch_after_major_compact_of_other_keyspace
//   fail_snapshot_sees_in_flight_insert_after_keyspace_create            (public API + db.seqno())
//   fail_snapshot_and_iter_see_in_flight_batch_after_background_flush    (background worker only)
//   fail_read_tx_sees_in_flight_tx_commit
//   fail_stress_public_api_snapshots_vs_batches_with_background_flushes  (public API only, no forced schedule)
//
// PASSING sanity variants that pin the cause (same history without the version upgrade):
//   sanity_snapshot_during_in_flight_batch_without_version_upgrade
//   sanity_snapshot_during_in_flight_insert_without_keyspace_create
//   sanity_stress_public_api_snapshots_vs_batches_without_flushes
//
// PASSING candidate histories that were tried and did not violate the property:
//   cand_*

use fjall::{
    Database, KeyspaceCreateOptions, KvSeparationOptions, OptimisticTxDatabase, Readable,
    SingleWriterTxDatabase,
};
use std::time::{Duration, Instant};

const BATCH_ITEMS: usize = 400_000;

fn key(i: usize) -> String {
    format!("k{i:08}")
}

fn spin_until(what: &str, mut f: impl FnMut() -> bool) {
    let start = Instant::now();
    while !f() {
        assert!(
            start.elapsed() < Duration::from_secs(60),
            "timed out waiting for: {what}"
        );
        std::hint::spin_loop();
    }
}

/// A write batch is being applied to keyspace `data` by thread W (it holds the journal lock, has
/// taken its seqno S, and is inserting its items one after the other into the memtable; it will
/// publish S only after the last item).
///
/// Meanwhile a *maintenance step on another keyspace* (here: `major_compact`, the same thing the
/// background compaction / flush workers do) installs a new tree version. lsm-tree's
/// `upgrade_version` takes a fresh seqno V > S from the shared generator and does
/// `visible_seqno.fetch_max(V + 1)`. That publishes the half-applied batch S.
///
/// A snapshot opened now has instant V+1 > S: it sees whatever part of the batch is already in
/// the memtable, and more and more of it on every later read.
#[test]
fn fail_snapshot_sees_in_flight_batch_after_major_compact_of_other_keyspace() -> fjall::Result<()> {
    let folder = tempfile::tempdir()?;
    let db = Database::builder(&folder).open()?;
    let data = db.keyspace("data", KeyspaceCreateOptions::default)?;
    let other = db.keyspace("other", KeyspaceCreateOptions::default)?;

    // give `other` two tables so that a major compaction has something to do
    other.insert("a", "1")?;
    other.rotate_memtable_and_wait()?;
    other.insert("b", "2")?;
    other.rotate_memtable_and_wait()?;
    assert_eq!(2, other.table_count());

    let mut batch = db.batch();
    for i in 0..BATCH_ITEMS {
        batch.insert(&data, key(i), "v");
    }
    let last_key = key(BATCH_ITEMS - 1);

    let seqno_before = db.seqno();
    let visible_before = db.visible_seqno();

    let writer = std::thread::spawn(move || batch.commit());

    // W has taken its seqno and has started to apply the batch to the memtable
    spin_until("batch is being applied", || data.approximate_len() > 0);
    let batch_seqno = seqno_before;
    assert_eq!(
        visible_before,
        db.visible_seqno(),
        "nothing has been published yet"
    );

    // maintenance step on ANOTHER keyspace
    other.major_compact()?;
    let visible_after_compaction = db.visible_seqno();

    let snapshot = db.snapshot();

    // the batch is still in flight: its last item is not in the memtable yet
    let last_1 = snapshot.get(&data, &last_key)?;
    let count_1 = snapshot.len(&data)?;

    writer.join().expect("writer panicked")?;

    let last_2 = snapshot.get(&data, &last_key)?;
    let count_2 = snapshot.len(&data)?;

    eprintln!(
        "batch seqno={batch_seqno}, visible before={visible_before}, visible after major_compact={visible_after_compaction}, snapshot instant={}",
        snapshot.seqno(),
    );
    eprintln!("first read : last key = {last_1:?}, count = {count_1}");
    eprintln!("second read: last key = {last_2:?}, count = {count_2}");

    // make sure the schedule was the intended one (otherwise the test is void, not passed)
    assert!(
        last_1.is_none(),
        "schedule not reached: batch finished before the snapshot was read"
    );

    // C05: repeated reads give identical answers, scans never include later writes
    assert_eq!(
        last_1, last_2,
        "snapshot point read changed while the snapshot was alive"
    );
    assert_eq!(
        count_1, count_2,
        "snapshot scan changed while the snapshot was alive"
    );

    Ok(())
}

/// Same history, but without the version upgrade in the other keyspace: the snapshot taken while
/// the batch is in flight has an instant <= batch seqno and never sees any of it.
#[test]
fn sanity_snapshot_during_in_flight_batch_without_version_upgrade() -> fjall::Result<()> {
    let folder = tempfile::tempdir()?;
    let db = Database::builder(&folder).open()?;
    let data = db.keyspace("data", KeyspaceCreateOptions::default)?;
    let other = db.keyspace("other", KeyspaceCreateOptions::default)?;

    other.insert("a", "1")?;
    other.rotate_memtable_and_wait()?;
    other.insert("b", "2")?;
    other.rotate_memtable_and_wait()?;

    let mut batch = db.batch();
    for i in 0..BATCH_ITEMS {
        batch.insert(&data, key(i), "v");
    }
    let last_key = key(BATCH_ITEMS - 1);

    let writer = std::thread::spawn(move || batch.commit());

    spin_until("batch is being applied", || data.approximate_len() > 0);

    let snapshot = db.snapshot();

    let last_1 = snapshot.get(&data, &last_key)?;
    let count_1 = snapshot.len(&data)?;

    writer.join().expect("writer panicked")?;

    let last_2 = snapshot.get(&data, &last_key)?;
    let count_2 = snapshot.len(&data)?;

    assert!(last_1.is_none());
    assert_eq!(last_1, last_2);
    assert_eq!(0, count_1);
    assert_eq!(0, count_2);

    assert_eq!(BATCH_ITEMS, db.snapshot().len(&data)?);

    Ok(())
}

/// Public API only (plus the `db.seqno()` test hook to detect the schedule):
/// thread W runs `Keyspace::insert` of one big value (seqno S taken, journal write in progress,
/// memtable insert not done yet); the main thread calls `Database::keyspace` for a new name.
/// Creating a keyspace ingests into the meta keyspace, which shares the seqno generator and the
/// visible seqno and upgrades its version *without holding the journal lock*:
/// visible becomes V + 1 > S. The snapshot opened now does not see the key - and sees it later.
#[test]
fn fail_snapshot_sees_in_flight_insert_after_keyspace_create() -> fjall::Result<()> {
    let folder = tempfile::tempdir()?;
    let db = Database::builder(&folder).open()?;
    let data = db.keyspace("data", KeyspaceCreateOptions::default)?;

    data.insert("small", "old")?;

    let big = vec![0xABu8; 192 * 1_024 * 1_024];
    let big_len = big.len();

    let seqno_before = db.seqno();

    let writer = {
        let data = data.clone();
        std::thread::spawn(move || data.insert("big", big))
    };

    // W holds the journal lock and has taken seqno S = seqno_before
    spin_until("writer took its seqno", || db.seqno() > seqno_before);

    // any version upgrade that does not go through the journal lock publishes S
    let _fresh = db.keyspace("fresh", KeyspaceCreateOptions::default)?;

    let snapshot = db.snapshot();
    let read_1 = snapshot.get(&data, "big")?.map(|v| v.len());
    let contains_1 = snapshot.contains_key(&data, "big")?;
    let count_1 = snapshot.len(&data)?;

    writer.join().expect("writer panicked")?;

    let read_2 = snapshot.get(&data, "big")?.map(|v| v.len());
    let contains_2 = snapshot.contains_key(&data, "big")?;
    let count_2 = snapshot.len(&data)?;

    eprintln!(
        "insert seqno={seqno_before}, snapshot instant={}",
        snapshot.seqno()
    );
    eprintln!("first read : {read_1:?} contains={contains_1} count={count_1}");
    eprintln!("second read: {read_2:?} contains={contains_2} count={count_2}");

    assert!(
        read_1.is_none(),
        "schedule not reached: insert finished before the snapshot was read"
    );
    let _ = big_len;

    assert_eq!(read_1, read_2, "snapshot.get changed");
    assert_eq!(contains_1, contains_2, "snapshot.contains_key changed");
    assert_eq!(count_1, count_2, "snapshot.len changed");

    Ok(())
}

#[test]
fn sanity_snapshot_during_in_flight_insert_without_keyspace_create() -> fjall::Result<()> {
    let folder = tempfile::tempdir()?;
    let db = Database::builder(&folder).open()?;
    let data = db.keyspace("data", KeyspaceCreateOptions::default)?;
    let _fresh = db.keyspace("fresh", KeyspaceCreateOptions::default)?;

    data.insert("small", "old")?;

    let big = vec![0xABu8; 192 * 1_024 * 1_024];

    let seqno_before = db.seqno();

    let writer = {
        let data = data.clone();
        std::thread::spawn(move || data.insert("big", big))
    };

    spin_until("writer took its seqno", || db.seqno() > seqno_before);

    let snapshot = db.snapshot();
    let read_1 = snapshot.get(&data, "big")?.map(|v| v.len());
    let count_1 = snapshot.len(&data)?;

    writer.join().expect("writer panicked")?;

    let read_2 = snapshot.get(&data, "big")?.map(|v| v.len());
    let count_2 = snapshot.len(&data)?;

    assert_eq!(None, read_1);
    assert_eq!(read_1, read_2);
    assert_eq!(1, count_1);
    assert_eq!(1, count_2);

    Ok(())
}

/// No hook drives the maintenance step here: the version upgrade comes from the *background flush
/// worker* flushing a memtable of another keyspace. The views are a snapshot and plain
/// `Keyspace::iter()` / `Keyspace::range()` iterators.
///
/// schedule: `other` memtable rotated (flush queued, takes a while) -> batch.commit() takes the
/// journal lock and seqno S and starts applying -> flush worker registers its table with
/// seqno V > S and publishes visible = V + 1 -> views opened -> commit finishes.
#[test]
fn fail_snapshot_and_iter_see_in_flight_batch_after_background_flush() -> fjall::Result<()> {
    use fjall::AbstractTree;

    let folder = tempfile::tempdir()?;
    let db = Database::builder(&folder).open()?;
    let data = db.keyspace("data", KeyspaceCreateOptions::default)?;
    let other = db.keyspace("other", KeyspaceCreateOptions::default)?;

    // ~48 MB of incompressible data in the memtable of `other`, so its flush takes a moment
    {
        let mut x = 0x2545_F491_4F6C_DD1Du64;
        for i in 0..48 {
            let v = (0..1_024 * 1_024)
                .map(|_| {
                    x ^= x << 13;
                    x ^= x >> 7;
                    x ^= x << 17;
                    x as u8
                })
                .collect::<Vec<u8>>();
            other.insert(key(i), v)?;
        }
    }

    let mut batch = db.batch();
    for i in 0..BATCH_ITEMS {
        batch.insert(&data, key(i), "v");
    }
    let first_key = key(0);
    let last_key = key(BATCH_ITEMS - 1);

    let tables_before = other.table_count();
    let seqno_before = db.seqno();

    // queue the flush of `other` for the background worker (does not wait, takes no seqno)
    assert!(other.rotate_memtable()?);

    // commit() takes the journal lock and its seqno right away
    let writer = std::thread::spawn(move || batch.commit());

    // the background flush worker registers its table while the batch is in flight
    spin_until("background flush done", || {
        other.table_count() > tables_before
    });

    let snapshot = db.snapshot();
    let iter = data.iter();
    let range = data.range(key(0)..);

    let first_1 = snapshot.get(&data, &first_key)?;
    let last_1 = snapshot.get(&data, &last_key)?;
    let count_1 = snapshot.len(&data)?;

    writer.join().expect("writer panicked")?;

    let first_2 = snapshot.get(&data, &first_key)?;
    let last_2 = snapshot.get(&data, &last_key)?;
    let count_2 = snapshot.len(&data)?;
    let iter_count = iter.count();
    let range_count = range.count();

    // which seqno did the batch get? (raw tree read at an explicit instant)
    let batch_seqno = (seqno_before..seqno_before + 10)
        .find(|s| data.tree.get(&last_key, s + 1).expect("read").is_some())
        .expect("batch seqno");

    eprintln!(
        "seqno before={seqno_before}, batch seqno={batch_seqno}, snapshot instant={}",
        snapshot.seqno()
    );
    eprintln!("first read : first key = {first_1:?}, last key = {last_1:?}, count = {count_1}");
    eprintln!("second read: first key = {first_2:?}, last key = {last_2:?}, count = {count_2}");
    eprintln!("iter/range created together with the snapshot yielded {iter_count}/{range_count} items");

    assert!(
        last_1.is_none() && batch_seqno == seqno_before,
        "schedule not reached (flush registered before the commit took its seqno, or commit finished too early)"
    );

    assert_eq!(last_1, last_2, "snapshot point read changed");
    assert_eq!(count_1, count_2, "snapshot scan changed");
    assert_eq!(
        0, iter_count,
        "iterator includes a write that was not committed when it was created"
    );
    assert_eq!(
        0, range_count,
        "range includes a write that was not committed when it was created"
    );

    Ok(())
}

/// The same defect with the commit of a write transaction (optimistic flavour) as the in-flight
/// write and a read transaction as the view. (`write_tx()` itself cannot be opened while another
/// transaction commits, it waits for the oracle lock; `read_tx()` does not.)
#[test]
fn fail_read_tx_sees_in_flight_tx_commit() -> fjall::Result<()> {
    let folder = tempfile::tempdir()?;
    let db = OptimisticTxDatabase::builder(&folder).open()?;
    let data = db.keyspace("data", KeyspaceCreateOptions::default)?;
    let other = db.keyspace("other", KeyspaceCreateOptions::default)?;

    other.insert("a", "1")?;
    other.inner().rotate_memtable_and_wait()?;
    other.insert("b", "2")?;
    other.inner().rotate_memtable_and_wait()?;

    let last_key = key(BATCH_ITEMS - 1);

    let writer = {
        let db = db.clone();
        let data = data.clone();
        std::thread::spawn(move || -> fjall::Result<()> {
            let mut tx = db.write_tx()?;
            for i in 0..BATCH_ITEMS {
                tx.insert(&data, key(i), "v");
            }
            tx.commit()?.expect("no conflict possible");
            Ok(())
        })
    };

    spin_until("commit is being applied", || data.approximate_len() > 0);

    other.inner().major_compact()?;

    let view = db.read_tx();

    let last_1 = view.get(&data, &last_key)?;
    let count_1 = view.len(&data)?;

    writer.join().expect("writer panicked")?;

    let last_2 = view.get(&data, &last_key)?;
    let count_2 = view.len(&data)?;

    eprintln!("first read : last key = {last_1:?}, count = {count_1}");
    eprintln!("second read: last key = {last_2:?}, count = {count_2}");

    assert!(last_1.is_none(), "schedule not reached");
    assert_eq!(last_1, last_2, "read_tx point read changed");
    assert_eq!(count_1, count_2, "read_tx scan changed");

    Ok(())
}

// ---------------------------------------------------------------------------------------------
// Candidate histories that did NOT violate the property (all pass)
// ---------------------------------------------------------------------------------------------

/// Runs the snapshot tracker GC (pullup + gc) and the version-history maintenance of every
/// keyspace, the way a memtable rotation does it.
fn force_gc(db: &Database) -> fjall::Result<()> {
    let aux = db.keyspace("gc_aux", KeyspaceCreateOptions::default)?;
    aux.insert("x", "x")?;
    aux.rotate_memtable_and_wait()?;
    Ok(())
}

fn dump(view: &impl Readable, ks: &fjall::Keyspace) -> fjall::Result<Vec<(Vec<u8>, Vec<u8>)>> {
    let mut v = vec![];
    for g in view.iter(ks) {
        let (k, val) = g.into_inner()?;
        v.push((k.to_vec(), val.to_vec()));
    }
    Ok(v)
}

/// Two snapshots + one iterator opened at the same instant, closed in different orders, with
/// tracker GC, flush, version-history GC and major compaction in between.
#[test]
fn cand_same_instant_views_closed_in_any_order_with_gc() -> fjall::Result<()> {
    let folder = tempfile::tempdir()?;
    let db = Database::builder(&folder).open()?;
    let ks = db.keyspace("data", KeyspaceCreateOptions::default)?;

    for i in 0..100 {
        ks.insert(key(i), "v0")?;
    }

    let s1 = db.snapshot();
    let s2 = db.snapshot();
    let s3 = s1.clone();
    let it = ks.iter();
    assert_eq!(s1.seqno(), s2.seqno());
    let expected = dump(&s1, &ks)?;

    for round in 0..5 {
        for i in 0..100 {
            if i % 3 == 0 {
                ks.remove(key(i))?;
            } else {
                ks.insert(key(i), format!("v{}", round + 1))?;
            }
        }
        ks.insert(key(1000 + round), "new")?;

        ks.rotate_memtable_and_wait()?;
        force_gc(&db)?;
        ks.major_compact()?;

        match round {
            0 => drop(s1.clone()),
            1 => {
                // close one view while the others at the same instant keep reading
                let s = db.snapshot();
                drop(s);
            }
            _ => {}
        }
        assert_eq!(expected, dump(&s2, &ks)?);
        assert_eq!(expected, dump(&s3, &ks)?);
    }

    drop(s1);
    force_gc(&db)?;
    ks.insert("zzz", "zzz")?;
    ks.rotate_memtable_and_wait()?;
    ks.major_compact()?;
    assert_eq!(expected, dump(&s2, &ks)?);

    drop(s2);
    force_gc(&db)?;
    ks.insert("zzzz", "zzz")?;
    ks.rotate_memtable_and_wait()?;
    ks.major_compact()?;
    assert_eq!(expected, dump(&s3, &ks)?);

    // the iterator was created at the same instant and is consumed only now
    let mut got = vec![];
    for g in it {
        let (k, v) = g.into_inner()?;
        got.push((k.to_vec(), v.to_vec()));
    }
    assert_eq!(expected, got);

    Ok(())
}

/// Snapshot held across clear + new writes + flush + compaction
#[test]
fn cand_snapshot_across_clear() -> fjall::Result<()> {
    let folder = tempfile::tempdir()?;
    let db = Database::builder(&folder).open()?;
    let ks = db.keyspace("data", KeyspaceCreateOptions::default)?;

    for i in 0..50 {
        ks.insert(key(i), "disk")?;
    }
    ks.rotate_memtable_and_wait()?;
    for i in 25..75 {
        ks.insert(key(i), "mem")?;
    }

    let snap = db.snapshot();
    let it = ks.range(key(10)..key(60));
    let expected = dump(&snap, &ks)?;
    assert_eq!(75, expected.len());

    ks.clear()?;
    assert_eq!(expected, dump(&snap, &ks)?);

    for i in 0..200 {
        ks.insert(key(i), "after")?;
    }
    assert_eq!(expected, dump(&snap, &ks)?);

    ks.rotate_memtable_and_wait()?;
    force_gc(&db)?;
    assert_eq!(expected, dump(&snap, &ks)?);

    ks.major_compact()?;
    ks.insert("x", "y")?;
    ks.rotate_memtable_and_wait()?;
    ks.major_compact()?;
    assert_eq!(expected, dump(&snap, &ks)?);
    assert_eq!(50, it.count());

    let snap2 = db.snapshot();
    ks.clear()?;
    ks.clear()?;
    assert_eq!(201, snap2.len(&ks)?);
    assert_eq!(expected, dump(&snap, &ks)?);
    assert_eq!(0, db.snapshot().len(&ks)?);

    Ok(())
}

/// Snapshot held across bulk ingestion (ingested tables get a later seqno)
#[test]
fn cand_snapshot_across_ingestion() -> fjall::Result<()> {
    let folder = tempfile::tempdir()?;
    let db = Database::builder(&folder).open()?;
    let ks = db.keyspace("data", KeyspaceCreateOptions::default)?;

    for i in (0..100).step_by(2) {
        ks.insert(key(i), "old")?;
    }

    let snap = db.snapshot();
    let it = ks.iter();
    let expected = dump(&snap, &ks)?;

    let mut ing = ks.start_ingestion()?;
    for i in 0..100 {
        if i % 4 == 0 {
            ing.write_tombstone(key(i))?;
        } else {
            ing.write(key(i), "ingested")?;
        }
    }
    ing.finish()?;

    assert_eq!(expected, dump(&snap, &ks)?);
    assert_eq!(75, db.snapshot().len(&ks)?);

    ks.major_compact()?;
    ks.insert("zz", "zz")?;
    ks.rotate_memtable_and_wait()?;
    ks.major_compact()?;

    assert_eq!(expected, dump(&snap, &ks)?);
    assert_eq!(50, it.count());

    Ok(())
}

/// KV-separated keyspace: snapshot must keep reading old blobs across overwrite + flush +
/// major compaction (blob GC / blob file deletion)
#[test]
fn cand_kv_separated_snapshot_across_blob_gc() -> fjall::Result<()> {
    let folder = tempfile::tempdir()?;
    let db = Database::builder(&folder).open()?;
    let ks = db.keyspace("data", || {
        KeyspaceCreateOptions::default().with_kv_separation(Some(
            KvSeparationOptions::default()
                .separation_threshold(100)
                .staleness_threshold(0.01)
                .age_cutoff(1.0),
        ))
    })?;

    for i in 0..200 {
        ks.insert(key(i), format!("{i}-").repeat(200))?;
    }
    ks.rotate_memtable_and_wait()?;
    assert!(ks.blob_file_count() > 0);

    let snap = db.snapshot();
    let it = ks.iter();
    let expected = dump(&snap, &ks)?;

    for round in 0..3 {
        for i in 0..200 {
            if i % 2 == 0 {
                ks.insert(key(i), format!("new{round}-{i}-").repeat(200))?;
            } else {
                ks.remove(key(i))?;
            }
        }
        ks.rotate_memtable_and_wait()?;
        force_gc(&db)?;
        ks.major_compact()?;
        ks.major_compact()?;
        assert_eq!(expected, dump(&snap, &ks)?);
    }

    let mut got = vec![];
    for g in it {
        let (k, v) = g.into_inner()?;
        got.push((k.to_vec(), v.to_vec()));
    }
    assert_eq!(expected, got);

    Ok(())
}

/// A snapshot at instant 0 (fresh db) together with later snapshots: the tracker's gc() uses 0
/// as "no lowest yet" sentinel. A view at instant 0 sees nothing, before and after.
#[test]
fn cand_snapshot_at_instant_zero_and_gc_sentinel() -> fjall::Result<()> {
    let folder = tempfile::tempdir()?;
    let db = Database::builder(&folder).open()?;

    let s0 = db.snapshot();

    let ks = db.keyspace("data", KeyspaceCreateOptions::default)?;
    ks.insert("a", "1")?;
    ks.insert("a", "2")?;
    let s1 = db.snapshot();
    ks.insert("a", "3")?;
    ks.insert("a", "4")?;
    let s2 = db.snapshot();
    ks.insert("a", "5")?;

    for _ in 0..3 {
        force_gc(&db)?;
        ks.rotate_memtable_and_wait()?;
        ks.major_compact()?;
        ks.insert("b", "b")?;

        assert_eq!(None, s0.get(&ks, "a")?);
        assert_eq!(Some("2".as_bytes().into()), s1.get(&ks, "a")?);
        assert_eq!(Some("4".as_bytes().into()), s2.get(&ks, "a")?);
        assert_eq!(0, s0.len(&ks)?);
        assert_eq!(1, s1.len(&ks)?);
    }

    Ok(())
}

/// 10_000 closes trigger the automatic tracker GC while older views are open
#[test]
fn cand_automatic_gc_after_10k_closes() -> fjall::Result<()> {
    let folder = tempfile::tempdir()?;
    let db = Database::builder(&folder).open()?;
    let ks = db.keyspace("data", KeyspaceCreateOptions::default)?;

    ks.insert("a", "old")?;
    let old = db.snapshot();
    let old_iter = ks.iter();

    for i in 0..25_000 {
        if i % 100 == 0 {
            ks.insert("a", format!("v{i}"))?;
        }
        // every one of these registers and unregisters a nonce
        let _ = ks.first_key_value();
    }
    assert!(db.supervisor.snapshot_tracker.get_seqno_safe_to_gc() < old.seqno());

    ks.rotate_memtable_and_wait()?;
    ks.major_compact()?;
    assert_eq!(Some("old".as_bytes().into()), old.get(&ks, "a")?);

    let (_, v) = old_iter.into_iter().next().expect("item").into_inner()?;
    assert_eq!(&*v, b"old");

    Ok(())
}

/// Read views of write transactions (both flavours), overlapping, opened at the same instant,
/// other commits + maintenance in between, closed in any order
#[test]
fn cand_write_tx_read_views() -> fjall::Result<()> {
    {
        let folder = tempfile::tempdir()?;
        let db = OptimisticTxDatabase::builder(&folder).open()?;
        let ks = db.keyspace("data", KeyspaceCreateOptions::default)?;
        ks.insert("a", "0")?;
        ks.insert("b", "0")?;

        let mut tx1 = db.write_tx()?;
        let mut tx2 = db.write_tx()?;
        let rtx = db.read_tx();

        tx1.insert(&ks, "a", "tx1");
        tx1.insert(&ks, "c", "tx1");

        assert_eq!(Some("0".as_bytes().into()), tx2.get(&ks, "a")?);
        tx1.commit()?.expect("no conflict");

        ks.inner().rotate_memtable_and_wait()?;
        force_gc(db.inner())?;
        ks.inner().major_compact()?;
        ks.insert("d", "later")?;
        ks.inner().rotate_memtable_and_wait()?;
        ks.inner().major_compact()?;

        assert_eq!(Some("0".as_bytes().into()), tx2.get(&ks, "a")?);
        assert_eq!(None, tx2.get(&ks, "c")?);
        assert_eq!(2, tx2.len(&ks)?);
        assert_eq!(2, rtx.len(&ks)?);
        tx2.insert(&ks, "zz", "zz");
        assert_eq!(3, tx2.len(&ks)?);
        drop(rtx);
        force_gc(db.inner())?;
        ks.insert("e", "later")?;
        ks.inner().rotate_memtable_and_wait()?;
        ks.inner().major_compact()?;
        assert_eq!(3, tx2.len(&ks)?);
        assert_eq!(Some("0".as_bytes().into()), tx2.get(&ks, "b")?);
    }

    {
        let folder = tempfile::tempdir()?;
        let db = SingleWriterTxDatabase::builder(&folder).open()?;
        let ks = db.keyspace("data", KeyspaceCreateOptions::default)?;
        ks.insert("a", "0")?;
        ks.insert("b", "0")?;

        let rtx = db.read_tx();
        let rtx2 = db.read_tx();
        {
            let mut tx = db.write_tx();
            tx.insert(&ks, "a", "tx");
            tx.remove(&ks, "b");
            let it = tx.iter(&ks);
            tx.insert(&ks, "c", "tx");
            assert_eq!(1, it.count());
            tx.commit()?;
        }
        drop(rtx2);
        ks.inner().rotate_memtable_and_wait()?;
        force_gc(db.inner())?;
        ks.inner().major_compact()?;

        assert_eq!(Some("0".as_bytes().into()), rtx.get(&ks, "a")?);
        assert_eq!(Some("0".as_bytes().into()), rtx.get(&ks, "b")?);
        assert_eq!(2, rtx.len(&ks)?);
    }

    Ok(())
}

/// Keyspace deleted and re-created under the same name while a snapshot + iterator live
#[test]
fn cand_snapshot_across_keyspace_delete_and_recreate() -> fjall::Result<()> {
    let folder = tempfile::tempdir()?;
    let db = Database::builder(&folder).open()?;
    let ks = db.keyspace("data", KeyspaceCreateOptions::default)?;

    for i in 0..100 {
        ks.insert(key(i), "v")?;
    }
    ks.rotate_memtable_and_wait()?;
    ks.insert(key(100), "v")?;

    let snap = db.snapshot();
    let it = ks.iter();
    let expected = dump(&snap, &ks)?;

    db.delete_keyspace(ks.clone())?;
    let ks2 = db.keyspace("data", KeyspaceCreateOptions::default)?;
    ks2.insert(key(5), "other")?;
    ks2.rotate_memtable_and_wait()?;
    force_gc(&db)?;

    assert_eq!(expected, dump(&snap, &ks)?);
    assert_eq!(0, snap.len(&ks2)?);
    assert_eq!(101, it.count());

    Ok(())
}

/// PUBLIC API ONLY, no hooks, no forced schedule: one writer commits small batches that always set
/// `x` and `y` to the same number; the keyspace has a small memtable so that the background
/// workers flush (and compact) all the time; reader threads open a snapshot and read
/// x, y, x, y through it.
///
/// Returns (non-repeatable reads, torn pairs, snapshots taken).
fn stress(max_memtable_size: u64, secs: u64) -> fjall::Result<(u64, u64, u64)> {
    use std::sync::atomic::{AtomicBool, Ordering};
    use std::sync::Arc;

    let folder = tempfile::tempdir()?;
    let db = Database::builder(&folder).open()?;
    let ks = db.keyspace("data", || {
        KeyspaceCreateOptions::default().max_memtable_size(max_memtable_size)
    })?;

    let stop = Arc::new(AtomicBool::new(false));

    let mut b = db.batch();
    b.insert(&ks, "x", 0u64.to_be_bytes());
    b.insert(&ks, "y", 0u64.to_be_bytes());
    b.commit()?;

    let writer = {
        let db = db.clone();
        let ks = ks.clone();
        let stop = stop.clone();
        std::thread::spawn(move || -> fjall::Result<()> {
            let mut i = 1u64;
            while !stop.load(Ordering::Relaxed) {
                let mut b = db.batch();
                b.insert(&ks, "x", i.to_be_bytes());
                b.insert(&ks, format!("pad{i:010}"), vec![7u8; 200]);
                b.insert(&ks, "y", i.to_be_bytes());
                b.commit()?;
                i += 1;
            }
            Ok(())
        })
    };

    let readers = (0..4)
        .map(|_| {
            let db = db.clone();
            let ks = ks.clone();
            let stop = stop.clone();
            std::thread::spawn(move || -> fjall::Result<(u64, u64, u64)> {
                let (mut unrepeatable, mut torn, mut total) = (0, 0, 0);
                while !stop.load(Ordering::Relaxed) {
                    let s = db.snapshot();
                    let x1 = s.get(&ks, "x")?;
                    let y1 = s.get(&ks, "y")?;
                    std::thread::yield_now();
                    let x2 = s.get(&ks, "x")?;
                    let y2 = s.get(&ks, "y")?;
                    total += 1;
                    if x1 != x2 || y1 != y2 {
                        unrepeatable += 1;
                    }
                    if x1 != y1 || x2 != y2 {
                        torn += 1;
                    }
                }
                Ok((unrepeatable, torn, total))
            })
        })
        .collect::<Vec<_>>();

    std::thread::sleep(Duration::from_secs(secs));
    stop.store(true, Ordering::Relaxed);

    writer.join().expect("writer panicked")?;
    let (mut unrepeatable, mut torn, mut total) = (0, 0, 0);
    for r in readers {
        let (u, t, n) = r.join().expect("reader panicked")?;
        unrepeatable += u;
        torn += t;
        total += n;
    }
    eprintln!(
        "max_memtable_size={max_memtable_size}: {total} snapshots, {unrepeatable} with non-repeatable reads, {torn} with a torn (x != y) pair, {} tables",
        ks.table_count(),
    );
    Ok((unrepeatable, torn, total))
}

/// FAILS: with background flushes going on, snapshots see half-applied batches
#[test]
fn fail_stress_public_api_snapshots_vs_batches_with_background_flushes() -> fjall::Result<()> {
    let (unrepeatable, torn, _) = stress(64 * 1_024, 8)?;
    assert_eq!(
        (0, 0),
        (unrepeatable, torn),
        "(snapshots with non-repeatable reads, snapshots that saw x != y)"
    );
    Ok(())
}

/// PASSES: same load, but the memtable never fills up, so no version upgrade ever races a batch
#[test]
fn sanity_stress_public_api_snapshots_vs_batches_without_flushes() -> fjall::Result<()> {
    let (unrepeatable, torn, total) = stress(4 * 1_024 * 1_024 * 1_024, 8)?;
    assert!(total > 1_000);
    assert_eq!((0, 0), (unrepeatable, torn));
    Ok(())
}
