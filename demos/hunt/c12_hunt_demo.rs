// cp hunt_demo.rs <worktree>/tests/ && CARGO_TARGET_DIR=/tmp/hunt-C12/target cargo test --offline --test hunt_demo -- --nocapture --test-threads=1
//
// Property C12 (keyspaces are isolated, a deleted keyspace never comes back).
//
// Root cause shared by the two primary failing tests: a keyspace is identified by its NAME
// where it has to be identified by its internal ID / handle identity:
//
//  * `Database::delete_keyspace(handle)` (src/db.rs) removes whatever keyspace currently owns
//    `handle.name` from the meta keyspace and from the name dictionary
//    (`MetaKeyspace::remove_keyspace(&handle.name)`), but sets `is_deleted` on the handle that was
//    passed in. If `handle` belongs to an already deleted keyspace whose name has been re-created,
//    the NEW keyspace is unregistered, while its own handles are never marked deleted.
//
//  * `impl PartialEq/Hash for Keyspace` (src/keyspace/mod.rs) compare the name only, and
//    `BaseTransaction::memtables: HashMap<Keyspace, Arc<Memtable>>` (src/tx/write_tx.rs) is keyed by it:
//    inside one transaction the handle of a deleted keyspace and the handle of the keyspace re-created
//    under the same name share one write set, which is committed to whichever handle was used first.
//
// FAILING on unchanged code:   stale_handle_delete_unregisters_recreated_keyspace
//                              tx_write_through_deleted_handle_lands_in_recreated_keyspace
//                              tx_write_to_recreated_keyspace_is_diverted_into_deleted_one
// FAILING (secondary, weaker): deleted_keyspace_files_pinned_by_sealed_journal   (~15 s, writes 66 MB)
// PASSING sanity variants:     sanity_*

use fjall::{Database, Keyspace, KeyspaceCreateOptions, Readable, SingleWriterTxDatabase};

fn dump(ks: &Keyspace) -> Vec<(String, String)> {
    ks.iter()
        .map(|g| {
            let (k, v) = g.into_inner().unwrap();
            (
                String::from_utf8_lossy(&k).to_string(),
                String::from_utf8_lossy(&v).to_string(),
            )
        })
        .collect()
}

// ---------------------------------------------------------------------------------------------
// 1. delete_keyspace through a second handle of an already deleted keyspace
// ---------------------------------------------------------------------------------------------

/// History (two components both "reset" keyspace "a", each with the handle it got from `db.keyspace("a")`):
///   h1 = keyspace("a"); h2 = h1.clone()
///   delete_keyspace(h1)             -- "a" (id 1) is deleted
///   new = keyspace("a")             -- re-created, id 2, empty
///   new.insert(..)
///   delete_keyspace(h2)             -- h2 is a handle of the keyspace that is ALREADY deleted
///
/// Whatever the intended meaning of the last call is (no-op because id 1 is gone already, or "delete the
/// keyspace currently called a"), the observed outcome violates C12:
///   - the name "a" no longer exists, yet inserts through `new` are NOT refused (acknowledged with Ok),
///   - the files of id 2 do NOT disappear when its last handle is dropped,
///   - after a reopen "a" and everything acknowledged into it is gone:
///     an operation on the (dead) keyspace id 1 changed the content of keyspace id 2.
#[test]
fn stale_handle_delete_unregisters_recreated_keyspace() -> fjall::Result<()> {
    let folder = tempfile::tempdir()?;
    let new_path;

    {
        let db = Database::builder(&folder).open()?;

        let h1 = db.keyspace("a", KeyspaceCreateOptions::default)?;
        let h2 = h1.clone();
        h1.insert("old", "old")?;

        db.delete_keyspace(h1)?;
        assert!(!db.keyspace_exists("a"));

        let new = db.keyspace("a", KeyspaceCreateOptions::default)?;
        assert_ne!(new.id(), h2.id());
        assert!(new.is_empty()?);
        new.insert("n1", "v1")?;
        new_path = new.path().to_path_buf();

        // the keyspace h2 refers to (id 1) has been deleted before
        assert!(matches!(h2.insert("x", "x"), Err(fjall::Error::KeyspaceDeleted)));
        db.delete_keyspace(h2)?;

        let exists = db.keyspace_exists("a");
        let insert_result = new.insert("n2", "v2");
        eprintln!("keyspace_exists(a) = {exists}; insert through handle of id 2 = {insert_result:?}");

        // Either the re-created keyspace is still there ...
        // ... or it was deleted, and then its handles have to refuse writes
        assert!(
            exists || matches!(insert_result, Err(fjall::Error::KeyspaceDeleted)),
            "name 'a' is gone, but the handle of the keyspace that owned it still accepts writes",
        );

        drop(new);
        assert!(
            exists || !new_path.try_exists()?,
            "name 'a' is gone and the last handle was dropped, but the files are still there",
        );
    }

    {
        let db = Database::builder(&folder).open()?;
        assert!(db.keyspace_exists("a"), "re-created keyspace 'a' is gone after reopen");
        let a = db.keyspace("a", KeyspaceCreateOptions::default)?;
        assert_eq!(
            vec![
                ("n1".to_string(), "v1".to_string()),
                ("n2".to_string(), "v2".to_string())
            ],
            dump(&a),
        );
    }

    Ok(())
}

/// Same as above up to the second delete: shows the end state in detail (this is what the code does today).
/// Kept as a failing test as well: acknowledged writes of keyspace id 2 are lost by a delete aimed at id 1.
#[test]
fn stale_handle_delete_loses_acknowledged_writes_of_other_keyspace() -> fjall::Result<()> {
    let folder = tempfile::tempdir()?;

    {
        let db = Database::builder(&folder).open()?;
        let h1 = db.keyspace("a", KeyspaceCreateOptions::default)?;
        let h2 = h1.clone();
        db.delete_keyspace(h1)?;

        let new = db.keyspace("a", KeyspaceCreateOptions::default)?;
        new.insert("n1", "v1")?;

        db.delete_keyspace(h2)?; // id 1 is already deleted

        // every one of these is acknowledged
        new.insert("n2", "v2")?;
        new.insert("n3", "v3")?;
        db.persist(fjall::PersistMode::SyncAll)?;
        assert_eq!(3, new.len()?);
    }

    let db = Database::builder(&folder).open()?;
    let a = db.keyspace("a", KeyspaceCreateOptions::default)?;
    assert_eq!(3, a.len()?, "acknowledged + synced writes into keyspace id 2 vanished");
    Ok(())
}

/// Sanity: deleting twice through two handles WITHOUT re-creating the name in between is harmless,
/// and deleting the re-created keyspace through its own handle behaves as specified.
#[test]
fn sanity_double_delete_without_recreate_and_proper_delete() -> fjall::Result<()> {
    let folder = tempfile::tempdir()?;
    {
        let db = Database::builder(&folder).open()?;
        let other = db.keyspace("other", KeyspaceCreateOptions::default)?;
        other.insert("o", "o")?;

        let h1 = db.keyspace("a", KeyspaceCreateOptions::default)?;
        let h2 = h1.clone();
        db.delete_keyspace(h1)?;
        db.delete_keyspace(h2)?; // no-op
        assert!(!db.keyspace_exists("a"));

        let new = db.keyspace("a", KeyspaceCreateOptions::default)?;
        new.insert("n1", "v1")?;
        let path = new.path().to_path_buf();
        db.delete_keyspace(new.clone())?;
        assert!(matches!(new.insert("n2", "v2"), Err(fjall::Error::KeyspaceDeleted)));
        assert!(path.try_exists()?);
        drop(new);
        assert!(!path.try_exists()?);

        let newer = db.keyspace("a", KeyspaceCreateOptions::default)?;
        assert!(newer.is_empty()?);
        newer.insert("n3", "v3")?;
    }
    {
        let db = Database::builder(&folder).open()?;
        let a = db.keyspace("a", KeyspaceCreateOptions::default)?;
        assert_eq!(vec![("n3".to_string(), "v3".to_string())], dump(&a));
        let other = db.keyspace("other", KeyspaceCreateOptions::default)?;
        assert_eq!(1, other.len()?);
    }
    Ok(())
}

// ---------------------------------------------------------------------------------------------
// 2. one transaction that touches the handle of a deleted keyspace and the re-created keyspace
// ---------------------------------------------------------------------------------------------

/// A write made through the handle of the DELETED keyspace "a" (id 1) is committed into the keyspace
/// re-created under the same name (id 2), and is durable there.
#[test]
fn tx_write_through_deleted_handle_lands_in_recreated_keyspace() -> fjall::Result<()> {
    let folder = tempfile::tempdir()?;

    {
        let db = SingleWriterTxDatabase::builder(&folder).open()?;

        let old = db.keyspace("a", KeyspaceCreateOptions::default)?;
        old.insert("old", "old")?;
        db.inner().delete_keyspace(old.inner().clone())?;

        let new = db.keyspace("a", KeyspaceCreateOptions::default)?;
        assert_ne!(old.inner().id(), new.inner().id());
        assert!(new.inner().is_empty()?);

        let mut tx = db.write_tx();
        tx.insert(&new, "n", "n");
        tx.insert(&old, "ghost", "written to the deleted keyspace");
        // read-your-own-writes already crosses over
        eprintln!("tx.get(new, ghost) = {:?}", tx.get(&new, "ghost")?);
        tx.commit()?;

        eprintln!("new = {:?}", dump(new.inner()));
        eprintln!("old = {:?}", dump(old.inner()));

        assert_eq!(
            None,
            new.get("ghost")?,
            "a write through the handle of deleted keyspace id 1 changed the content of keyspace id 2",
        );
    }

    {
        let db = Database::builder(&folder).open()?;
        let a = db.keyspace("a", KeyspaceCreateOptions::default)?;
        assert_eq!(vec![("n".to_string(), "n".to_string())], dump(&a));
    }

    Ok(())
}

/// Mirror image: the deleted handle is touched first, so the write meant for the live, re-created keyspace
/// is diverted into the deleted one (acknowledged by commit, invisible at once, gone after reopen).
#[test]
fn tx_write_to_recreated_keyspace_is_diverted_into_deleted_one() -> fjall::Result<()> {
    let folder = tempfile::tempdir()?;

    {
        let db = SingleWriterTxDatabase::builder(&folder).open()?;

        let old = db.keyspace("a", KeyspaceCreateOptions::default)?;
        db.inner().delete_keyspace(old.inner().clone())?;
        let new = db.keyspace("a", KeyspaceCreateOptions::default)?;

        let mut tx = db.write_tx();
        tx.insert(&old, "ghost", "ghost");
        tx.insert(&new, "n", "n");
        tx.commit()?;

        eprintln!("new = {:?}", dump(new.inner()));
        eprintln!("old = {:?}", dump(old.inner()));

        assert_eq!(
            Some("n".as_bytes().into()),
            new.get("n")?,
            "committed write to the live keyspace id 2 is missing (it went into deleted keyspace id 1)",
        );
    }

    Ok(())
}

/// Sanity: the same mix of handles in a plain write batch (items carry their own handle) keeps the
/// two keyspaces apart, and so do two separate transactions.
#[test]
fn sanity_batch_and_separate_txs_keep_old_and_new_apart() -> fjall::Result<()> {
    let folder = tempfile::tempdir()?;

    {
        let db = SingleWriterTxDatabase::builder(&folder).open()?;

        let old = db.keyspace("a", KeyspaceCreateOptions::default)?;
        db.inner().delete_keyspace(old.inner().clone())?;
        let new = db.keyspace("a", KeyspaceCreateOptions::default)?;

        let mut batch = db.inner().batch();
        batch.insert(new.inner(), "n", "n");
        batch.insert(old.inner(), "ghost", "ghost");
        batch.commit()?;

        let mut tx = db.write_tx();
        tx.insert(&old, "ghost2", "ghost2");
        tx.commit()?;

        let mut tx = db.write_tx();
        tx.insert(&new, "n2", "n2");
        tx.commit()?;

        assert_eq!(
            vec![
                ("n".to_string(), "n".to_string()),
                ("n2".to_string(), "n2".to_string())
            ],
            dump(new.inner()),
        );
    }

    {
        let db = Database::builder(&folder).open()?;
        let a = db.keyspace("a", KeyspaceCreateOptions::default)?;
        assert_eq!(2, a.len()?);
    }

    Ok(())
}

// ---------------------------------------------------------------------------------------------
// 3. (secondary) files of a deleted keyspace are pinned by a sealed journal
// ---------------------------------------------------------------------------------------------

fn big(i: u64) -> Vec<u8> {
    // incompressible 1 MiB
    let mut x = i.wrapping_mul(0x9E37_79B9_7F4A_7C15) | 1;
    (0..1024 * 1024)
        .map(|_| {
            x ^= x << 13;
            x ^= x >> 7;
            x ^= x << 17;
            x as u8
        })
        .collect()
}

/// "its files disappear once the last handle is dropped": a journal rotation stores a clone of the handle
/// of every keyspace with unflushed data in the sealed journal's eviction watermarks
/// (`Supervisor::build_seqno_map` -> `JournalManager::rotate_journal`). As long as that journal cannot be
/// evicted (here: keyspace "idle" is never flushed), the clone keeps `KeyspaceInner` of the deleted keyspace
/// alive, so its folder stays on disk after the user dropped the last handle - until the database is closed.
#[test]
fn deleted_keyspace_files_pinned_by_sealed_journal() -> fjall::Result<()> {
    let folder = tempfile::tempdir()?;
    let db = Database::builder(&folder).open()?;
    let idle = db.keyspace("idle", KeyspaceCreateOptions::default)?;
    let victim = db.keyspace("victim", KeyspaceCreateOptions::default)?;
    let filler = db.keyspace("filler", KeyspaceCreateOptions::default)?;

    idle.insert("i", "i")?;
    victim.insert("v", "v")?;
    for i in 0..66 {
        filler.insert(format!("f{i}"), big(i))?;
    }
    filler.rotate_memtable_and_wait()?;
    assert_eq!(2, db.journal_count(), "journal should have been rotated");

    let path = victim.path().to_path_buf();
    db.delete_keyspace(victim.clone())?;
    assert!(path.try_exists()?);
    drop(victim);

    // more maintenance rounds do not help
    filler.insert("x", "y")?;
    filler.rotate_memtable_and_wait()?;
    std::thread::sleep(std::time::Duration::from_millis(300));

    assert!(
        !path.try_exists()?,
        "all user handles of the deleted keyspace are gone, but its files are still on disk",
    );
    Ok(())
}

/// Sanity: without a sealed journal the folder disappears with the last handle.
#[test]
fn sanity_files_disappear_without_sealed_journal() -> fjall::Result<()> {
    let folder = tempfile::tempdir()?;
    let db = Database::builder(&folder).open()?;
    let idle = db.keyspace("idle", KeyspaceCreateOptions::default)?;
    let victim = db.keyspace("victim", KeyspaceCreateOptions::default)?;
    idle.insert("i", "i")?;
    victim.insert("v", "v")?;
    victim.rotate_memtable_and_wait()?;
    victim.insert("v2", "v2")?;

    let path = victim.path().to_path_buf();
    db.delete_keyspace(victim.clone())?;
    assert!(path.try_exists()?);
    drop(victim);
    std::thread::sleep(std::time::Duration::from_millis(300));
    assert!(!path.try_exists()?);
    Ok(())
}
