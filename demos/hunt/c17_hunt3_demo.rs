// CARGO_TARGET_DIR=/tmp/hunt-C17/target cargo test --offline --test hunt_demo -- --test-threads=1 --nocapture
//
// Property C17: one live instance per directory; after the last handle is dropped, background threads have
// stopped, the journal is synced, and opening succeeds.
//
// FAIL on the unchanged code:
//   MAIN       hunt_reopen_hangs_with_more_than_1000_keyspaces_with_l0_runs   (about 3 minutes; open never returns)
//   SECONDARY  hunt_temporary_database_with_surviving_keyspace_handle         (open succeeds while a keyspace handle is alive)
//              hunt_temporary_database_stale_handle_damages_new_database      (consequence of the one above)
//   SECONDARY  hunt_threads_have_stopped_after_drop                           (racy: worker threads are never joined)
// PASS (sanity / candidates that found nothing):
//   hunt_surviving_keyspace_handle_keeps_lock_and_nothing_changes, hunt_marker_bytes,
//   hunt_drop_from_threads_with_pending_work_then_reopen

use fjall::{Database, KeyspaceCreateOptions};
use std::{
    collections::BTreeMap,
    path::{Path, PathBuf},
    sync::mpsc,
    time::Duration,
};

fn snapshot_dir(root: &Path) -> BTreeMap<PathBuf, (u64, Vec<u8>)> {
    fn walk(root: &Path, dir: &Path, out: &mut BTreeMap<PathBuf, (u64, Vec<u8>)>) {
        for e in std::fs::read_dir(dir).unwrap() {
            let e = e.unwrap();
            let p = e.path();
            let rel = p.strip_prefix(root).unwrap().to_path_buf();
            if p.is_dir() {
                out.insert(rel, (u64::MAX, vec![]));
                walk(root, &p, out);
            } else {
                let bytes = std::fs::read(&p).unwrap();
                out.insert(rel, (bytes.len() as u64, bytes));
            }
        }
    }
    let mut out = BTreeMap::new();
    walk(root, root, &mut out);
    out
}

fn thread_count() -> usize {
    std::fs::read_dir("/proc/self/task").unwrap().count()
}

/// Opens the database on another thread; `None` if the open did not return within `timeout`.
fn open_with_timeout(path: &Path, timeout: Duration) -> Option<fjall::Result<Database>> {
    let (tx, rx) = mpsc::channel();
    let path = path.to_path_buf();

    std::thread::spawn(move || {
        let res = Database::builder(&path).open();
        tx.send(res).ok();
    });

    rx.recv_timeout(timeout).ok()
}

/// Two flushes of the same key per keyspace: the first table is moved down to the last level, the second one
/// overlaps it, so it stays in L0 (one run, far below the compaction threshold of 4): the normal resting state
/// of any keyspace whose keys get overwritten.
fn give_l0_run(db: &Database, handles: &[fjall::Keyspace]) -> fjall::Result<()> {
    for round in 0..2u8 {
        for ks in handles {
            ks.insert("a", [round])?;
            ks.rotate_memtable()?;
        }

        // Wait until all background work is done
        loop {
            let pending = handles
                .iter()
                .filter(|ks| ks.sealed_memtable_count() > 0)
                .count();

            if pending == 0 && db.outstanding_flushes() == 0 && db.active_compactions() == 0 {
                break;
            }
            std::thread::sleep(Duration::from_millis(20));
        }
        std::thread::sleep(Duration::from_millis(500));
    }
    Ok(())
}

fn count_l0(handles: &[fjall::Keyspace]) -> usize {
    use fjall::AbstractTree;
    handles
        .iter()
        .filter(|ks| ks.tree.l0_run_count() > 0)
        .count()
}

/// FAILS on the unchanged code (the last open never returns).
///
/// After a perfectly clean shutdown (no pending work, every handle dropped, lock released) the directory can
/// never be opened again once more than 1000 keyspaces have an L0 run (or a sealed memtable):
/// `Database::recover` sends one BLOCKING worker message per such keyspace into the worker queue
/// (`flume::bounded(1_000)`) BEFORE `worker_pool.start()`, so nobody receives, and message #1001 blocks forever.
/// The hung opener also keeps the lock file locked, so every other attempt gets `Locked`.
#[test]
fn hunt_reopen_hangs_with_more_than_1000_keyspaces_with_l0_runs() -> fjall::Result<()> {
    const N: usize = 1_000;

    let folder = tempfile::tempdir()?;

    // 1. 1000 keyspaces with one L0 run each, clean shutdown
    {
        let db = Database::builder(folder.path()).open()?;

        let mut handles = vec![];
        for i in 0..N {
            handles.push(db.keyspace(&format!("ks{i}"), KeyspaceCreateOptions::default)?);
        }
        give_l0_run(&db, &handles)?;

        eprintln!("{} of {N} keyspaces have an L0 run", count_l0(&handles));
        assert_eq!(N, count_l0(&handles));

        drop(handles);
        drop(db);
    }

    // 2. Sanity: with exactly 1000 such keyspaces the reopen works; add keyspace #1001, clean shutdown again
    {
        let start = std::time::Instant::now();
        let res = open_with_timeout(folder.path(), Duration::from_secs(120));
        assert!(res.is_some(), "open with {N} keyspaces did not return");
        let db = res.unwrap()?;
        eprintln!("open with {N} keyspaces took {:?}", start.elapsed());
        assert_eq!(N, db.keyspace_count());

        let extra = db.keyspace("one_more", KeyspaceCreateOptions::default)?;
        give_l0_run(&db, std::slice::from_ref(&extra))?;
        assert_eq!(1, count_l0(std::slice::from_ref(&extra)));

        while db.active_compactions() > 0 {
            std::thread::sleep(Duration::from_millis(20));
        }
        std::thread::sleep(Duration::from_millis(500));

        drop(extra);
        drop(db);
    }

    // 3. Every handle is gone, the lock is free, the version marker is fine: opening has to succeed
    let res = open_with_timeout(folder.path(), Duration::from_secs(120));

    assert!(
        res.is_some(),
        "open with {} keyspaces did not return within 120 seconds after the last handle was dropped",
        N + 1,
    );

    let db = res.unwrap()?;
    assert_eq!(N + 1, db.keyspace_count());

    Ok(())
}

/// PASSES. Candidate: a keyspace handle outlives the database; a second open must fail with Locked and change nothing.
#[test]
fn hunt_surviving_keyspace_handle_keeps_lock_and_nothing_changes() -> fjall::Result<()> {
    let folder = tempfile::tempdir()?;

    let db = Database::builder(&folder).worker_threads(2).open()?;
    let ks = db.keyspace("default", KeyspaceCreateOptions::default)?;
    let other = db.keyspace("other", KeyspaceCreateOptions::default)?;

    for i in 0..100u32 {
        ks.insert(i.to_be_bytes(), "abc")?;
        other.insert(i.to_be_bytes(), "abc")?;
    }
    ks.rotate_memtable()?;
    other.rotate_memtable()?;

    let base_threads = thread_count();
    drop(db);
    drop(other);

    // Writes through surviving handle
    ks.insert("x", "y")?;
    ks.rotate_memtable()?;
    ks.insert("x2", "y")?;

    let before = snapshot_dir(folder.path());

    for _ in 0..2 {
        assert!(matches!(
            Database::builder(&folder).open(),
            Err(fjall::Error::Locked)
        ));
    }
    assert!(matches!(
        fjall::SingleWriterTxDatabase::builder(&folder).open(),
        Err(fjall::Error::Locked)
    ));
    assert!(matches!(
        fjall::OptimisticTxDatabase::builder(&folder).open(),
        Err(fjall::Error::Locked)
    ));

    let after = snapshot_dir(folder.path());
    assert!(before == after, "refused open changed the directory");

    let clone = ks.clone();
    let t = std::thread::spawn(move || drop(clone));
    drop(ks);
    t.join().unwrap();

    eprintln!("threads before drop: {base_threads}, now: {}", thread_count());

    let db = Database::builder(&folder).open()?;
    let ks = db.keyspace("default", KeyspaceCreateOptions::default)?;
    assert_eq!(Some("y".as_bytes().into()), ks.get("x")?);
    assert_eq!(Some("y".as_bytes().into()), ks.get("x2")?);
    assert_eq!(102, ks.len()?);

    Ok(())
}

/// SECONDARY, FAILS on the unchanged code (racy, but fails in practically every run of 50 rounds):
/// `DatabaseInner::drop` waits for a counter that each worker decrements while it is still running
/// (`ThreadCounterGuard`), the join handles in `WorkerPool::thread_handles` are never joined. So when the drop of the
/// last handle returns, worker threads may still exist.
#[test]
fn hunt_threads_have_stopped_after_drop() -> fjall::Result<()> {
    let mut late = 0;
    let base = thread_count();

    for round in 0..50 {
        let folder = tempfile::tempdir()?;

        let db = Database::builder(&folder).worker_threads(4).open()?;
        let ks = db.keyspace("default", KeyspaceCreateOptions::default)?;
        for i in 0..10u32 {
            ks.insert(i.to_be_bytes(), "abc")?;
            ks.rotate_memtable()?;
        }
        drop(ks);
        drop(db);

        let now = thread_count();
        if now != base {
            late += 1;
            eprintln!("round {round}: {base} threads before open, {now} right after drop");
        }

        // Let stragglers finish, so rounds are independent
        while thread_count() != base {
            std::thread::sleep(Duration::from_millis(1));
        }
    }

    assert_eq!(0, late, "worker threads were still alive after drop returned");

    Ok(())
}

/// PASSES. Candidate: arbitrary version marker bytes are refused without modification.
#[test]
fn hunt_marker_bytes() -> fjall::Result<()> {
    let markers: Vec<Vec<u8>> = vec![
        vec![],
        b"F".to_vec(),
        b"FJL".to_vec(),
        b"FJL\x00".to_vec(),
        b"FJL\x01".to_vec(),
        b"FJL\x02".to_vec(),
        b"FJL\x04".to_vec(),
        b"FJL\xff".to_vec(),
        b"LSM\x03".to_vec(),
        b"fjl\x03".to_vec(),
        b"\x03FJL".to_vec(),
    ];

    for marker in markers {
        let folder = tempfile::tempdir()?;
        {
            let db = Database::builder(&folder).open()?;
            let ks = db.keyspace("default", KeyspaceCreateOptions::default)?;
            ks.insert("a", "a")?;
        }

        std::fs::write(folder.path().join("version"), &marker)?;
        let before = snapshot_dir(folder.path());

        let res = Database::builder(&folder).open();
        assert!(
            matches!(res, Err(fjall::Error::InvalidVersion(_))),
            "marker {marker:?} was not refused"
        );
        drop(res);

        let after = snapshot_dir(folder.path());
        assert!(before == after, "refused open changed the directory for {marker:?}");
    }

    // absent
    {
        let folder = tempfile::tempdir()?;
        {
            let db = Database::builder(&folder).open()?;
            let ks = db.keyspace("default", KeyspaceCreateOptions::default)?;
            ks.insert("a", "a")?;
        }
        std::fs::remove_file(folder.path().join("version"))?;
        let before = snapshot_dir(folder.path());
        let res = Database::builder(&folder).open();
        assert!(matches!(res, Err(fjall::Error::InvalidVersion(None))));
        drop(res);
        assert!(before == snapshot_dir(folder.path()));

        // absent, and lock file absent too
        std::fs::remove_file(folder.path().join("lock"))?;
        let before = snapshot_dir(folder.path());
        let res = Database::builder(&folder).open();
        assert!(matches!(res, Err(fjall::Error::InvalidVersion(None))));
        drop(res);
        assert!(before == snapshot_dir(folder.path()));
    }

    Ok(())
}

/// SECONDARY, FAILS on the unchanged code: `DatabaseInner::drop` removes the directory of a `temporary(true)`
/// database although keyspace handles (which share the lock guard) are still alive. The lock they hold is on an
/// unlinked inode then, so a second open of the directory succeeds (creates a new database) while a handle of
/// the old instance is alive.
#[test]
fn hunt_temporary_database_with_surviving_keyspace_handle() -> fjall::Result<()> {
    let folder = tempfile::tempdir()?;
    let path = folder.path().join("db");

    let db = Database::builder(&path).temporary(true).open()?;
    let ks = db.keyspace("default", KeyspaceCreateOptions::default)?;
    ks.insert("a", "a")?;
    db.delete_keyspace(ks.clone())?;
    drop(db);

    // The keyspace handle is still alive
    let res = Database::builder(&path).open();
    assert!(
        matches!(res, Err(fjall::Error::Locked)),
        "opened the directory although a keyspace handle of it is still alive",
    );

    Ok(())
}

/// Consequence of the one above (FAILS on the unchanged code): the stale handle works by path, here its drop
/// (it was deleted in the old instance) removes the folder of the NEW instance's keyspace with the same ID.
#[test]
fn hunt_temporary_database_stale_handle_damages_new_database() -> fjall::Result<()> {
    let folder = tempfile::tempdir()?;
    let path = folder.path().join("db");

    let db = Database::builder(&path).temporary(true).open()?;
    let ks = db.keyspace("default", KeyspaceCreateOptions::default)?;
    ks.insert("a", "a")?;
    db.delete_keyspace(ks.clone())?;
    drop(db);

    if let Ok(db2) = Database::builder(&path).open() {
        let ks2 = db2.keyspace("default", KeyspaceCreateOptions::default)?;
        ks2.insert("b", "b")?;
        ks2.rotate_memtable_and_wait()?;
        let ks2_path = ks2.path().to_path_buf();
        assert!(ks2_path.try_exists()?);

        drop(ks); // stale handle of the old instance

        assert!(
            ks2_path.try_exists()?,
            "dropping the old instance's keyspace handle deleted the new instance's keyspace folder",
        );
    }

    Ok(())
}

/// PASSES. Candidate: drop from several threads with queued flushes/compactions, then reopen at once.
#[test]
fn hunt_drop_from_threads_with_pending_work_then_reopen() -> fjall::Result<()> {
    for _ in 0..20 {
        let folder = tempfile::tempdir()?;

        let db = Database::builder(&folder)
            .worker_threads(2)
            .manual_journal_persist(true)
            .open()?;

        let mut keyspaces = vec![];
        for i in 0..8 {
            keyspaces.push(db.keyspace(&format!("ks{i}"), KeyspaceCreateOptions::default)?);
        }

        let mut threads = vec![];
        for (i, ks) in keyspaces.into_iter().enumerate() {
            let db = if i % 2 == 0 { Some(db.clone()) } else { None };
            threads.push(std::thread::spawn(move || {
                // NOTE: Only threads that keep the database alive seal memtables, and they do not write after
                // letting go of it: a writer with 4+ sealed memtables waits for a flush (local_backpressure),
                // which never comes once the workers are gone - it then spins forever with its own, living handle
                // (seen with an earlier version of this test; a liveness problem, but not a violation of C17)
                for j in 0..200u32 {
                    ks.insert(j.to_be_bytes(), "v").unwrap();
                    if db.is_some() && j % 20 == 0 {
                        ks.rotate_memtable().unwrap();
                    }
                }
                if db.is_some() {
                    ks.insert("last", "v").unwrap();
                    drop(db);
                } else {
                    // possibly after the database is gone
                    ks.insert("last", "v").unwrap();
                }
                drop(ks);
            }));
        }
        drop(db);

        for t in threads {
            t.join().unwrap();
        }

        let db = Database::builder(&folder).open()?;
        for i in 0..8 {
            let ks = db.keyspace(&format!("ks{i}"), KeyspaceCreateOptions::default)?;
            assert_eq!(201, ks.len()?, "journal was not synced at drop");
        }
    }

    Ok(())
}
