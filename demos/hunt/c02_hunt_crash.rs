// CARGO_TARGET_DIR=/tmp/hunt-C02/target cargo test --offline --test hunt_crash -- --ignored --nocapture --test-threads=1
//
// Supplementary: systematic crash harness (needs strace).
// The workload runs in a child process (this test binary re-executed under strace), which is SIGKILLed on
// entering its N-th call of one file-mutating system call, for every such call and every N.
// The child logs "start i"/"done i" around every operation into a file outside the database, so the parent knows
// what had been acknowledged. The parent reopens the database and compares it with the model: the state must be
// the one after `done` operations, or after `done + 1` if one more had been started.
//
// Result on the unchanged code, workload "small" (about 700 crash points): the only failing points are the ones
// inside Database::create_new (0.jnl exists, version marker does not) -> Io(AlreadyExists), see hunt_demo.rs F3.

use fjall::{Database, KeyspaceCreateOptions, KvSeparationOptions};
use std::collections::BTreeMap;
use std::io::Write;
use std::path::{Path, PathBuf};

type Model = BTreeMap<Vec<u8>, Vec<u8>>;
type State = BTreeMap<String, Model>;

#[derive(Clone, Debug)]
enum Op {
    Create(&'static str),
    CreateBlob(&'static str),
    Delete(&'static str),
    Insert(&'static str, Vec<u8>, Vec<u8>),
    Remove(&'static str, Vec<u8>),
    Batch(Vec<(&'static str, Vec<u8>, Option<Vec<u8>>)>),
    Clear(&'static str),
    Flush(&'static str),
    Compact(&'static str),
    Ingest(&'static str, Vec<(Vec<u8>, Option<Vec<u8>>)>),
}

fn big_value(i: u64) -> Vec<u8> {
    static BASE: std::sync::OnceLock<Vec<u8>> = std::sync::OnceLock::new();
    let base = BASE.get_or_init(|| {
        let mut v = vec![0u8; 1_000_000];
        let mut x = 0x9E37_79B9_7F4A_7C15_u64;
        for b in &mut v {
            x ^= x << 13;
            x ^= x >> 7;
            x ^= x << 17;
            *b = x as u8;
        }
        v
    });
    let mut v = base.clone();
    v[..8].copy_from_slice(&i.to_be_bytes());
    v
}

fn k(s: &str) -> Vec<u8> {
    s.as_bytes().to_vec()
}

fn workload(which: &str) -> Vec<Op> {
    use Op::*;
    match which {
        "small" => vec![
            Create("a"),
            Create("b"),
            Insert("a", k("k1"), k("v1")),
            Insert("b", k("k1"), k("w1")),
            Batch(vec![
                ("a", k("k2"), Some(k("v2"))),
                ("b", k("k2"), Some(k("w2"))),
                ("a", k("k1"), None),
            ]),
            Insert("a", k("big"), "abcdefgh".repeat(2_000).into_bytes()),
            Flush("a"),
            Insert("a", k("k3"), k("v3")),
            Remove("b", k("k1")),
            Clear("a"),
            Insert("a", k("k4"), k("v4")),
            Flush("b"),
            Insert("b", k("k5"), k("w5")),
            Flush("a"),
            Insert("a", k("k4"), k("v4b")),
            Remove("a", k("k4")),
            Flush("a"),
            Compact("a"),
            Delete("b"),
            Create("b"),
            Insert("b", k("k6"), k("w6")),
            Ingest("a", vec![(k("m1"), Some(k("x"))), (k("m2"), Some(k("y")))]),
            Insert("a", k("m1"), k("x2")),
            CreateBlob("c"),
            Insert("c", k("blob"), "0123456789".repeat(1_000).into_bytes()),
            Insert("c", k("small"), k("s")),
            Flush("c"),
            Remove("c", k("blob")),
            Clear("b"),
            Insert("b", k("k7"), k("w7")),
            Delete("a"),
            Insert("c", k("last"), k("z")),
        ],
        "rotation" => {
            let mut ops = vec![Create("a"), Create("b"), Insert("a", k("k1"), k("v1"))];
            for i in 0..66u64 {
                ops.push(Insert("b", i.to_be_bytes().to_vec(), big_value(i)));
            }
            ops.push(Flush("b")); // journal rotation (0.jnl is kept alive by a)
            ops.push(Insert("a", k("k2"), k("v2")));
            ops.push(Remove("a", k("k1")));
            ops.push(Flush("a")); // 0.jnl evicted
            ops.push(Insert("a", k("k3"), k("v3")));
            for i in 100..166u64 {
                ops.push(Insert("b", i.to_be_bytes().to_vec(), big_value(i)));
            }
            ops.push(Flush("b")); // 2nd journal rotation
            ops.push(Clear("a"));
            ops.push(Insert("a", k("k4"), k("v4")));
            ops.push(Insert("b", k("small"), k("w")));
            ops.push(Flush("a"));
            ops.push(Insert("a", k("k5"), k("v5")));
            ops
        }
        _ => panic!("unknown workload"),
    }
}

fn apply(state: &mut State, op: &Op) {
    match op {
        Op::Create(n) | Op::CreateBlob(n) => {
            state.entry((*n).to_string()).or_default();
        }
        Op::Delete(n) => {
            state.remove(*n);
        }
        Op::Insert(n, key, v) => {
            state.get_mut(*n).unwrap().insert(key.clone(), v.clone());
        }
        Op::Remove(n, key) => {
            state.get_mut(*n).unwrap().remove(key);
        }
        Op::Batch(items) => {
            for (n, key, v) in items {
                match v {
                    Some(v) => {
                        state.get_mut(*n).unwrap().insert(key.clone(), v.clone());
                    }
                    None => {
                        state.get_mut(*n).unwrap().remove(key);
                    }
                }
            }
        }
        Op::Clear(n) => state.get_mut(*n).unwrap().clear(),
        Op::Flush(_) | Op::Compact(_) => {}
        Op::Ingest(n, items) => {
            for (key, v) in items {
                match v {
                    Some(v) => {
                        state.get_mut(*n).unwrap().insert(key.clone(), v.clone());
                    }
                    None => {
                        state.get_mut(*n).unwrap().remove(key);
                    }
                }
            }
        }
    }
}

fn exec(db: &Database, handles: &mut BTreeMap<String, fjall::Keyspace>, op: &Op) {
    match op {
        Op::Create(n) => {
            let ks = db.keyspace(n, KeyspaceCreateOptions::default).unwrap();
            handles.insert((*n).to_string(), ks);
        }
        Op::CreateBlob(n) => {
            let ks = db
                .keyspace(n, || {
                    KeyspaceCreateOptions::default().with_kv_separation(Some(
                        KvSeparationOptions::default().separation_threshold(1_000),
                    ))
                })
                .unwrap();
            handles.insert((*n).to_string(), ks);
        }
        Op::Delete(n) => {
            let ks = handles.remove(*n).unwrap();
            db.delete_keyspace(ks).unwrap();
        }
        Op::Insert(n, key, v) => handles[*n].insert(key.clone(), v.clone()).unwrap(),
        Op::Remove(n, key) => handles[*n].remove(key.clone()).unwrap(),
        Op::Batch(items) => {
            let mut batch = db.batch();
            for (n, key, v) in items {
                match v {
                    Some(v) => batch.insert(&handles[*n], key.clone(), v.clone()),
                    None => batch.remove(&handles[*n], key.clone()),
                }
            }
            batch.commit().unwrap();
        }
        Op::Clear(n) => handles[*n].clear().unwrap(),
        Op::Flush(n) => handles[*n].rotate_memtable_and_wait().unwrap(),
        Op::Compact(n) => handles[*n].major_compact().unwrap(),
        Op::Ingest(n, items) => {
            let mut ing = handles[*n].start_ingestion().unwrap();
            for (key, v) in items {
                match v {
                    Some(v) => ing.write(key.clone(), v.clone()).unwrap(),
                    None => ing.write_tombstone(key.clone()).unwrap(),
                }
            }
            ing.finish().unwrap();
        }
    }
}

/// Child entry point: does nothing unless started by the harness.
#[test]
fn child_workload() {
    let Ok(dir) = std::env::var("HUNT_CHILD_DIR") else {
        return;
    };
    let ack = std::env::var("HUNT_ACK").unwrap();
    let which = std::env::var("HUNT_WORKLOAD").unwrap();
    let workers: usize = std::env::var("HUNT_WORKERS").unwrap().parse().unwrap();

    let mut ack = std::fs::OpenOptions::new()
        .create(true)
        .append(true)
        .open(ack)
        .unwrap();

    let db = Database::builder(&dir).worker_threads(workers).open().unwrap();
    ack.write_all(b"opened\n").unwrap();

    let mut handles = BTreeMap::new();
    for (i, op) in workload(&which).iter().enumerate() {
        ack.write_all(format!("start {i}\n").as_bytes()).unwrap();
        exec(&db, &mut handles, op);
        ack.write_all(format!("done {i}\n").as_bytes()).unwrap();
    }
    ack.write_all(b"finished\n").unwrap();
}

fn dump(ks: &fjall::Keyspace) -> Model {
    ks.iter()
        .map(|g| {
            let (k, v) = g.into_inner().unwrap();
            (k.to_vec(), v.to_vec())
        })
        .collect()
}

fn read_state(db: &Database, names: &[&str]) -> State {
    let mut state = State::new();
    for name in names {
        if db.keyspace_exists(name) {
            let ks = db.keyspace(name, KeyspaceCreateOptions::default).unwrap();
            state.insert((*name).to_string(), dump(&ks));
        }
    }
    state
}

fn summarize(state: &State) -> String {
    state
        .iter()
        .map(|(n, m)| {
            format!(
                "{n}:{{{}}}",
                m.iter()
                    .map(|(k, v)| format!(
                        "{}={}",
                        String::from_utf8_lossy(k),
                        if v.len() > 8 {
                            format!("<{}B>", v.len())
                        } else {
                            String::from_utf8_lossy(v).to_string()
                        }
                    ))
                    .collect::<Vec<_>>()
                    .join(",")
            )
        })
        .collect::<Vec<_>>()
        .join(" ")
}

struct Outcome {
    finished: bool,
    failure: Option<String>,
}

fn run_one(which: &str, syscall: &str, n: usize, workers: usize, base: &Path) -> Outcome {
    let dir: PathBuf = base.join(format!("db-{syscall}-{n}"));
    let ack: PathBuf = base.join(format!("ack-{syscall}-{n}"));
    let _ = std::fs::remove_dir_all(&dir);
    let _ = std::fs::remove_file(&ack);

    let exe = std::env::current_exe().unwrap();
    let status = std::process::Command::new("strace")
        .arg("-f")
        .arg("-o")
        .arg("/dev/null")
        .arg("-e")
        .arg(format!("trace={syscall}"))
        .arg("-e")
        .arg(format!("inject={syscall}:signal=SIGKILL:when={n}"))
        .arg(&exe)
        .arg("child_workload")
        .arg("--exact")
        .arg("--nocapture")
        .arg("--test-threads=1")
        .env("HUNT_CHILD_DIR", &dir)
        .env("HUNT_ACK", &ack)
        .env("HUNT_WORKLOAD", which)
        .env("HUNT_WORKERS", workers.to_string())
        .env_remove("RUST_LOG")
        .env_remove("LD_LIBRARY_PATH")
        .stdout(std::process::Stdio::null())
        .stderr(std::process::Stdio::null())
        .status()
        .unwrap();

    let log = std::fs::read_to_string(&ack).unwrap_or_default();
    let finished = log.lines().any(|l| l == "finished");
    let opened = log.lines().any(|l| l == "opened");
    let count = |prefix: &str| {
        log.lines()
            .filter_map(|l| l.strip_prefix(prefix))
            .filter_map(|x| x.parse::<usize>().ok())
            .max()
            .map_or(0, |x| x + 1)
    };
    let done = count("done ");
    let started = count("start ");

    if finished && status.success() {
        let _ = std::fs::remove_dir_all(&dir);
        let _ = std::fs::remove_file(&ack);
        return Outcome {
            finished: true,
            failure: None,
        };
    }

    assert!(
        !status.success(),
        "child neither finished nor was killed - is strace working?"
    );

    if !dir.exists() {
        return Outcome {
            finished: false,
            failure: None,
        };
    }

    let ops = workload(which);

    // Acceptable states: after `done` ops, or (if one more was started) after `started` ops
    let mut states = vec![State::new()];
    for op in &ops {
        let mut next = states.last().unwrap().clone();
        apply(&mut next, op);
        states.push(next);
    }
    let acceptable: Vec<State> = states[done..=started.max(done)].to_vec();

    let dir2 = dir.clone();
    let res = std::thread::spawn(move || {
        let db = Database::builder(&dir2).open()?;
        let state = read_state(&db, &["a", "b", "c"]);
        // Must stay usable
        let ks = db.keyspace("zz-after", KeyspaceCreateOptions::default)?;
        ks.insert("x", "y")?;
        drop(ks);
        drop(db);
        let db = Database::builder(&dir2).open()?;
        let state2 = read_state(&db, &["a", "b", "c"]);
        Ok::<_, fjall::Error>((state, state2))
    })
    .join();

    let failure = match res {
        Err(_) => Some(format!(
            "n={n} opened={opened} done={done} started={started}: reopen PANICKED"
        )),
        Ok(Err(e)) => Some(format!(
            "n={n} opened={opened} done={done} started={started}: reopen failed: {e:?}"
        )),
        Ok(Ok((state, state2))) => {
            if !acceptable.contains(&state) {
                Some(format!(
                    "n={n} done={done} started={started}: state after crash is not acceptable\n   got:  {}\n   want: {}",
                    summarize(&state),
                    acceptable.iter().map(summarize).collect::<Vec<_>>().join("\n     or: "),
                ))
            } else if state != state2 {
                Some(format!(
                    "n={n} done={done} started={started}: state changed over a second (clean) reopen\n   1st: {}\n   2nd: {}",
                    summarize(&state),
                    summarize(&state2),
                ))
            } else {
                None
            }
        }
    };

    if failure.is_none() {
        let _ = std::fs::remove_dir_all(&dir);
        let _ = std::fs::remove_file(&ack);
    }

    Outcome {
        finished: false,
        failure,
    }
}

fn sweep(which: &str, syscalls: &str, workers: usize, write_step: usize) {
    let base = tempfile::tempdir().unwrap();
    let base = base.keep();
    eprintln!("work dir: {}", base.display());

    let mut failures = vec![];

    // NOTE: strace counts `when=` per system call (and per thread), so every call is swept on its own
    for syscall in syscalls.split(',') {
        let mut n = 1;
        loop {
            let out = run_one(which, syscall, n, workers, &base);
            if out.finished {
                eprintln!("{syscall}: workload finishes without being killed at n={n}");
                break;
            }
            if let Some(f) = out.failure {
                eprintln!("FAIL {syscall} {f}");
                failures.push(f);
            } else if n % 25 == 0 {
                eprintln!("{syscall} n={n} ok");
            }
            n += if syscall == "write" { write_step } else { 1 };
            if n > 20_000 {
                break;
            }
        }
    }

    let _ = std::fs::remove_dir_all(&base);
    assert!(failures.is_empty(), "{} crash points failed", failures.len());
}

const ALL: &str = "fsync,openat,write,unlink,unlinkat,rename,renameat,renameat2,ftruncate,mkdir,mkdirat,rmdir,fdatasync,pwrite64,writev";
const NO_WRITE: &str = "ftruncate,unlink,renameat,unlinkat,mkdir,fsync,openat";

/// about 700 crash points, 12 minutes; only the points inside Database::create_new fail
#[test]
#[ignore]
fn sweep_small_all_syscalls() {
    sweep("small", ALL, 1, 1);
}

/// journal rotation (2 x 66 MB) - crash points in the worker thread that seals/creates/deletes journals
#[test]
#[ignore]
fn sweep_rotation() {
    sweep("rotation", NO_WRITE, 1, 1);
}
