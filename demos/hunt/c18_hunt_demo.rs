// CARGO_TARGET_DIR=/tmp/hunt-C18/target cargo test --offline --test hunt_demo -- --nocapture --test-threads=1
//
// C18: "A compaction filter factory assigned to a keyspace name through the database builder is in
// effect for exactly that keyspace ... and for no other keyspace."
//
// FAILING: `filter_leaks_into_unassigned_keyspace_via_cloned_options`
//   The assigner answers `None` for the keyspace "copy", yet "copy" runs the filter of "flt", because
//   the create options handed to `Database::keyspace` were cloned from the handle of "flt"
//   (`Keyspace::config` is a public, doc-hidden field; `KeyspaceCreateOptions: Clone` carries the
//   crate-private `compaction_filter_factory` along) and `Database::keyspace` only ever *adds* a
//   factory when the assigner answers `Some`, it never resets the field when the assigner answers `None`.
//   Kept-as-is items of "copy" are then removed / rewritten by maintenance.
//
// PASSING sanity variants (pin the cause):
//   `sanity_default_options_no_filter`         - same history, fresh default options: nothing is filtered.
//   `sanity_leaked_filter_is_gone_after_reopen` - the leaked filter is not in effect any more for the
//                                                 *recovered* "copy" (recovery consults only the assigner),
//                                                 so the very same keyspace is filtered or not depending on
//                                                 whether it was newly created or recovered.
use fjall::{Database, Keyspace, KeyspaceCreateOptions};
use lsm_tree::compaction::filter::{
    CompactionFilter, Context as CompactionFilterContext, Factory, ItemAccessor, Verdict,
};
use std::sync::Arc;

/// keep "k*", remove "d*", replace the value of "r*" by "REPL" - decided from the key only
struct KFilter;

impl CompactionFilter for KFilter {
    fn filter_item(
        &mut self,
        item: ItemAccessor<'_>,
        _ctx: &CompactionFilterContext,
    ) -> lsm_tree::Result<Verdict> {
        let k = item.key();
        if k.starts_with(b"d") {
            Ok(Verdict::Remove)
        } else if k.starts_with(b"r") {
            Ok(Verdict::ReplaceValue(b"REPL".to_vec().into()))
        } else {
            Ok(Verdict::Keep)
        }
    }
}

struct KFactory;

impl Factory for KFactory {
    fn name(&self) -> &str {
        "K"
    }

    fn make_filter(&self, _ctx: &CompactionFilterContext) -> Box<dyn CompactionFilter> {
        Box::new(KFilter)
    }
}

/// The assignment function: ONLY the keyspace named "flt" gets the filter.
fn open(folder: &std::path::Path) -> fjall::Result<Database> {
    Database::builder(folder)
        .with_compaction_filter_factories(Arc::new(|name| match name {
            "flt" => Some(Arc::new(KFactory)),
            _ => None,
        }))
        .open()
}

fn fill_and_maintain(ks: &Keyspace, suffix: &str) -> fjall::Result<()> {
    ks.insert(format!("k{suffix}"), "keep")?;
    ks.insert(format!("d{suffix}"), "x")?;
    ks.insert(format!("r{suffix}"), "orig")?;
    ks.rotate_memtable_and_wait()?;
    ks.major_compact()?;
    Ok(())
}

fn content(ks: &Keyspace) -> String {
    let mut s = String::new();
    for g in ks.iter() {
        let (k, v) = g.into_inner().unwrap();
        s.push_str(&format!(
            "{}={} ",
            String::from_utf8_lossy(&k),
            String::from_utf8_lossy(&v)
        ));
    }
    s
}

#[test]
fn filter_leaks_into_unassigned_keyspace_via_cloned_options() -> fjall::Result<()> {
    let folder = tempfile::tempdir()?;
    let db = open(folder.path())?;

    let flt = db.keyspace("flt", KeyspaceCreateOptions::default)?;

    // "same options as that other keyspace" - the assigner says None for "copy"
    let copy = db.keyspace("copy", || flt.config.clone())?;

    fill_and_maintain(&flt, "0")?;
    fill_and_maintain(&copy, "0")?;

    eprintln!("flt : {}", content(&flt));
    eprintln!("copy: {}", content(&copy));

    // the assigned keyspace is filtered, as it should be
    assert_eq!(content(&flt), "k0=keep r0=REPL ");

    // the unassigned keyspace must be untouched by maintenance - FAILS: "k0=keep r0=REPL "
    assert_eq!(
        content(&copy),
        "d0=x k0=keep r0=orig ",
        "keyspace \"copy\" has no filter assigned, but its items were removed/replaced by compaction",
    );

    Ok(())
}

#[test]
fn sanity_default_options_no_filter() -> fjall::Result<()> {
    let folder = tempfile::tempdir()?;
    let db = open(folder.path())?;

    let flt = db.keyspace("flt", KeyspaceCreateOptions::default)?;
    let copy = db.keyspace("copy", KeyspaceCreateOptions::default)?;

    fill_and_maintain(&flt, "0")?;
    fill_and_maintain(&copy, "0")?;

    assert_eq!(content(&flt), "k0=keep r0=REPL ");
    assert_eq!(content(&copy), "d0=x k0=keep r0=orig ");

    Ok(())
}

#[test]
fn sanity_leaked_filter_is_gone_after_reopen() -> fjall::Result<()> {
    let folder = tempfile::tempdir()?;

    {
        let db = open(folder.path())?;
        let flt = db.keyspace("flt", KeyspaceCreateOptions::default)?;
        let _copy = db.keyspace("copy", || flt.config.clone())?;
    }

    {
        let db = open(folder.path())?;
        let flt = db.keyspace("flt", KeyspaceCreateOptions::default)?;
        let copy = db.keyspace("copy", KeyspaceCreateOptions::default)?;

        fill_and_maintain(&flt, "1")?;
        fill_and_maintain(&copy, "1")?;

        // recovered: only the assigner counts
        assert_eq!(content(&flt), "k1=keep r1=REPL ");
        assert_eq!(content(&copy), "d1=x k1=keep r1=orig ");
    }

    Ok(())
}
