// CARGO_TARGET_DIR=/tmp/hunt-C08/target cargo test --offline --test hunt_more -- --nocapture --test-threads=1
use fjall::{KeyspaceCreateOptions, OptimisticTxDatabase, Readable, SingleWriterTxDatabase};
use std::sync::{
    atomic::{AtomicBool, Ordering},
    Arc,
};

fn keys(iter: fjall::Iter) -> Vec<Vec<u8>> {
    iter.map(|g| g.key().unwrap().to_vec()).collect()
}

/// racing single-writer read-modify-write loops, with maintenance going on
#[test]
fn single_writer_rmw_race_no_lost_update() -> fjall::Result<()> {
    let folder = tempfile::tempdir()?;
    let db = SingleWriterTxDatabase::builder(&folder).open()?;
    let tree = db.keyspace("data", KeyspaceCreateOptions::default)?;
    let other = db.keyspace("other", KeyspaceCreateOptions::default)?;
    other.insert("a", "a")?;
    other.inner().rotate_memtable_and_wait()?;
    other.insert("b", "b")?;
    other.inner().rotate_memtable_and_wait()?;

    const THREADS: u64 = 4;
    const PER: u64 = 3_000;
    let stop = Arc::new(AtomicBool::new(false));

    std::thread::scope(|s| {
        {
            let other = other.clone();
            let tree = tree.clone();
            let stop = stop.clone();
            s.spawn(move || {
                let mut i = 0;
                while !stop.load(Ordering::Relaxed) {
                    other.inner().major_compact().unwrap();
                    i += 1;
                    if i % 20 == 0 {
                        tree.inner().rotate_memtable_and_wait().unwrap();
                    }
                }
            });
        }
        let hs: Vec<_> = (0..THREADS)
            .map(|t| {
                let db = db.clone();
                let tree = tree.clone();
                s.spawn(move || {
                    for i in 0..PER {
                        match (i + t) % 3 {
                            0 => {
                                let mut tx = db.write_tx();
                                let cur = tx
                                    .get(&tree, "ctr")
                                    .unwrap()
                                    .map(|v| u64::from_be_bytes((&*v).try_into().unwrap()))
                                    .unwrap_or(0);
                                tx.insert(&tree, "ctr", (cur + 1).to_be_bytes());
                                // read back own write
                                assert_eq!(
                                    &*tx.get(&tree, "ctr").unwrap().unwrap(),
                                    (cur + 1).to_be_bytes()
                                );
                                tx.commit().unwrap();
                            }
                            1 => {
                                tree.fetch_update("ctr", |v| {
                                    let cur = v
                                        .map(|v| u64::from_be_bytes((&**v).try_into().unwrap()))
                                        .unwrap_or(0);
                                    Some((cur + 1).to_be_bytes().into())
                                })
                                .unwrap();
                            }
                            _ => {
                                tree.update_fetch("ctr", |v| {
                                    let cur = v
                                        .map(|v| u64::from_be_bytes((&**v).try_into().unwrap()))
                                        .unwrap_or(0);
                                    Some((cur + 1).to_be_bytes().into())
                                })
                                .unwrap();
                            }
                        }
                    }
                })
            })
            .collect();
        for h in hs {
            h.join().unwrap();
        }
        stop.store(true, Ordering::Relaxed);
    });

    let v = tree.get("ctr")?.unwrap();
    assert_eq!(u64::from_be_bytes((&*v).try_into().unwrap()), THREADS * PER);
    Ok(())
}

/// weak tombstones inside a tx: point reads and scans agree, last write wins
#[test]
fn weak_tombstone_in_tx() -> fjall::Result<()> {
    let folder = tempfile::tempdir()?;
    let db = SingleWriterTxDatabase::builder(&folder).open()?;
    let tree = db.keyspace("data", KeyspaceCreateOptions::default)?;
    tree.insert("a", "1")?;
    tree.insert("b", "1")?;
    tree.inner().rotate_memtable_and_wait()?;
    tree.insert("b", "2")?;
    tree.insert("c", "1")?;

    let mut tx = db.write_tx();
    tx.remove_weak(&tree, "b");
    assert!(tx.get(&tree, "b")?.is_none());
    assert!(!tx.contains_key(&tree, "b")?);
    assert_eq!(tx.size_of(&tree, "b")?, None);
    assert_eq!(keys(tx.iter(&tree)), vec![b"a".to_vec(), b"c".to_vec()]);
    assert_eq!(keys(tx.range(&tree, "b"..)), vec![b"c".to_vec()]);
    assert_eq!(
        tx.iter(&tree).rev().map(|g| g.key().unwrap().to_vec()).collect::<Vec<_>>(),
        vec![b"c".to_vec(), b"a".to_vec()]
    );
    tx.insert(&tree, "b", "3");
    tx.remove_weak(&tree, "c");
    tx.insert(&tree, "c", "4");
    tx.remove_weak(&tree, "a");
    assert_eq!(keys(tx.iter(&tree)), vec![b"b".to_vec(), b"c".to_vec()]);
    assert_eq!(tx.len(&tree)?, 2);
    tx.commit()?;
    assert_eq!(&*tree.get("b")?.unwrap(), b"3");
    assert_eq!(&*tree.get("c")?.unwrap(), b"4");
    assert!(tree.get("a")?.is_none());
    Ok(())
}

/// iterator created inside a tx keeps a stable view when the tx writes afterwards / ends
#[test]
fn iterator_outlives_tx_and_later_writes() -> fjall::Result<()> {
    let folder = tempfile::tempdir()?;
    let db = OptimisticTxDatabase::builder(&folder).open()?;
    let tree = db.keyspace("data", KeyspaceCreateOptions::default)?;
    tree.insert("a", "1")?;
    tree.insert("c", "1")?;

    let mut tx = db.write_tx()?;
    tx.insert(&tree, "b", "1");
    let it = tx.iter(&tree);
    tx.remove(&tree, "c");
    tx.insert(&tree, "d", "1");
    // new scan sees the new state
    assert_eq!(keys(tx.iter(&tree)), vec![b"a".to_vec(), b"b".to_vec(), b"d".to_vec()]);
    tx.commit()?.unwrap();
    tree.insert("e", "1")?;
    tree.inner().rotate_memtable_and_wait()?;
    tree.inner().major_compact()?;
    // old scan still sees the state at creation
    assert_eq!(keys(it), vec![b"a".to_vec(), b"b".to_vec(), b"c".to_vec()]);
    Ok(())
}

/// a transaction that stays open over flush + major compaction + snapshot gc still reads its snapshot
#[test]
fn tx_open_across_maintenance() -> fjall::Result<()> {
    let folder = tempfile::tempdir()?;
    let db = OptimisticTxDatabase::builder(&folder).open()?;
    let tree = db.keyspace("data", KeyspaceCreateOptions::default)?;
    for i in 0..100u32 {
        tree.insert(i.to_be_bytes(), "old")?;
    }
    let mut tx = db.write_tx()?;
    tx.remove(&tree, 5u32.to_be_bytes());
    tx.insert(&tree, 7u32.to_be_bytes(), "mine");

    for round in 0..3 {
        for i in 0..100u32 {
            tree.insert(i.to_be_bytes(), format!("new{round}"))?;
        }
        tree.remove(9u32.to_be_bytes())?;
        tree.inner().rotate_memtable_and_wait()?;
        tree.inner().major_compact()?;
        // churn snapshots to trigger the tracker gc
        for _ in 0..10_001 {
            drop(db.read_tx());
        }
    }

    assert_eq!(tx.len(&tree)?, 99);
    assert!(tx.get(&tree, 5u32.to_be_bytes())?.is_none());
    assert_eq!(&*tx.get(&tree, 7u32.to_be_bytes())?.unwrap(), b"mine");
    assert_eq!(&*tx.get(&tree, 9u32.to_be_bytes())?.unwrap(), b"old");
    for g in tx.iter(&tree) {
        let (k, v) = g.into_inner()?;
        if &*k == 7u32.to_be_bytes() {
            assert_eq!(&*v, b"mine");
        } else {
            assert_eq!(&*v, b"old");
        }
    }
    // this one must conflict (it read everything), and leave nothing behind
    assert!(tx.commit()?.is_err());
    assert_eq!(&*tree.get(7u32.to_be_bytes())?.unwrap(), b"new2");
    assert_eq!(&*tree.get(5u32.to_be_bytes())?.unwrap(), b"new2");
    Ok(())
}

/// Keyspace handles compare equal by NAME: a stale handle of a deleted keyspace and the handle of
/// its re-created successor share one ephemeral memtable inside a transaction.
#[test]
fn deleted_and_recreated_keyspace_in_one_tx() -> fjall::Result<()> {
    let folder = tempfile::tempdir()?;
    let db = SingleWriterTxDatabase::builder(&folder).open()?;
    let old = db.keyspace("data", KeyspaceCreateOptions::default)?;
    old.insert("k", "old")?;
    db.inner().delete_keyspace(old.inner().clone())?;
    let new = db.keyspace("data", KeyspaceCreateOptions::default)?;
    assert!(new.get("k")?.is_none());

    let mut tx = db.write_tx();
    // first touch through the stale handle (e.g. a read-modify-write helper still holding it)
    tx.insert(&old, "x", "to-old");
    tx.insert(&new, "y", "to-new");
    assert_eq!(&*tx.get(&new, "y")?.unwrap(), b"to-new");
    tx.commit()?;

    eprintln!(
        "new.get(y) = {:?}, old.get(y) = {:?}, new.get(x) = {:?}",
        new.get("y")?,
        old.get("y")?,
        new.get("x")?
    );
    assert_eq!(
        new.get("y")?.as_deref(),
        Some(&b"to-new"[..]),
        "write made through the live handle was lost"
    );
    Ok(())
}

/// multi keyspace tx, crash image taken right after commit returns, everything or nothing per tx
#[test]
fn crash_image_after_commits() -> fjall::Result<()> {
    fn copy_dir(from: &std::path::Path, to: &std::path::Path) {
        std::fs::create_dir_all(to).unwrap();
        for e in std::fs::read_dir(from).unwrap() {
            let e = e.unwrap();
            let p = e.path();
            let t = to.join(e.file_name());
            if p.is_dir() {
                copy_dir(&p, &t);
            } else {
                std::fs::copy(&p, &t).unwrap();
            }
        }
    }

    let folder = tempfile::tempdir()?;
    let db = SingleWriterTxDatabase::builder(&folder).open()?;
    let a = db.keyspace("a", KeyspaceCreateOptions::default)?;
    let b = db.keyspace("b", KeyspaceCreateOptions::default)?;

    for i in 0..50u32 {
        let mut tx = db.write_tx();
        for j in 0..5u32 {
            tx.insert(&a, "k", format!("{i}-{j}"));
            tx.insert(&b, "k", format!("{i}-{j}"));
        }
        tx.remove(&a, "gone");
        tx.insert(&a, format!("only-{i}"), "x");
        if i % 7 == 0 {
            tx.rollback();
            continue;
        }
        tx.commit()?;
        if i % 10 == 3 {
            a.inner().rotate_memtable_and_wait()?;
        }
    }
    db.persist(fjall::PersistMode::SyncAll)?;

    let image = tempfile::tempdir()?;
    copy_dir(folder.path(), image.path());

    let db2 = SingleWriterTxDatabase::builder(image.path()).open()?;
    let a2 = db2.keyspace("a", KeyspaceCreateOptions::default)?;
    let b2 = db2.keyspace("b", KeyspaceCreateOptions::default)?;
    assert_eq!(a2.get("k")?, b2.get("k")?);
    assert_eq!(&*a2.get("k")?.unwrap(), b"48-4");
    assert!(a2.get("only-49")?.is_none());
    assert!(a2.get("only-48")?.is_some());
    assert!(a2.get("only-42")?.is_none());
    Ok(())
}
