// run: cd /tmp/hunt-C13 && CARGO_TARGET_DIR=/tmp/hunt-C13/target cargo test --offline --test hunt_demo -- --test-threads=1 --nocapture
//
// (needs `strace` in PATH and permission to ptrace-attach to the own process, e.g. root;
//  the tests attach `strace -f -p <own pid> -e inject=fsync:error=EIO:when=1 -P <db>/0.jnl` to themselves,
//  so that exactly the first fsync() that each thread issues on the active journal file fails with EIO)
//
// Property C13 (fail-stop after a journal I/O failure): "If appending to, flushing or syncing the journal
// fails, [...] from then on no write of any kind (insert, remove, clear, batch, transaction commit, persist)
// is acknowledged on that database instance."
//
// History:
//   1. 66 x 1 MB go into the journal (> 64 MB), then a memtable is rotated -> a background worker
//      picks up the flush task, sees `journal_writer.pos() > 64_000_000` and rotates the journal:
//      `Writer::rotate` -> `self.persist(PersistMode::SyncAll)` -> fsync(0.jnl) = EIO (injected)
//   2. `worker_tick` returns the error (all locks, including the journal lock, are released by then),
//      the worker thread does `log::error!("Worker #{i} crashed: {e:?}")` and only AFTER that
//      `poison_dart.poison()` (src/worker_pool.rs, Err arm of the worker loop)
//   3. between the failed journal sync and the poisoning, the database accepts and acknowledges writes,
//      including "durable" ones (batch with PersistMode::SyncData, Database::persist(SyncData))
//
// To make the window observable without relying on luck, the test installs a `log::Log` implementation
// (the crate calls `log::error!` itself on this path) that - like a logger writing to a slow / blocked
// sink - takes a while for the "Worker ... crashed" record. The sanity variant uses the very same logger
// without the delay and passes (the window is then only a few instructions wide, but it is still there
// for writers that spin on the journal mutex).
//
// The `#[ignore]`d informational variant at the end shows that no artificial delay is needed: with a logger
// that merely prints the record to stderr (what env_logger / test-log do) and eight inserting threads,
// 4 of 5 runs had inserts (3..18 of them) that were started after the worker had begun to report the
// failure and were acknowledged anyway.

use fjall::{Database, KeyspaceCreateOptions, PersistMode};
use std::sync::atomic::{AtomicBool, Ordering};
use std::sync::Mutex;
use std::time::{Duration, Instant};

static BLOCK_ON_CRASH_RECORD: AtomicBool = AtomicBool::new(false);
static WORKER_FAILURE_LOGGED: AtomicBool = AtomicBool::new(false);
static RELEASE: AtomicBool = AtomicBool::new(false);
static PRINT_TO_STDERR: AtomicBool = AtomicBool::new(false);
static RECORDS: Mutex<Vec<String>> = Mutex::new(Vec::new());

struct SlowLogger;

impl log::Log for SlowLogger {
    fn enabled(&self, metadata: &log::Metadata) -> bool {
        metadata.level() <= log::Level::Error
    }

    fn log(&self, record: &log::Record) {
        if !self.enabled(record.metadata()) {
            return;
        }
        let msg = format!("{}", record.args());
        RECORDS.lock().unwrap().push(msg.clone());

        if msg.contains("crashed") {
            // The journal sync has failed, the worker has given up all its locks and reports its death
            WORKER_FAILURE_LOGGED.store(true, Ordering::SeqCst);

            if PRINT_TO_STDERR.load(Ordering::SeqCst) {
                // what an ordinary logger (env_logger & co.) does: one formatted line to stderr
                use std::io::Write;
                let _ = writeln!(
                    std::io::stderr().lock(),
                    "[{} {}] {}",
                    record.level(),
                    record.target(),
                    msg
                );
            }

            if BLOCK_ON_CRASH_RECORD.load(Ordering::SeqCst) {
                // a slow sink (bounded, so the test can never hang)
                let t0 = Instant::now();
                while !RELEASE.load(Ordering::SeqCst) && t0.elapsed() < Duration::from_secs(20) {
                    std::thread::sleep(Duration::from_millis(5));
                }
            }
        }
    }

    fn flush(&self) {}
}

static LOGGER: SlowLogger = SlowLogger;

fn install_logger() {
    // NOTE: may already be installed by the other test of this file
    let _ = log::set_logger(&LOGGER);
    log::set_max_level(log::LevelFilter::Error);
}

/// Attaches strace (with fault injection) to this very process; returns the strace child.
fn attach_strace(inject: &str, syscalls: &str, paths: &[String]) -> std::process::Child {
    use std::io::{BufRead, BufReader};

    let pid = std::process::id();
    let mut cmd = std::process::Command::new("strace");
    cmd.arg("-f")
        .arg("-p")
        .arg(pid.to_string())
        .arg("-o")
        .arg("/dev/null")
        .arg("-e")
        .arg(format!("trace={syscalls}"))
        .arg("-e")
        .arg(format!("inject={inject}"));
    for p in paths {
        cmd.arg("-P").arg(p);
    }
    cmd.stderr(std::process::Stdio::piped());

    let mut child = cmd.spawn().expect("strace should be installed");
    let stderr = child.stderr.take().unwrap();
    let mut rd = BufReader::new(stderr);
    let mut line = String::new();
    loop {
        line.clear();
        if rd.read_line(&mut line).unwrap() == 0 {
            panic!("strace exited early (no ptrace permission?)");
        }
        if line.contains("attached") {
            break;
        }
    }
    std::thread::spawn(move || {
        let mut l = String::new();
        while rd.read_line(&mut l).map(|n| n > 0).unwrap_or(false) {
            l.clear();
        }
    });
    // let it attach to the remaining threads (workers)
    std::thread::sleep(Duration::from_millis(500));
    child
}

fn detach_strace(mut child: std::process::Child) {
    std::process::Command::new("kill")
        .arg("-INT")
        .arg(child.id().to_string())
        .status()
        .unwrap();
    child.wait().unwrap();
}

fn incompressible(seed: u64, len: usize) -> Vec<u8> {
    let mut x = seed.wrapping_mul(0x9E37_79B9_7F4A_7C15) | 1;
    (0..len)
        .map(|_| {
            x ^= x << 13;
            x ^= x >> 7;
            x ^= x << 17;
            (x & 0xff) as u8
        })
        .collect()
}

struct Outcome {
    insert_after_failure: Result<(), String>,
    remove_after_failure: Result<(), String>,
    sync_batch_after_failure: Result<(), String>,
    persist_after_failure: Result<(), String>,
    insert_after_poison: Result<(), String>,
}

/// Runs the history; `slow_sink` = the logger needs a while for the worker's crash record.
fn run(slow_sink: bool) -> Outcome {
    install_logger();
    BLOCK_ON_CRASH_RECORD.store(slow_sink, Ordering::SeqCst);
    WORKER_FAILURE_LOGGED.store(false, Ordering::SeqCst);
    RELEASE.store(false, Ordering::SeqCst);
    RECORDS.lock().unwrap().clear();

    let folder = tempfile::tempdir().unwrap();
    let path = folder.path().join("db");

    let db = Database::builder(&path).open().unwrap();
    let big = db.keyspace("big", KeyspaceCreateOptions::default).unwrap();
    let small = db
        .keyspace("small", KeyspaceCreateOptions::default)
        .unwrap();

    // > 64 MB of journal data
    for i in 0..66u64 {
        big.insert(format!("b{i:02}"), incompressible(i + 1, 1_000_000))
            .unwrap();
        small.insert(format!("s{i:02}"), "acknowledged").unwrap();
    }
    assert_eq!(1, db.journal_count());

    // From now on: the first fsync() on the active journal file, of whichever thread, fails with EIO.
    // (The test thread itself never calls fsync on it: it only uses PersistMode::SyncData = fdatasync.)
    let tracer = attach_strace(
        "fsync:error=EIO:when=1",
        "fsync",
        &[path.join("0.jnl").display().to_string()],
    );

    // Memtable rotation -> flush task -> worker rotates the journal -> Writer::rotate -> persist(SyncAll) -> EIO
    assert!(big.rotate_memtable().unwrap());

    let t0 = Instant::now();
    while !WORKER_FAILURE_LOGGED.load(Ordering::SeqCst) {
        assert!(
            t0.elapsed() < Duration::from_secs(30),
            "INCONCLUSIVE: the worker never reported the injected journal fsync failure; records: {:?}",
            RECORDS.lock().unwrap()
        );
        std::thread::sleep(Duration::from_millis(1));
    }

    if !slow_sink {
        // fast sink: the worker is already past the logger; give it the few instructions it needs to poison
        std::thread::sleep(Duration::from_millis(50));
    }

    // The journal sync HAS failed (the worker is reporting it right now).
    // Fail-stop demands that nothing is acknowledged anymore.
    let s = |e: fjall::Error| format!("{e:?}");

    let insert_after_failure = small.insert("after-failure", "must not be acknowledged").map_err(s);
    let remove_after_failure = small.remove("s00").map_err(s);
    let sync_batch_after_failure = {
        let mut batch = db.batch().durability(Some(PersistMode::SyncData));
        batch.insert(&small, "after-failure-durable", "must not be acknowledged");
        batch.insert(&big, "after-failure-durable", "must not be acknowledged");
        batch.commit().map_err(s)
    };
    let persist_after_failure = db.persist(PersistMode::SyncData).map_err(s);

    // Let the logger return; the worker poisons the database now
    RELEASE.store(true, Ordering::SeqCst);

    let t0 = Instant::now();
    let insert_after_poison = loop {
        let r = small.insert("late", "x").map_err(s);
        if r.is_err() || t0.elapsed() > Duration::from_secs(5) {
            break r;
        }
        std::thread::sleep(Duration::from_millis(5));
    };

    detach_strace(tracer);

    eprintln!("error records of the crate: {:#?}", RECORDS.lock().unwrap());
    eprintln!("journal_count = {}", db.journal_count());

    Outcome {
        insert_after_failure,
        remove_after_failure,
        sync_batch_after_failure,
        persist_after_failure,
        insert_after_poison,
    }
}

/// FAILS on the unchanged code: four writes are acknowledged after the journal fsync has failed.
#[test]
fn c13_writes_acknowledged_after_worker_journal_sync_failure() {
    let o = run(true);

    // The crate itself considers this failure fatal: it does poison the instance - just too late
    assert!(
        matches!(&o.insert_after_poison, Err(e) if e.contains("Poisoned")),
        "the injected journal fsync failure should (eventually) poison the database, got {:?}",
        o.insert_after_poison
    );

    let mut acknowledged = vec![];
    if o.insert_after_failure.is_ok() {
        acknowledged.push("insert");
    }
    if o.remove_after_failure.is_ok() {
        acknowledged.push("remove");
    }
    if o.sync_batch_after_failure.is_ok() {
        acknowledged.push("batch commit (PersistMode::SyncData)");
    }
    if o.persist_after_failure.is_ok() {
        acknowledged.push("Database::persist(SyncData)");
    }

    assert!(
        acknowledged.is_empty(),
        "C13 violated: after the journal fsync failed in the rotating worker (and before the worker poisoned \
         the database), these writes were acknowledged: {acknowledged:?}"
    );
}

/// Sanity variant (passes): same history, same logger, but the sink is fast - by the time the test thread
/// has noticed the failure, the worker has already poisoned the database, and everything is refused.
/// Pins the cause: the only difference to the failing test is how long the worker needs between
/// giving up the journal lock and poisoning.
#[test]
fn c13_sanity_fast_sink_everything_refused() {
    let o = run(false);

    assert!(matches!(&o.insert_after_poison, Err(e) if e.contains("Poisoned")));

    // NOTE: give the worker the few instructions it needs - the test thread polls the flag every 1 ms,
    // so in practice the poisoning has happened long before
    assert!(o.insert_after_failure.is_err(), "{:?}", o.insert_after_failure);
    assert!(o.remove_after_failure.is_err());
    assert!(o.sync_batch_after_failure.is_err());
    assert!(o.persist_after_failure.is_err());
}

/// Sanity variant (passes): a journal sync failure in a user call (batch commit with SyncAll) poisons
/// while the journal lock is still held - nothing is acknowledged afterwards.
#[test]
fn c13_sanity_user_call_failure_is_fail_stop() {
    install_logger();
    BLOCK_ON_CRASH_RECORD.store(false, Ordering::SeqCst);

    let folder = tempfile::tempdir().unwrap();
    let path = folder.path().join("db");

    let db = Database::builder(&path).open().unwrap();
    let small = db
        .keyspace("small", KeyspaceCreateOptions::default)
        .unwrap();
    small.insert("a", "acknowledged").unwrap();

    let tracer = attach_strace(
        "fsync:error=EIO:when=1",
        "fsync",
        &[path.join("0.jnl").display().to_string()],
    );

    let mut batch = db.batch().durability(Some(PersistMode::SyncAll));
    batch.insert(&small, "b", "fails");
    assert!(batch.commit().is_err());

    assert!(small.insert("c", "x").is_err());
    assert!(small.remove("a").is_err());
    assert!(db.persist(PersistMode::SyncData).is_err());
    assert!(db.persist(PersistMode::Buffer).is_err());

    detach_strace(tracer);
    drop(small);
    drop(db);

    let db = Database::builder(&path).open().unwrap();
    let small = db
        .keyspace("small", KeyspaceCreateOptions::default)
        .unwrap();
    assert_eq!(&*small.get("a").unwrap().unwrap(), b"acknowledged");
    assert!(small.get("c").unwrap().is_none());
}

/// Informational variant (NOT part of the finding's pass/fail claim; `#[ignore]`d because it is a real race):
/// no artificial delay - the logger just prints the record to stderr like env_logger would - and eight
/// threads keep inserting. Counts the inserts that were *started* after the worker had begun to report
/// the journal sync failure and were acknowledged nevertheless.
///
/// cargo test --offline --test hunt_demo -- --ignored --nocapture c13_info
#[test]
#[ignore]
fn c13_info_natural_race_with_ordinary_stderr_logger() {
    install_logger();
    BLOCK_ON_CRASH_RECORD.store(false, Ordering::SeqCst);
    PRINT_TO_STDERR.store(true, Ordering::SeqCst);
    WORKER_FAILURE_LOGGED.store(false, Ordering::SeqCst);

    let folder = tempfile::tempdir().unwrap();
    let path = folder.path().join("db");

    let db = Database::builder(&path).open().unwrap();
    let big = db.keyspace("big", KeyspaceCreateOptions::default).unwrap();
    let small = db
        .keyspace("small", KeyspaceCreateOptions::default)
        .unwrap();

    for i in 0..66u64 {
        big.insert(format!("b{i:02}"), incompressible(i + 1, 1_000_000))
            .unwrap();
    }

    let tracer = attach_strace(
        "fsync:error=EIO:when=1",
        "fsync",
        &[path.join("0.jnl").display().to_string()],
    );

    let stop = std::sync::Arc::new(AtomicBool::new(false));
    let late_acks = std::sync::Arc::new(std::sync::atomic::AtomicU64::new(0));

    let handles: Vec<_> = (0..8)
        .map(|t| {
            let small = small.clone();
            let stop = stop.clone();
            let late_acks = late_acks.clone();
            std::thread::spawn(move || {
                let mut i = 0u64;
                while !stop.load(Ordering::Relaxed) {
                    i += 1;
                    let failed_before_call = WORKER_FAILURE_LOGGED.load(Ordering::SeqCst);
                    match small.insert(format!("t{t}-{}", i % 64), "x") {
                        Ok(()) => {
                            if failed_before_call {
                                late_acks.fetch_add(1, Ordering::SeqCst);
                            }
                        }
                        Err(_) => break,
                    }
                }
            })
        })
        .collect();

    std::thread::sleep(Duration::from_millis(50));
    assert!(big.rotate_memtable().unwrap());

    let t0 = Instant::now();
    while !WORKER_FAILURE_LOGGED.load(Ordering::SeqCst) && t0.elapsed() < Duration::from_secs(30) {
        std::thread::sleep(Duration::from_millis(1));
    }
    std::thread::sleep(Duration::from_millis(200));
    stop.store(true, Ordering::SeqCst);
    for h in handles {
        h.join().unwrap();
    }
    detach_strace(tracer);
    PRINT_TO_STDERR.store(false, Ordering::SeqCst);

    let n = late_acks.load(Ordering::SeqCst);
    eprintln!("inserts started after the failure was being reported and acknowledged anyway: {n}");
    assert_eq!(0, n, "C13 violated without any artificial delay");
}
