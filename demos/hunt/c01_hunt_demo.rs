// CARGO_TARGET_DIR=/tmp/hunt-C01/target cargo test --offline --test hunt_demo -- --nocapture --test-threads=1
//
// Property C01 (ordered-map equivalence under background maintenance):
// "compaction ... [is] invisible: [it] never change[s] any answer".
//
// History (one keyspace, default options, single thread):
//   insert a=1 ; insert k=v1 ; bulk-ingest { tombstone(k) } ; [major_compact] ; clean reopen ; get(k)
//
// A sorted reference map answers get(k) == None (k was deleted by the bulk ingestion).
// Without the major-compact step fjall answers None too. WITH the major-compact step (a pure
// maintenance step that must be invisible) fjall answers Some("v1") after the clean reopen:
// the deleted key is resurrected, get/contains_key/size_of/iter/len/first/last all show it.
//
// Why: bulk ingestion bypasses the journal (src/ingestion.rs Ingestion::finish), so the journal
// still holds `k=v1`. Replay on reopen (src/db.rs Database::recover, src/recovery.rs
// PersistedSeqnos::covers) skips a record only if `seqno <= tree.get_highest_persisted_seqno()`.
// Major compaction into the last level evicts the ingested tombstone together with k=v1, which
// LOWERS the highest persisted seqno below the seqno of the journalled `k=v1` record
// (the only surviving table item is a=1 with a smaller seqno). The record is no longer "covered",
// is replayed into the memtable, and k comes back.
//
// Status: run three times on the unchanged worktree (debug build): every time
// `ingested_tombstone_major_compact_reopen_resurrects_key` FAILED with
// `left: Some(Slice([118, 49]))  right: None` (and printed "persisted seqno after major compaction: Some(2)"),
// while both sanity variants PASSED. Deterministic: single thread, every step is synchronous.

use fjall::{Database, KeyspaceCreateOptions};

fn collect_keys(ks: &fjall::Keyspace) -> Vec<Vec<u8>> {
    ks.iter().map(|g| g.key().unwrap().to_vec()).collect()
}

/// FAILS on the unchanged code.
#[test]
fn ingested_tombstone_major_compact_reopen_resurrects_key() -> fjall::Result<()> {
    let folder = tempfile::tempdir()?;

    {
        let db = Database::builder(&folder).open()?;
        let ks = db.keyspace("default", KeyspaceCreateOptions::default)?;

        ks.insert("a", "1")?;
        ks.insert("k", "v1")?;

        // bulk ingestion that deletes k (public API: Ingestion::write_tombstone)
        let mut ing = ks.start_ingestion()?;
        ing.write_tombstone("k")?;
        ing.finish()?;

        assert_eq!(ks.get("k")?, None);
        assert_eq!(collect_keys(&ks), vec![b"a".to_vec()]);

        // maintenance step that must be invisible
        ks.major_compact()?;

        assert_eq!(ks.get("k")?, None);
        assert_eq!(collect_keys(&ks), vec![b"a".to_vec()]);

        eprintln!(
            "persisted seqno after major compaction: {:?}",
            fjall::AbstractTree::get_highest_persisted_seqno(&ks.tree)
        );
    }

    {
        let db = Database::builder(&folder).open()?;
        let ks = db.keyspace("default", KeyspaceCreateOptions::default)?;

        // reference map: {a: 1}
        assert_eq!(
            ks.get("k")?,
            None,
            "k was deleted by the bulk ingestion before the clean reopen, but came back",
        );
        assert!(!ks.contains_key("k")?);
        assert_eq!(ks.size_of("k")?, None);
        assert_eq!(collect_keys(&ks), vec![b"a".to_vec()]);
        assert_eq!(ks.len()?, 1);
    }

    Ok(())
}

/// Sanity variant (expected to PASS): identical history WITHOUT the major-compact step.
/// The ingested tombstone table is still there, the highest persisted seqno is the ingestion's
/// global seqno, the journalled `k=v1` is "covered" and skipped.
/// => the only difference between pass and fail is a maintenance step.
#[test]
fn sanity_same_history_without_major_compact() -> fjall::Result<()> {
    let folder = tempfile::tempdir()?;

    {
        let db = Database::builder(&folder).open()?;
        let ks = db.keyspace("default", KeyspaceCreateOptions::default)?;

        ks.insert("a", "1")?;
        ks.insert("k", "v1")?;

        let mut ing = ks.start_ingestion()?;
        ing.write_tombstone("k")?;
        ing.finish()?;

        assert_eq!(ks.get("k")?, None);
    }

    {
        let db = Database::builder(&folder).open()?;
        let ks = db.keyspace("default", KeyspaceCreateOptions::default)?;
        assert_eq!(ks.get("k")?, None);
        assert_eq!(collect_keys(&ks), vec![b"a".to_vec()]);
    }

    Ok(())
}

/// Sanity variant (expected to PASS): the delete goes through the journal (Keyspace::remove)
/// instead of a bulk ingestion. Major compaction evicts the tombstone as well and lowers the
/// highest persisted seqno in the same way, but now the journal contains the tombstone too, so the
/// replayed suffix `k=v1, remove k` ends with k absent.
/// => the problem is specific to mutations that bypass the journal (bulk ingestion).
#[test]
fn sanity_journalled_remove_instead_of_ingested_tombstone() -> fjall::Result<()> {
    let folder = tempfile::tempdir()?;

    {
        let db = Database::builder(&folder).open()?;
        let ks = db.keyspace("default", KeyspaceCreateOptions::default)?;

        ks.insert("a", "1")?;
        ks.insert("k", "v1")?;
        ks.remove("k")?;
        ks.rotate_memtable_and_wait()?;
        ks.major_compact()?;

        assert_eq!(ks.get("k")?, None);
    }

    {
        let db = Database::builder(&folder).open()?;
        let ks = db.keyspace("default", KeyspaceCreateOptions::default)?;
        assert_eq!(ks.get("k")?, None);
        assert_eq!(collect_keys(&ks), vec![b"a".to_vec()]);
    }

    Ok(())
}
