// Demonstration for repair 33 (C17): a second opener that races a creation (lock file held, version marker
// not yet written) gets a lock error, not InvalidVersion. Run: cargo test --offline --test c17_create_race_demo
use fjall::Database;

#[test]
fn second_opener_during_creation_gets_locked() {
    let folder = tempfile::tempdir().unwrap();
    let dir = folder.path().join("db");
    std::fs::create_dir_all(&dir).unwrap();
    // the first instance is inside Database::create_new: lock file created and locked, nothing else yet
    let lock = std::fs::OpenOptions::new().create(true).read(true).write(true).open(dir.join("lock")).unwrap();
    lock.try_lock().unwrap();

    match Database::builder(&dir).open() {
        Err(fjall::Error::Locked) => {}
        Err(e) => panic!("expected Locked, got {e:?}"),
        Ok(_) => panic!("opened a directory another instance is creating"),
    }
    // nothing was changed
    let names: Vec<_> = std::fs::read_dir(&dir).unwrap().map(|e| e.unwrap().file_name()).collect();
    assert_eq!(names, vec![std::ffi::OsString::from("lock")]);
    drop(lock);
    // an abandoned creation (nobody holds the lock any more) is resumed since repair 34
    assert!(Database::builder(&dir).open().is_ok());
}
