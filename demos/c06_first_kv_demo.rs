// C06: a reader must see a write batch entirely or not at all.  Keyspace::first_key_value / last_key_value / is_empty
// are scans reduced to their first element; before the fix they read the tree at SeqNo::MAX, so they looked into a
// batch that was still being applied (seqno drawn, items partly in the memtable, not yet published).
// The in-flight batch is reproduced deterministically with the crate's doc-hidden hooks (as tests/keyspace_snapshot.rs
// `keyspace_torn_read` does): batch = { remove "a", insert "b" } on a keyspace that contains only "a".
//
// run: cp demos/c06_first_kv_demo.rs <fjall checkout>/tests/ && cargo test --offline --test c06_first_kv_demo
use fjall::{AbstractTree, Database, KeyspaceCreateOptions};

#[test]
fn first_key_value_never_sees_half_a_batch() -> fjall::Result<()> {
    let folder = tempfile::tempdir()?;
    let db = Database::builder(&folder).open()?;
    let ks = db.keyspace("default", KeyspaceCreateOptions::default)?;
    ks.insert("a", "old")?;

    // a batch {remove a, insert b} takes its seqno and applies its FIRST item ...
    let batch_seqno = db.supervisor.seqno.next();
    ks.tree.remove("a", batch_seqno);

    // ... a reader comes in now: the only states that ever existed atomically are {a} and {b}
    let first = ks.first_key_value().map(|g| g.key().unwrap());
    let last = ks.last_key_value().map(|g| g.key().unwrap());
    let empty = ks.is_empty()?;
    let scan: Vec<_> = ks.iter().map(|g| g.key().unwrap()).collect();
    assert_eq!(1, scan.len(), "iter() (reference): sees the pre-batch state");

    // ... the batch applies its second item and publishes
    ks.tree.insert("b", "new", batch_seqno);
    db.supervisor.snapshot_tracker.publish(batch_seqno);

    assert_eq!(Some(&b"b"[..]), ks.first_key_value().map(|g| g.key().unwrap()).as_deref(), "after publish the batch is visible");

    assert_eq!(Some(&b"a"[..]), first.as_deref(), "first_key_value saw the batch's remove without its insert (keyspace looked empty)");
    assert_eq!(Some(&b"a"[..]), last.as_deref(), "last_key_value saw the batch's remove without its insert");
    assert!(!empty, "is_empty saw the batch's remove without its insert");
    Ok(())
}
