// C11: "sequence numbers handed out after the reopen are larger than every sequence number present in any journal or
// table of any keyspace" (quantifier: "... after clear; tombstones only; ...").
// The counters are restored from what the TREES hold after replay (`get_highest_seqno`). A `clear` record has a seqno
// but leaves nothing in the tree, and a record of a deleted keyspace is skipped: the journal then holds sequence numbers
// above the restored counter, and the next writes are handed out numbers that are already in the journal.
//
// run: cp demos/c11_clear_seqno_demo.rs <fjall checkout>/tests/ && cargo test --offline --test c11_clear_seqno_demo
use fjall::{Database, KeyspaceCreateOptions};

#[test]
fn seqnos_after_reopen_exceed_the_journals_clear_record() -> fjall::Result<()> {
    let folder = tempfile::tempdir()?;
    let clear_seqno;
    {
        let db = Database::builder(folder.path()).open()?;
        let ks = db.keyspace("default", KeyspaceCreateOptions::default)?;
        for i in 0..20u32 {
            ks.insert(format!("k{i}"), "v")?;
        }
        ks.clear()?;
        clear_seqno = db.seqno() - 1; // the clear drew the last sequence number
    }
    {
        let db = Database::builder(folder.path()).open()?;
        let ks = db.keyspace("default", KeyspaceCreateOptions::default)?;
        assert!(db.seqno() > clear_seqno, "after reopen the generator is at {} but the journal holds a clear record with seqno {}", db.seqno(), clear_seqno);
        ks.insert("new", "v")?;
    }
    Ok(())
}
