// C17 (with C13's fault model): after a background worker failed (here: a flush that cannot create its table file
// because the keyspace's directory vanished), dropping the last handle must still return — "after the last handle is
// dropped, background threads have stopped ... and opening succeeds".
// Before the fix the failing worker returned without decrementing `active_thread_counter`, so
// `DatabaseInner::drop` spun forever waiting for a thread that had already exited.
//
// run: cp demos/worker_fail_drop_demo.rs <fjall checkout>/tests/ && cargo test --offline --test worker_fail_drop_demo
use fjall::{Database, KeyspaceCreateOptions};
use std::sync::atomic::{AtomicBool, Ordering};
use std::sync::Arc;

#[test]
fn drop_returns_after_a_worker_failure() {
    let folder = tempfile::tempdir().unwrap();
    let path = folder.path().to_path_buf();
    let db = Database::builder(&path).worker_threads(1).open().unwrap();
    let ks = db.keyspace("default", KeyspaceCreateOptions::default).unwrap();
    ks.insert("a", "my_value").unwrap();

    // make the next flush fail: remove every keyspace data directory under the database folder
    let mut removed = 0;
    for e in std::fs::read_dir(path.join("keyspaces")).unwrap() {
        let e = e.unwrap();
        if e.file_type().unwrap().is_dir() && e.file_name() != "0" {
            std::fs::remove_dir_all(e.path()).unwrap();
            removed += 1;
        }
    }
    assert!(removed > 0, "no keyspace directory found to remove");

    // seal the memtable and ask the worker to flush it; the worker fails and poisons the database
    let _ = ks.rotate_memtable();
    let t0 = std::time::Instant::now();
    loop {
        if ks.insert("b", "x").is_err() {
            break; // poisoned: the worker has failed
        }
        assert!(t0.elapsed().as_secs() < 20, "worker never failed; the demo's fault injection did not work");
        std::thread::sleep(std::time::Duration::from_millis(20));
    }

    let dropped = Arc::new(AtomicBool::new(false));
    let d2 = dropped.clone();
    std::thread::spawn(move || {
        drop(ks);
        drop(db);
        d2.store(true, Ordering::SeqCst);
    });
    for _ in 0..100 {
        if dropped.load(Ordering::SeqCst) {
            return;
        }
        std::thread::sleep(std::time::Duration::from_millis(100));
    }
    panic!("HANG: dropping the database after a background worker failure did not return within 10 s");
}
