// CARGO_TARGET_DIR=/tmp/hunt-C08/target cargo test --offline --test hunt_demo -- --nocapture --test-threads=1
//
// Property C08: "Until commit nothing is visible outside, commit applies exactly the final
// write per key all at once".
//
// History:
//   1. keyspace `other` has two small tables on disk (so a major compaction has work to do)
//   2. thread M runs `other.major_compact()` in a loop (any background flush / compaction that
//      installs a new lsm-tree version does the same thing, this just makes it frequent)
//   3. thread R repeatedly opens a read snapshot (`db.read_tx()`) and reads, inside that ONE
//      snapshot, first the LAST key the transaction writes and then the FIRST key it writes
//   4. the main thread runs one write transaction inserting N keys into keyspace `data` and commits
//
// Expected: every snapshot sees either none or all of the N keys.
// Actual: snapshots see the first key of the transaction but not the last one (a half-applied
// commit), because lsm-tree's `upgrade_version` (run by compaction/flush without the journal
// lock) does `visible_seqno.fetch_max(global_seqno.next() + 1)` on the very counter fjall uses
// as the snapshot watermark, which jumps the watermark past the batch seqno that
// `WriteBatch::commit` has allocated but not yet finished applying.

use fjall::{KeyspaceCreateOptions, Readable, SingleWriterTxDatabase};
use std::sync::{
    atomic::{AtomicBool, AtomicU64, Ordering},
    Arc,
};

const N: u64 = 150_000;

fn key(i: u64) -> [u8; 8] {
    i.to_be_bytes()
}

struct Outcome {
    snapshots_checked: u64,
    torn: u64,
    first_torn_instant: u64,
}

fn run_single_writer(with_concurrent_compaction: bool) -> fjall::Result<Outcome> {
    let folder = tempfile::tempdir()?;
    let db = SingleWriterTxDatabase::builder(&folder).open()?;

    let data = db.keyspace("data", KeyspaceCreateOptions::default)?;
    let other = db.keyspace("other", KeyspaceCreateOptions::default)?;

    // `other` gets two tables
    other.insert("a", "a")?;
    other.inner().rotate_memtable_and_wait()?;
    other.insert("b", "b")?;
    other.inner().rotate_memtable_and_wait()?;

    let stop = Arc::new(AtomicBool::new(false));
    let torn = Arc::new(AtomicU64::new(0));
    let checked = Arc::new(AtomicU64::new(0));
    let first_torn_instant = Arc::new(AtomicU64::new(0));

    std::thread::scope(|s| -> fjall::Result<()> {
        // M: maintenance on an unrelated keyspace
        if with_concurrent_compaction {
            let other = other.clone();
            let stop = stop.clone();
            s.spawn(move || {
                while !stop.load(Ordering::Relaxed) {
                    other.inner().major_compact().unwrap();
                }
            });
        }

        // R: outside reader
        {
            let db = db.clone();
            let data = data.clone();
            let stop = stop.clone();
            let torn = torn.clone();
            let checked = checked.clone();
            let first_torn_instant = first_torn_instant.clone();
            s.spawn(move || {
                while !stop.load(Ordering::Relaxed) {
                    let snap = db.read_tx();
                    let last = snap.get(&data, key(N - 1)).unwrap();
                    let first = snap.get(&data, key(0)).unwrap();
                    checked.fetch_add(1, Ordering::Relaxed);

                    // one snapshot, first key of the transaction present, last key absent
                    if first.is_some() && last.is_none() {
                        if torn.fetch_add(1, Ordering::Relaxed) == 0 {
                            first_torn_instant
                                .store(db.inner().visible_seqno(), Ordering::Relaxed);
                        }
                    }
                }
            });
        }

        // the transaction
        let mut tx = db.write_tx();
        for i in 0..N {
            tx.insert(&data, key(i), "v");
        }
        // nothing visible before commit
        assert!(data.get(key(0))?.is_none());
        tx.commit()?;

        stop.store(true, Ordering::Relaxed);
        Ok(())
    })?;

    // after commit everything is there
    assert_eq!(db.read_tx().len(&data)?, N as usize);

    Ok(Outcome {
        snapshots_checked: checked.load(Ordering::Relaxed),
        torn: torn.load(Ordering::Relaxed),
        first_torn_instant: first_torn_instant.load(Ordering::Relaxed),
    })
}

/// FAILS on the unchanged code
#[test]
fn single_writer_commit_is_all_at_once_while_other_keyspace_compacts() -> fjall::Result<()> {
    let o = run_single_writer(true)?;
    eprintln!(
        "snapshots checked: {}, torn: {}, visible seqno at first torn read: {}",
        o.snapshots_checked, o.torn, o.first_torn_instant
    );
    assert_eq!(
        0, o.torn,
        "{} of {} outside snapshots saw the first key of the committing transaction but not its last key",
        o.torn, o.snapshots_checked
    );
    Ok(())
}

/// Sanity variant, PASSES: same history without the concurrent version upgrade
#[test]
fn single_writer_commit_is_all_at_once_without_maintenance() -> fjall::Result<()> {
    let o = run_single_writer(false)?;
    eprintln!("snapshots checked: {}, torn: {}", o.snapshots_checked, o.torn);
    assert!(o.snapshots_checked > 0);
    assert_eq!(0, o.torn);
    Ok(())
}

/// Same defect with the optimistic database.
/// FAILS on the unchanged code
#[test]
fn optimistic_commit_is_all_at_once_while_other_keyspace_compacts() -> fjall::Result<()> {
    use fjall::OptimisticTxDatabase;

    let folder = tempfile::tempdir()?;
    let db = OptimisticTxDatabase::builder(&folder).open()?;

    let data = db.keyspace("data", KeyspaceCreateOptions::default)?;
    let other = db.keyspace("other", KeyspaceCreateOptions::default)?;

    other.insert("a", "a")?;
    other.inner().rotate_memtable_and_wait()?;
    other.insert("b", "b")?;
    other.inner().rotate_memtable_and_wait()?;

    let stop = Arc::new(AtomicBool::new(false));
    let torn = Arc::new(AtomicU64::new(0));
    let checked = Arc::new(AtomicU64::new(0));

    std::thread::scope(|s| -> fjall::Result<()> {
        {
            let other = other.clone();
            let stop = stop.clone();
            s.spawn(move || {
                while !stop.load(Ordering::Relaxed) {
                    other.inner().major_compact().unwrap();
                }
            });
        }
        {
            let db = db.clone();
            let data = data.clone();
            let stop = stop.clone();
            let torn = torn.clone();
            let checked = checked.clone();
            s.spawn(move || {
                while !stop.load(Ordering::Relaxed) {
                    let snap = db.read_tx();
                    let last = snap.get(&data, key(N - 1)).unwrap();
                    let first = snap.get(&data, key(0)).unwrap();
                    checked.fetch_add(1, Ordering::Relaxed);
                    if first.is_some() && last.is_none() {
                        torn.fetch_add(1, Ordering::Relaxed);
                    }
                }
            });
        }

        let mut tx = db.write_tx()?;
        for i in 0..N {
            tx.insert(&data, key(i), "v");
        }
        tx.commit()?.expect("no conflict possible");

        stop.store(true, Ordering::Relaxed);
        Ok(())
    })?;

    let (checked, torn) = (checked.load(Ordering::Relaxed), torn.load(Ordering::Relaxed));
    eprintln!("snapshots checked: {checked}, torn: {torn}");
    assert_eq!(
        0, torn,
        "{torn} of {checked} outside snapshots saw a half-applied optimistic commit"
    );
    Ok(())
}

/// Pins the cause, PASSES: a compaction on an unrelated keyspace, with no write at all, consumes a
/// global seqno and moves the snapshot watermark (`visible_seqno`) past it. When this happens
/// between `seqno.next()` and `snapshot_tracker.publish()` of a committing batch, the batch's
/// seqno is already below the watermark while its items are still being applied.
#[test]
fn maintenance_moves_snapshot_watermark_without_any_write() -> fjall::Result<()> {
    let folder = tempfile::tempdir()?;
    let db = SingleWriterTxDatabase::builder(&folder).open()?;
    let other = db.keyspace("other", KeyspaceCreateOptions::default)?;
    other.insert("a", "a")?;
    other.inner().rotate_memtable_and_wait()?;
    other.insert("b", "b")?;
    other.inner().rotate_memtable_and_wait()?;

    let (seqno_before, visible_before) = (db.inner().seqno(), db.inner().visible_seqno());
    other.inner().major_compact()?;
    let (seqno_after, visible_after) = (db.inner().seqno(), db.inner().visible_seqno());
    eprintln!("seqno {seqno_before} -> {seqno_after}, visible {visible_before} -> {visible_after}");

    assert!(seqno_after > seqno_before);
    assert!(visible_after > visible_before);
    assert_eq!(visible_after, seqno_after);
    Ok(())
}
