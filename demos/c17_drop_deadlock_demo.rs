// Stress for repair 42 (C17: "after the last handle is dropped, background threads have stopped"): DatabaseInner::drop filled the
// bounded worker queue with Close messages while worker #0 was blocked re-queuing a Compact message into that same queue:
// the worker never received a Close, the thread counter never reached zero, and drop spun forever.
// Run: cargo test --offline --release --test c17_drop_deadlock_demo -- --nocapture
use fjall::{Database, KeyspaceCreateOptions};
use std::time::{Duration, Instant};

#[test]
fn drop_returns_while_compactions_are_being_requeued() {
    // CPU contention makes the window (worker #0 between recv and its re-queue while the others already left) wide enough
    let stop = std::sync::Arc::new(std::sync::atomic::AtomicBool::new(false));
    let hogs: Vec<_> = (0..48)
        .map(|_| {
            let stop = stop.clone();
            std::thread::spawn(move || {
                let mut x = 0u64;
                while !stop.load(std::sync::atomic::Ordering::Relaxed) {
                    x = x.wrapping_mul(6364136223846793005).wrapping_add(1);
                    std::hint::black_box(x);
                }
            })
        })
        .collect();
    let deadline = Instant::now() + Duration::from_secs(150);
    let mut rounds = 0u32;
    while Instant::now() < deadline && rounds < 400 {
        let folder = tempfile::tempdir().unwrap();
        let db = Database::builder(&folder).worker_threads(4).open().unwrap();
        let kss: Vec<_> = (0..6)
            .map(|i| db.keyspace(&format!("k{i}"), || KeyspaceCreateOptions::default().max_memtable_size(2_000)).unwrap())
            .collect();
        // every flush sends pool_size Compact messages; worker #0 re-queues each one it receives
        for r in 0..8u32 {
            for ks in &kss {
                ks.insert("a", r.to_be_bytes()).unwrap();
                ks.insert("z", vec![1u8; 3_000]).unwrap();
            }
        }
        drop(kss);
        let (tx, rx) = std::sync::mpsc::channel();
        let h = std::thread::spawn(move || {
            drop(db);
            tx.send(()).ok();
        });
        assert!(rx.recv_timeout(Duration::from_secs(30)).is_ok(), "round {rounds}: Database drop has not returned for 30 s");
        h.join().unwrap();
        rounds += 1;
    }
    stop.store(true, std::sync::atomic::Ordering::Relaxed);
    for h in hogs {
        h.join().unwrap();
    }
    eprintln!("{rounds} rounds");
}
