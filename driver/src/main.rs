//! E1 — fact extractor.  A rustc driver that dumps the type-checked, trait-resolved
//! program (MIR at -Zmir-opt-level=0) of selected crates as one JSON file per crate.
//! Nothing in here is property-specific.
//!
//! Usage (as RUSTC_WORKSPACE_WRAPPER / RUSTC_WRAPPER): argv[1] is the real rustc.
//!   VERIF_FACTS_DIR   directory the fact files are written to (required to dump)
//!   VERIF_CRATES      comma separated crate names to dump (default: fjall)
#![feature(rustc_private)]
#![allow(clippy::all)]

extern crate rustc_abi;
extern crate rustc_driver;
extern crate rustc_hir;
extern crate rustc_interface;
extern crate rustc_middle;
extern crate rustc_span;

use rustc_driver::{Callbacks, Compilation};
use rustc_hir::def::DefKind;
use rustc_hir::def_id::{DefId, LocalDefId};
use rustc_middle::mir::{
    self, AggregateKind, BasicBlockData, Body, Const, ConstValue, Operand, Place, PlaceRef,
    ProjectionElem, Rvalue, StatementKind, TerminatorKind, UnwindAction,
};
use rustc_middle::ty::print::with_no_trimmed_paths;
use rustc_middle::ty::{self, Instance, Ty, TyCtxt, TypingEnv};
use rustc_span::Span;
use std::fmt::Write as _;

// ---------------------------------------------------------------- tiny JSON
enum J {
    Null,
    Bool(bool),
    Int(i128),
    Str(String),
    Arr(Vec<J>),
    Obj(Vec<(&'static str, J)>),
}
fn s<T: Into<String>>(x: T) -> J {
    J::Str(x.into())
}
impl J {
    fn write(&self, out: &mut String) {
        match self {
            J::Null => out.push_str("null"),
            J::Bool(b) => out.push_str(if *b { "true" } else { "false" }),
            J::Int(i) => {
                // JSON numbers above 2^53 lose precision in some readers; python is exact.
                let _ = write!(out, "{}", i);
            }
            J::Str(st) => {
                out.push('"');
                for c in st.chars() {
                    match c {
                        '"' => out.push_str("\\\""),
                        '\\' => out.push_str("\\\\"),
                        '\n' => out.push_str("\\n"),
                        '\r' => out.push_str("\\r"),
                        '\t' => out.push_str("\\t"),
                        c if (c as u32) < 0x20 => {
                            let _ = write!(out, "\\u{:04x}", c as u32);
                        }
                        c => out.push(c),
                    }
                }
                out.push('"');
            }
            J::Arr(v) => {
                out.push('[');
                for (i, x) in v.iter().enumerate() {
                    if i > 0 {
                        out.push(',');
                    }
                    x.write(out);
                }
                out.push(']');
            }
            J::Obj(v) => {
                out.push('{');
                for (i, (k, x)) in v.iter().enumerate() {
                    if i > 0 {
                        out.push(',');
                    }
                    out.push('"');
                    out.push_str(k);
                    out.push_str("\":");
                    x.write(out);
                }
                out.push('}');
            }
        }
    }
}

// ---------------------------------------------------------------- helpers

/// bytes of a small constant allocation; follows one level of (fat) pointer indirection
fn alloc_bytes<'tcx>(tcx: TyCtxt<'tcx>, alloc_id: mir::interpret::AllocId, offset: usize, depth: usize) -> Option<Vec<u8>> {
    let ga = tcx.try_get_global_alloc(alloc_id)?;
    let mir::interpret::GlobalAlloc::Memory(m) = ga else { return None };
    let a = m.inner();
    let len = a.len();
    if offset > len || len > 4096 {
        return None;
    }
    let ptrs = a.provenance().ptrs();
    if ptrs.is_empty() {
        let bytes = a.inspect_with_uninit_and_ptr_outside_interpreter(offset..len);
        return Some(bytes.to_vec());
    }
    if depth == 0 {
        return None;
    }
    // (fat) pointer at `offset`: [ptr: usize][len: usize]?
    for (off, prov) in ptrs.iter() {
        if off.bytes() as usize == offset {
            let raw = a.inspect_with_uninit_and_ptr_outside_interpreter(0..len);
            let psz = tcx.data_layout.pointer_size().bytes() as usize;
            let mut tgt_off = 0usize;
            if offset + psz <= len {
                let mut b = [0u8; 8];
                b[..psz.min(8)].copy_from_slice(&raw[offset..offset + psz.min(8)]);
                tgt_off = u64::from_le_bytes(b) as usize;
            }
            let inner = alloc_bytes(tcx, prov.alloc_id(), tgt_off, depth - 1)?;
            if offset + 2 * psz <= len {
                let mut b = [0u8; 8];
                b[..psz.min(8)].copy_from_slice(&raw[offset + psz..offset + psz + psz.min(8)]);
                let n = u64::from_le_bytes(b) as usize;
                if n <= inner.len() {
                    return Some(inner[..n].to_vec());
                }
            }
            return Some(inner);
        }
    }
    None
}
struct Cx<'tcx> {
    tcx: TyCtxt<'tcx>,
}

impl<'tcx> Cx<'tcx> {
    fn path(&self, d: DefId) -> String {
        with_no_trimmed_paths!(self.tcx.def_path_str(d))
    }
    fn path_args(&self, d: DefId, args: ty::GenericArgsRef<'tcx>) -> String {
        with_no_trimmed_paths!(self.tcx.def_path_str_with_args(d, args))
    }
    fn ty(&self, t: Ty<'tcx>) -> String {
        with_no_trimmed_paths!(format!("{}", t))
    }
    fn loc(&self, sp: Span) -> (String, i128) {
        let sm = self.tcx.sess.source_map();
        let lo = sm.lookup_char_pos(sp.lo());
        let name = with_no_trimmed_paths!(format!("{}", lo.file.name.prefer_local_unconditionally()));
        (name, lo.line as i128)
    }
    fn line(&self, sp: Span) -> J {
        // the line of the outermost (user-written) call site if this came from a macro
        let sp2 = sp.source_callsite();
        let (_, l) = self.loc(sp2);
        J::Int(l)
    }

    fn place(&self, body: &Body<'tcx>, p: Place<'tcx>) -> J {
        self.place_ref(body, p.as_ref())
    }

    fn place_ref(&self, body: &Body<'tcx>, p: PlaceRef<'tcx>) -> J {
        let mut proj = Vec::new();
        for (base, elem) in p.iter_projections() {
            let bt = base.ty(&body.local_decls, self.tcx);
            let j = match elem {
                ProjectionElem::Deref => s("*"),
                ProjectionElem::Field(f, fty) => {
                    let mut name = format!("{}", f.index());
                    let mut owner = String::new();
                    match bt.ty.kind() {
                        ty::Adt(adt, _) => {
                            let vi = bt.variant_index.unwrap_or(rustc_abi::FIRST_VARIANT);
                            if vi.index() < adt.variants().len() {
                                let v = adt.variant(vi);
                                if f.index() < v.fields.len() {
                                    name = v.fields[f].name.to_string();
                                }
                                owner = self.path(adt.did());
                                if adt.is_enum() {
                                    owner = format!("{}::{}", owner, v.name);
                                }
                            }
                        }
                        ty::Closure(def, _) => {
                            owner = self.path(*def);
                            if let Some(ld) = def.as_local() {
                                let caps = self.tcx.closure_captures(ld);
                                if let Some(c) = caps.get(f.index()) {
                                    name = c.to_string(self.tcx);
                                }
                            }
                        }
                        ty::Tuple(_) => owner = "(tuple)".to_string(),
                        _ => {}
                    }
                    J::Obj(vec![
                        ("f", J::Int(f.index() as i128)),
                        ("n", s(name)),
                        ("o", s(owner)),
                        ("t", s(self.ty(fty))),
                    ])
                }
                ProjectionElem::Downcast(name, vi) => J::Obj(vec![
                    ("dc", J::Int(vi.index() as i128)),
                    ("n", s(name.map(|n| n.to_string()).unwrap_or_default())),
                ]),
                ProjectionElem::Index(l) => J::Obj(vec![("idx", J::Int(l.index() as i128))]),
                ProjectionElem::ConstantIndex { offset, from_end, .. } => J::Obj(vec![
                    ("cidx", J::Int(offset as i128)),
                    ("from_end", J::Bool(from_end)),
                ]),
                ProjectionElem::Subslice { .. } => s("subslice"),
                ProjectionElem::OpaqueCast(_) => s("opaque"),
                ProjectionElem::UnwrapUnsafeBinder(_) => s("unbinder"),
            };
            proj.push(j);
        }
        J::Obj(vec![("l", J::Int(p.local.index() as i128)), ("p", J::Arr(proj))])
    }

    fn konst(&self, env: TypingEnv<'tcx>, c: &mir::ConstOperand<'tcx>) -> J {
        let tcx = self.tcx;
        let cty = c.const_.ty();
        let mut o: Vec<(&'static str, J)> = vec![("ty", s(self.ty(cty)))];
        // function items / closures as values
        match cty.kind() {
            ty::FnDef(d, args) => {
                o.push(("fn", s(self.path(*d))));
                o.push(("fn_full", s(self.path_args(*d, args))));
                if let Ok(Some(inst)) = Instance::try_resolve(tcx, env, *d, args) {
                    o.push(("fn_res", s(self.path(inst.def_id()))));
                }
                return J::Obj(o);
            }
            ty::Closure(d, _) => {
                o.push(("closure", s(self.path(*d))));
                return J::Obj(o);
            }
            _ => {}
        }
        if let Const::Unevaluated(u, _) = c.const_ {
            o.push(("def", s(self.path(u.def))));
            if let Some(p) = u.promoted {
                o.push(("promoted", J::Int(p.index() as i128)));
            }
        }
        if let Some(si) = c.const_.try_eval_scalar_int(tcx, env) {
            let size = si.size();
            let bits = si.to_bits(size);
            let signed = matches!(cty.kind(), ty::Int(_));
            let v: i128 = if signed { size.sign_extend(bits) as i128 } else { bits as i128 };
            if matches!(cty.kind(), ty::Bool) {
                o.push(("val", J::Bool(bits != 0)));
            } else if matches!(cty.kind(), ty::Char) {
                o.push(("val", s(char::from_u32(bits as u32).map(|c| c.to_string()).unwrap_or_default())));
            } else if matches!(cty.kind(), ty::Float(_)) {
                o.push(("bits", J::Int(v)));
                if size.bytes() == 4 {
                    o.push(("fval", s(format!("{}", f32::from_bits(bits as u32)))));
                } else if size.bytes() == 8 {
                    o.push(("fval", s(format!("{}", f64::from_bits(bits as u64)))));
                }
            } else {
                o.push(("val", J::Int(v)));
                // fieldless enum: name the variant
                if let ty::Adt(adt, _) = cty.kind() {
                    if adt.is_enum() {
                        for (vi, d) in adt.discriminants(tcx) {
                            if d.val == bits {
                                o.push(("variant", s(adt.variant(vi).name.to_string())));
                            }
                        }
                    }
                }
            }
            return J::Obj(o);
        }
        // other values: strings, byte strings, small allocations behind a reference
        if let Ok(val) = c.const_.eval(tcx, env, c.span) {
            match val {
                ConstValue::ZeroSized => o.push(("zst", J::Bool(true))),
                ConstValue::Slice { .. } => {
                    if let Some(bytes) = val.try_get_slice_bytes_for_diagnostics(tcx) {
                        match std::str::from_utf8(bytes) {
                            Ok(st) if matches!(cty.peel_refs().kind(), ty::Str) => o.push(("str", s(st))),
                            _ => o.push(("bytes", J::Arr(bytes.iter().map(|b| J::Int(*b as i128)).collect()))),
                        }
                    }
                }
                ConstValue::Scalar(mir::interpret::Scalar::Ptr(ptr, _)) => {
                    let (prov, off) = ptr.prov_and_relative_offset();
                    let aid = prov.alloc_id();
                    if let Some(bytes) = alloc_bytes(tcx, aid, off.bytes() as usize, 2) {
                        if bytes.len() <= 256 {
                            o.push(("ref_bytes", J::Arr(bytes.iter().map(|b| J::Int(*b as i128)).collect())));
                        }
                    } else if let Some(mir::interpret::GlobalAlloc::Static(d)) = tcx.try_get_global_alloc(aid) {
                        o.push(("static", s(self.path(d))));
                    }
                }
                ConstValue::Indirect { alloc_id, offset } => {
                    if let Some(bytes) = alloc_bytes(tcx, alloc_id, offset.bytes() as usize, 2) {
                        if bytes.len() <= 256 {
                            o.push(("bytes", J::Arr(bytes.iter().map(|b| J::Int(*b as i128)).collect())));
                        }
                    }
                }
                _ => {}
            }
        }
        J::Obj(o)
    }

    fn operand(&self, body: &Body<'tcx>, env: TypingEnv<'tcx>, op: &Operand<'tcx>) -> J {
        match op {
            Operand::Copy(p) => J::Obj(vec![("copy", self.place(body, *p))]),
            Operand::Move(p) => J::Obj(vec![("move", self.place(body, *p))]),
            Operand::Constant(c) => J::Obj(vec![("const", self.konst(env, c))]),
            #[allow(unreachable_patterns)]
            _ => J::Obj(vec![("other", s(format!("{:?}", op)))]),
        }
    }

    fn rvalue(&self, body: &Body<'tcx>, env: TypingEnv<'tcx>, rv: &Rvalue<'tcx>) -> J {
        let tcx = self.tcx;
        match rv {
            Rvalue::Use(op, ..) => J::Obj(vec![("k", s("use")), ("a", self.operand(body, env, op))]),
            Rvalue::Ref(_, bk, p) => J::Obj(vec![
                ("k", s("ref")),
                ("mut", J::Bool(matches!(bk, mir::BorrowKind::Mut { .. }))),
                ("pl", self.place(body, *p)),
            ]),
            Rvalue::RawPtr(_, p) => J::Obj(vec![("k", s("rawptr")), ("pl", self.place(body, *p))]),
            Rvalue::CopyForDeref(p) => J::Obj(vec![
                ("k", s("use")),
                ("a", J::Obj(vec![("copy", self.place(body, *p))])),
            ]),
            Rvalue::Cast(kind, op, t) => J::Obj(vec![
                ("k", s("cast")),
                ("ck", s(format!("{:?}", kind))),
                ("a", self.operand(body, env, op)),
                ("ty", s(self.ty(*t))),
            ]),
            Rvalue::BinaryOp(op, ab) => J::Obj(vec![
                ("k", s("bin")),
                ("op", s(format!("{:?}", op))),
                ("a", self.operand(body, env, &ab.0)),
                ("b", self.operand(body, env, &ab.1)),
            ]),
            Rvalue::UnaryOp(op, a) => J::Obj(vec![
                ("k", s("un")),
                ("op", s(format!("{:?}", op))),
                ("a", self.operand(body, env, a)),
            ]),
            Rvalue::Discriminant(p) => {
                let pt = p.ty(&body.local_decls, tcx).ty;
                let mut variants = Vec::new();
                if let ty::Adt(adt, _) = pt.kind() {
                    if adt.is_enum() {
                        for (vi, d) in adt.discriminants(tcx) {
                            variants.push(J::Arr(vec![J::Int(d.val as i128), s(adt.variant(vi).name.to_string())]));
                        }
                    }
                }
                J::Obj(vec![
                    ("k", s("discr")),
                    ("pl", self.place(body, *p)),
                    ("ety", s(self.ty(pt))),
                    ("variants", J::Arr(variants)),
                ])
            }
            Rvalue::Aggregate(kind, ops) => {
                let mut o = vec![("k", s("agg"))];
                match &**kind {
                    AggregateKind::Adt(d, vi, _, _, active) => {
                        let adt = tcx.adt_def(*d);
                        o.push(("adt", s(self.path(*d))));
                        let v = adt.variant(*vi);
                        o.push(("variant", s(v.name.to_string())));
                        let names: Vec<J> = if let Some(a) = active {
                            vec![s(v.fields[*a].name.to_string())]
                        } else {
                            v.fields.iter().map(|f| s(f.name.to_string())).collect()
                        };
                        o.push(("fields", J::Arr(names)));
                    }
                    AggregateKind::Closure(d, _) => {
                        o.push(("closure", s(self.path(*d))));
                        if let Some(ld) = d.as_local() {
                            let caps = tcx.closure_captures(ld);
                            o.push(("fields", J::Arr(caps.iter().map(|c| s(c.to_string(tcx))).collect())));
                        }
                    }
                    AggregateKind::Tuple => o.push(("tuple", J::Bool(true))),
                    AggregateKind::Array(_) => o.push(("array", J::Bool(true))),
                    other => o.push(("other", s(format!("{:?}", other)))),
                }
                o.push(("ops", J::Arr(ops.iter().map(|x| self.operand(body, env, x)).collect())));
                J::Obj(o)
            }
            Rvalue::Repeat(op, _) => J::Obj(vec![("k", s("repeat")), ("a", self.operand(body, env, op))]),
            Rvalue::ThreadLocalRef(d) => J::Obj(vec![("k", s("tls")), ("def", s(self.path(*d)))]),
            other => J::Obj(vec![("k", s("other")), ("dbg", s(format!("{:?}", other)))]),
        }
    }

    fn unwind(&self, u: &UnwindAction) -> J {
        match u {
            UnwindAction::Cleanup(b) => J::Int(b.index() as i128),
            _ => J::Null,
        }
    }

    fn block(&self, body: &Body<'tcx>, env: TypingEnv<'tcx>, bb: &BasicBlockData<'tcx>) -> J {
        let tcx = self.tcx;
        let mut stmts = Vec::new();
        for st in &bb.statements {
            match &st.kind {
                StatementKind::Assign(b) => {
                    let (p, rv) = &**b;
                    stmts.push(J::Obj(vec![
                        ("p", self.place(body, *p)),
                        ("rv", self.rvalue(body, env, rv)),
                        ("ln", self.line(st.source_info.span)),
                    ]));
                }
                StatementKind::SetDiscriminant { place, variant_index } => {
                    stmts.push(J::Obj(vec![
                        ("p", self.place(body, **place)),
                        ("rv", J::Obj(vec![("k", s("setdiscr")), ("v", J::Int(variant_index.index() as i128))])),
                        ("ln", self.line(st.source_info.span)),
                    ]));
                }
                _ => {}
            }
        }
        let term = bb.terminator();
        let mut t: Vec<(&'static str, J)> = Vec::new();
        match &term.kind {
            TerminatorKind::Goto { target } => {
                t.push(("k", s("goto")));
                t.push(("t", J::Int(target.index() as i128)));
            }
            TerminatorKind::SwitchInt { discr, targets } => {
                t.push(("k", s("switch")));
                t.push(("d", self.operand(body, env, discr)));
                t.push(("dty", s(self.ty(discr.ty(&body.local_decls, tcx)))));
                let mut v = Vec::new();
                for (val, tgt) in targets.iter() {
                    v.push(J::Arr(vec![J::Int(val as i128), J::Int(tgt.index() as i128)]));
                }
                t.push(("vs", J::Arr(v)));
                t.push(("else", J::Int(targets.otherwise().index() as i128)));
            }
            TerminatorKind::Return => t.push(("k", s("return"))),
            TerminatorKind::Unreachable => t.push(("k", s("unreachable"))),
            TerminatorKind::UnwindResume => t.push(("k", s("resume"))),
            TerminatorKind::UnwindTerminate(_) => t.push(("k", s("abort"))),
            TerminatorKind::Drop { place, target, unwind, .. } => {
                t.push(("k", s("drop")));
                t.push(("pl", self.place(body, *place)));
                t.push(("ty", s(self.ty(place.ty(&body.local_decls, tcx).ty))));
                t.push(("t", J::Int(target.index() as i128)));
                t.push(("u", self.unwind(unwind)));
            }
            TerminatorKind::Call { func, args, destination, target, unwind, .. } => {
                t.push(("k", s("call")));
                let fty = func.ty(&body.local_decls, tcx);
                match fty.kind() {
                    ty::FnDef(d, ga) => {
                        t.push(("callee", s(self.path(*d))));
                        t.push(("full", s(self.path_args(*d, ga))));
                        let gav: Vec<J> = ga
                            .iter()
                            .filter_map(|a| a.as_type())
                            .map(|x| s(self.ty(x)))
                            .collect();
                        t.push(("targs", J::Arr(gav)));
                        match Instance::try_resolve(tcx, env, *d, ga) {
                            Ok(Some(inst)) => {
                                t.push(("res", s(self.path(inst.def_id()))));
                                let kind = match inst.def {
                                    ty::InstanceKind::Item(_) => "item",
                                    ty::InstanceKind::Virtual(..) => "virtual",
                                    ty::InstanceKind::ClosureOnceShim { .. } => "closure_once",
                                    ty::InstanceKind::FnPtrShim(..) => "fnptr",
                                    ty::InstanceKind::DropGlue(..) => "dropglue",
                                    ty::InstanceKind::CloneShim(..) => "cloneshim",
                                    _ => "shim",
                                };
                                t.push(("rk", s(kind)));
                            }
                            _ => t.push(("res", J::Null)),
                        }
                    }
                    _ => {
                        t.push(("callee", J::Null));
                        t.push(("fop", self.operand(body, env, func)));
                        t.push(("fty", s(self.ty(fty))));
                    }
                }
                t.push((
                    "args",
                    J::Arr(args.iter().map(|a| self.operand(body, env, &a.node)).collect()),
                ));
                t.push(("dest", self.place(body, *destination)));
                t.push(("t", target.map(|b| J::Int(b.index() as i128)).unwrap_or(J::Null)));
                t.push(("u", self.unwind(unwind)));
            }
            TerminatorKind::Assert { cond, expected, target, unwind, msg } => {
                t.push(("k", s("assert")));
                t.push(("c", self.operand(body, env, cond)));
                t.push(("exp", J::Bool(*expected)));
                t.push(("t", J::Int(target.index() as i128)));
                t.push(("u", self.unwind(unwind)));
                t.push(("msg", s(format!("{:?}", msg).chars().take(80).collect::<String>())));
            }
            TerminatorKind::FalseEdge { real_target, .. } => {
                t.push(("k", s("goto")));
                t.push(("t", J::Int(real_target.index() as i128)));
            }
            TerminatorKind::FalseUnwind { real_target, .. } => {
                t.push(("k", s("goto")));
                t.push(("t", J::Int(real_target.index() as i128)));
            }
            other => {
                t.push(("k", s("other")));
                t.push(("dbg", s(format!("{:?}", other).chars().take(200).collect::<String>())));
                let succ: Vec<J> = term.successors().map(|b| J::Int(b.index() as i128)).collect();
                t.push(("succ", J::Arr(succ)));
            }
        }
        t.push(("ln", self.line(term.source_info.span)));
        t.push(("exp", J::Bool(term.source_info.span.from_expansion())));
        J::Obj(vec![
            ("cleanup", J::Bool(bb.is_cleanup)),
            ("s", J::Arr(stmts)),
            ("t", J::Obj(t)),
        ])
    }

    fn func(&self, ld: LocalDefId) -> Option<J> {
        let tcx = self.tcx;
        let did = ld.to_def_id();
        let kind = tcx.def_kind(did);
        let kname = match kind {
            DefKind::Fn => "fn",
            DefKind::AssocFn => "method",
            DefKind::Closure => "closure",
            _ => return None,
        };
        if !tcx.is_mir_available(did) {
            return None;
        }
        let body: &Body<'tcx> = tcx.optimized_mir(did);
        let env = TypingEnv::post_analysis(tcx, did);
        let mut o: Vec<(&'static str, J)> = Vec::new();
        o.push(("id", s(self.path(did))));
        o.push(("kind", s(kname)));
        let (file, line) = self.loc(tcx.def_span(did));
        o.push(("file", s(file)));
        o.push(("line", J::Int(line)));
        o.push(("exp", J::Bool(tcx.def_span(did).from_expansion())));
        if matches!(kind, DefKind::Fn | DefKind::AssocFn) {
            o.push(("vis", s(format!("{:?}", tcx.visibility(did)))));
            o.push(("name", s(tcx.item_name(did).to_string())));
        }
        let parent = tcx.parent(did);
        o.push(("parent", s(self.path(parent))));
        if kind == DefKind::Closure {
            let root = tcx.typeck_root_def_id(did);
            o.push(("root", s(self.path(root))));
        }
        if kind == DefKind::AssocFn {
            let pk = tcx.def_kind(parent);
            if let DefKind::Impl { of_trait } = pk {
                let self_ty = tcx.type_of(parent).instantiate_identity().skip_norm_wip();
                o.push(("self_ty", s(self.ty(self_ty))));
                if of_trait {
                    let tr = tcx.impl_trait_ref(parent).instantiate_identity().skip_norm_wip();
                    o.push(("trait", s(self.path(tr.def_id))));
                }
            } else if pk == DefKind::Trait {
                o.push(("trait_default", s(self.path(parent))));
            }
        }
        o.push(("argc", J::Int(body.arg_count as i128)));
        // locals
        let mut names: Vec<Option<String>> = vec![None; body.local_decls.len()];
        for vdi in &body.var_debug_info {
            if let mir::VarDebugInfoContents::Place(p) = &vdi.value {
                if p.projection.is_empty() {
                    names[p.local.index()] = Some(vdi.name.to_string());
                } else if names[p.local.index()].is_none() {
                    // captured upvar etc: keep a hint
                }
            }
        }
        let mut locals = Vec::new();
        for (i, d) in body.local_decls.iter_enumerated() {
            locals.push(J::Obj(vec![
                ("ty", s(self.ty(d.ty))),
                ("n", names[i.index()].clone().map(J::Str).unwrap_or(J::Null)),
            ]));
        }
        o.push(("locals", J::Arr(locals)));
        let mut blocks = Vec::new();
        for bb in body.basic_blocks.iter() {
            blocks.push(self.block(body, env, bb));
        }
        o.push(("blocks", J::Arr(blocks)));
        Some(J::Obj(o))
    }

    fn adts(&self) -> (J, J, J) {
        let tcx = self.tcx;
        let mut adts = Vec::new();
        let mut impls = Vec::new();
        let mut consts = Vec::new();
        for ld in tcx.hir_crate_items(()).definitions() {
            let did = ld.to_def_id();
            match tcx.def_kind(did) {
                DefKind::Struct | DefKind::Enum | DefKind::Union => {
                    let adt = tcx.adt_def(did);
                    let mut vs = Vec::new();
                    let discrs: Vec<u128> = if adt.is_enum() {
                        adt.discriminants(tcx).map(|(_, d)| d.val).collect()
                    } else {
                        vec![0]
                    };
                    for (i, v) in adt.variants().iter().enumerate() {
                        let fields: Vec<J> = v
                            .fields
                            .iter()
                            .map(|f| {
                                let fty = tcx.type_of(f.did).instantiate_identity().skip_norm_wip();
                                J::Obj(vec![
                                    ("n", s(f.name.to_string())),
                                    ("ty", s(self.ty(fty))),
                                    ("vis", s(format!("{:?}", f.vis))),
                                ])
                            })
                            .collect();
                        vs.push(J::Obj(vec![
                            ("n", s(v.name.to_string())),
                            ("d", J::Int(*discrs.get(i).unwrap_or(&0) as i128)),
                            ("fields", J::Arr(fields)),
                        ]));
                    }
                    let (file, line) = self.loc(tcx.def_span(did));
                    adts.push(J::Obj(vec![
                        ("id", s(self.path(did))),
                        ("kind", s(if adt.is_enum() { "enum" } else if adt.is_struct() { "struct" } else { "union" })),
                        ("vis", s(format!("{:?}", tcx.visibility(did)))),
                        ("file", s(file)),
                        ("line", J::Int(line)),
                        ("variants", J::Arr(vs)),
                    ]));
                }
                DefKind::Impl { of_trait } => {
                    let self_ty = tcx.type_of(did).instantiate_identity().skip_norm_wip();
                    let mut o = vec![("self_ty", s(self.ty(self_ty)))];
                    if of_trait {
                        let tr = tcx.impl_trait_ref(did).instantiate_identity().skip_norm_wip();
                        o.push(("trait", s(self.path(tr.def_id))));
                        o.push(("trait_full", s(with_no_trimmed_paths!(format!("{}", tr)))));
                    }
                    let items: Vec<J> = tcx
                        .associated_items(did)
                        .in_definition_order()
                        .map(|it| s(self.path(it.def_id)))
                        .collect();
                    o.push(("items", J::Arr(items)));
                    let (file, line) = self.loc(tcx.def_span(did));
                    o.push(("file", s(file)));
                    o.push(("line", J::Int(line)));
                    impls.push(J::Obj(o));
                }
                DefKind::Const { .. } | DefKind::AssocConst { .. } => {
                    // evaluated value of scalar consts (e.g. MAGIC numbers, thresholds)
                    let mut o = vec![("id", s(self.path(did)))];
                    let t = tcx.type_of(did).instantiate_identity().skip_norm_wip();
                    o.push(("ty", s(self.ty(t))));
                    if tcx.generics_of(did).is_empty() && !matches!(tcx.def_kind(tcx.parent(did)), DefKind::Trait) {
                        if let Ok(v) = tcx.const_eval_poly(did) {
                            match v {
                                ConstValue::Scalar(mir::interpret::Scalar::Int(si)) => {
                                    o.push(("val", J::Int(si.to_bits(si.size()) as i128)));
                                }
                                ConstValue::Slice { .. } => {
                                    if let Some(b) = v.try_get_slice_bytes_for_diagnostics(tcx) {
                                        o.push(("bytes", J::Arr(b.iter().map(|x| J::Int(*x as i128)).collect())));
                                    }
                                }
                                ConstValue::Indirect { alloc_id, offset } => {
                                    if let Some(bytes) = alloc_bytes(tcx, alloc_id, offset.bytes() as usize, 2) {
                                        if bytes.len() <= 256 {
                                            o.push(("bytes", J::Arr(bytes.iter().map(|b| J::Int(*b as i128)).collect())));
                                        }
                                    }
                                }
                                _ => {}
                            }
                        }
                    }
                    consts.push(J::Obj(o));
                }
                _ => {}
            }
        }
        (J::Arr(adts), J::Arr(impls), J::Arr(consts))
    }
}

struct Cb {
    out_dir: Option<String>,
}

impl Callbacks for Cb {
    fn after_analysis<'tcx>(&mut self, _c: &rustc_interface::interface::Compiler, tcx: TyCtxt<'tcx>) -> Compilation {
        let Some(dir) = self.out_dir.clone() else { return Compilation::Continue };
        let cx = Cx { tcx };
        let krate = tcx.crate_name(rustc_hir::def_id::LOCAL_CRATE).to_string();
        let mut fns = Vec::new();
        for ld in tcx.hir_body_owners() {
            if let Some(f) = cx.func(ld) {
                fns.push(f);
            }
        }
        let nfns = fns.len();
        let (adts, impls, consts) = cx.adts();
        let cfgs: Vec<J> = {
            let mut v: Vec<String> = tcx
                .sess
                .config
                .iter()
                .filter(|(k, _)| k.as_str() == "feature")
                .filter_map(|(_, v)| v.map(|x| x.to_string()))
                .collect();
            v.sort();
            v.into_iter().map(J::Str).collect()
        };
        let root = J::Obj(vec![
            ("crate", s(krate.clone())),
            ("features", J::Arr(cfgs)),
            ("nfns", J::Int(nfns as i128)),
            ("fns", J::Arr(fns)),
            ("adts", adts),
            ("impls", impls),
            ("consts", consts),
        ]);
        let mut out = String::with_capacity(32 << 20);
        root.write(&mut out);
        let path = format!("{}/{}.json", dir, krate);
        let tmp = format!("{}.tmp.{}", path, std::process::id());
        std::fs::write(&tmp, out).expect("write facts");
        std::fs::rename(&tmp, &path).expect("rename facts");
        eprintln!("fvdriver: wrote {} ({} fns)", path, nfns);
        Compilation::Continue
    }
}

fn main() {
    let mut args: Vec<String> = std::env::args().collect();
    // wrapper mode: argv[1] is the path of the real rustc
    if args.len() > 1 && (args[1].ends_with("rustc") || args[1].contains("/rustc")) {
        args.remove(1);
    }
    let mut crate_name = String::new();
    let mut is_build_script = false;
    let mut i = 0;
    while i < args.len() {
        if args[i] == "--crate-name" && i + 1 < args.len() {
            crate_name = args[i + 1].clone();
        }
        if args[i].starts_with("build_script_") {
            is_build_script = true;
        }
        i += 1;
    }
    let wanted = std::env::var("VERIF_CRATES").unwrap_or_else(|_| "fjall".to_string());
    let dump = !is_build_script
        && !crate_name.is_empty()
        && wanted.split(',').any(|w| w.trim() == crate_name)
        // `cargo check` also asks rustc for target info (`-vV`, `--print`): never dump there
        && !args.iter().any(|a| a.starts_with("--print") || a == "-vV");
    let out_dir = if dump { std::env::var("VERIF_FACTS_DIR").ok() } else { None };
    let mut cb = Cb { out_dir };
    rustc_driver::run_compiler(&args, &mut cb);
}
