#!/usr/bin/env python3
"""Regenerates MANIFEST.json from the property modules that exist (keeps it valid at all times)."""
import importlib, json, os, sys

VERIF = os.path.dirname(os.path.dirname(os.path.abspath(__file__)))
sys.path.insert(0, VERIF)

props = [json.loads(l) for l in open(os.path.join(VERIF, "properties.jsonl"))]
checks = []
na = []
NA_REASONS = {}
try:
    NA_REASONS = json.load(open(os.path.join(VERIF, "tools", "not_applicable.json")))
except OSError:
    pass
for p in props:
    pid = p["id"]
    path = os.path.join(VERIF, "rules", "props", pid + ".py")
    if pid in NA_REASONS:
        na.append({"property_id": pid, "reason": NA_REASONS[pid]})
        continue
    if not os.path.exists(path):
        na.append({"property_id": pid, "reason": "check under construction (static-analysis rules not yet armed; see DESIGN.md section 4)"})
        continue
    mod = importlib.import_module("rules.props." + pid)
    m = mod.META
    checks.append({
        "property_id": pid,
        "quick_cmd": "bin/check %s quick" % pid,
        "thorough_cmd": "bin/check %s thorough" % pid,
        "evidence_file": "/verif/evidence/%s.json" % pid,
        "replay_cmd_template": "bin/check %s --replay {path}" % pid,
        "engine": "mir-rules",
        "technique": m["technique"],
        "level_claimed": {
            "category": "other",
            "text": ("Static analysis of the type-checked MIR of /repo's current tree. Decides the structural NECESSARY conditions of "
                     "the property (listed in the evidence explanation), for all call sites and all CFG paths, in every analysed "
                     "feature configuration; it does not decide the behavioural statement itself. " + m["explanation"]),
            "design_ref": "DESIGN.md section 4, %s" % pid,
        },
        "level_note": "NOT decided: " + "; ".join(m.get("not_decided", [])) + ". Trusted base / assumptions: rustc front end and MIR construction, "
                      "the fact extractor (driver/), std and lsm-tree API contracts (DESIGN.md section 2); " + "; ".join(m.get("assumptions", [])),
    })
manifest = {
    "version": 1,
    "setup_cmd": "bin/check --setup",
    "hooks": {
        "guard": "fjall_verif",
        "enable": "none needed: the analysis reads the type-checked program through a rustc driver (RUSTC_WORKSPACE_WRAPPER); no instrumentation is compiled into fjall",
        "baseline_off_cmd": "cd /repo && cargo test --workspace --no-fail-fast --offline",
        "source_commits": [],
        "add_only": True,
    },
    "engines": [
        {"name": "mir-facts", "path": "driver/", "serves_properties": [c["property_id"] for c in checks],
         "kind_free_text": "rustc_private driver dumping the resolved MIR program (calls with resolved callees, CFG, places, constants, ADTs) as JSON"},
        {"name": "mir-rules", "path": "rules/", "serves_properties": [c["property_id"] for c in checks],
         "kind_free_text": "repository-specific static rules (python, stdlib): dominance/must-pass-through on configuration-specialised CFGs, held-guard dataflow, lock-order graph, origin terms, error-edge discipline, who-may-call tables, codec agreement"},
        {"name": "witness", "path": "witness/", "serves_properties": ["C03", "C05", "C08", "C14"],
         "kind_free_text": "compile_fail doc-test witnesses with compiling twins (thorough tier)"},
        {"name": "selftest", "path": "selftest/", "serves_properties": [c["property_id"] for c in checks],
         "kind_free_text": "mutation corpus testing the checker both ways (break mutants must be reported, equivalent refactors must stay silent)"},
    ],
    "checks": checks,
    "not_applicable": na,
    "notes": "All checks are static (no execution of fjall). exit 2 = machinery failure, never a verdict. Known findings: known_findings.json.",
}
with open(os.path.join(VERIF, "MANIFEST.json"), "w") as f:
    json.dump(manifest, f, indent=1)
print("claimed:", [c["property_id"] for c in checks])
print("not applicable / pending:", [n["property_id"] for n in na])
