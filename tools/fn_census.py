#!/usr/bin/env python3
"""Development aid: which functions of the crate does NO rule of any property name or examine?  (Reads the cached fact base
of /repo HEAD, runs every property module once, lists the untouched functions per source file.)  Used in DESIGN 9.13 to look
for blind spots; not a registered check."""
import sys, importlib, collections
sys.path.insert(0, "/verif")
from rules import extract, core
from rules.facts import Facts
F = Facts(extract.facts_for("default"))
touched = collections.Counter()
for i in range(1, 19):
    pid = "C%02d" % i
    mod = importlib.import_module("rules.props." + pid)
    ctx = core.Ctx(pid, F, "default", "quick")
    core.run_module(mod, ctx)
    for f in ctx.fns_touched:
        touched[f.split("::{closure")[0]] += 1
    for o in ctx.obs:
        fn = getattr(o, "fn", None) or getattr(o, "function", None)
        if fn: touched[str(fn).split("::{closure")[0]] += 1
allf = sorted(set(f.split("::{closure")[0] for f in F.fns))
un = [f for f in allf if touched[f] == 0]
print(len(allf), "fns;", len(un), "untouched")
by = collections.defaultdict(list)
for f in un:
    fn = F.fns.get(f)
    loc = fn.loc(0) if fn else "?"
    by[loc.split(":")[0]].append(f)
for k in sorted(by):
    print(k, len(by[k]))
    for f in by[k]:
        print("    ", f)
