import json, os, subprocess, sys
props = {json.loads(l)["id"]: json.loads(l) for l in open("/verif/properties.jsonl")}
KNOWN = {
 "C11": "nothing open (earlier findings about clear records, the meta keyspace and deleted keyspaces' records are already repaired in this tree)",
 "C13": "nothing open (ingestion / keyspace creation on a poisoned instance are already repaired); Database::persist checking the poison flag before taking the journal lock is known and judged harmless",
 "C14": "a single worker blocking on its own full queue (send(Flush) inside inner_rotate_memtable) — background work dies, writers proceed — is known; the visible-seqno bump by flush/compaction is known (find something ELSE)",
 "C15": "nothing yet",
 "C16": "nothing yet (`Leveled::with_level_ratio_policy` with more than 255 entries is truncated by lsm-tree's own encoding — known, outside fjall)",

 "C04": "ingestion-after-clear and ingestion-over-a-journaled-key across reopen (already repaired in this tree); a bulk-ingested TOMBSTONE evicted by a last-level compaction lets the deleted key come back after reopen (known, find something ELSE)",
 "C06": "a background flush / compaction / major_compact / keyspace creation or deletion completing between two applies of a batch raises the visible sequence number past the batch (lsm-tree bumps the shared visible counter on every version change) — already known, find something ELSE",
 "C18": "an item removed by a compaction filter comes back after reopen because its journal record is replayed — already known, find something ELSE",
 "C17": "temporary(true): DatabaseInner::drop removes the directory while a surviving Keyspace handle still holds the lock (reported, not yet examined — feel free to confirm it with a test, but look for other things too)",
}
TEMPLATE = """You are a careful reviewer hunting for a GENUINE, PRE-EXISTING bug.

The code base is the Rust crate `fjall` (an embeddable LSM-based key-value store in Rust: keyspaces over lsm-tree sharing one write-ahead journal, crash recovery, background flush/compaction workers, snapshots, batches and transactions). You have your own scratch git worktree of it at {W} (work ONLY there; never touch /repo or /verif; do not read anything under /verif). Build and test strictly offline: always pass `--offline` to cargo and use `CARGO_TARGET_DIR={W}/target`. NEVER use `git stash`.

A semantic property the crate is supposed to satisfy is in {O}/PROPERTY.txt (read it first, including the quantifier and the "why the tests cannot settle it" hint — the hint often names the histories nobody has tried).

Your task: find a history / schedule / input for which the UNCHANGED code in the worktree violates this property, and demonstrate it with a test that FAILS on the unchanged code. Do NOT modify src/. Read the code the property's anchors point to, think about which histories the existing tests never exercise (combinations of: several keyspaces, delete + re-create, clear, bulk ingestion, memtable rotation + flush, major compaction, journal rotation (needs > 64 MB of journal data, e.g. 66 x 1 MB incompressible values into another keyspace followed by `rotate_memtable_and_wait()`), clean reopen, crash images (copy the database directory while the Database is open and open the copy), transactions of both kinds, snapshots held across maintenance, kv-separated keyspaces, non-default options, I/O errors injected with strace (`strace -f -e inject=write:error=ENOSPC:when=N -P <file>`), dropping handles in unusual orders, several threads), and try the most promising candidates. The crate's own tests use doc-hidden hooks you may use too (`db.supervisor`, `keyspace.tree`, `db.seqno()`, `db.visible_seqno()`, `rotate_memtable_and_wait`, `major_compact`, `worker_threads_unchecked`, `journal_count`).

Already known for this property (do not report these again): {known}.

Be honest: if after a serious search (try at least six distinct candidate histories, write them as tests) you find nothing, say so and list what you tried — that is a useful result too. A finding only counts if your test reliably fails on the unchanged code for the stated reason (run it three times) and the failure is a violation of the property as written, not of something stronger.

Deliverables — write these and then stop:
 - {O}/demo/hunt_demo.rs : the failing test(s) (to be placed in tests/), first line a comment with the run command; keep passing sanity variants next to the failing one if they help to pin the cause
 - {O}/meta.json : {{"property":"{P}","found":true|false,"summary":"...","history":"step by step","root_cause":"file:function and why","suggested_fix":"...","tried_without_finding":["..."]}}
Summarise in 5-8 sentences in your final message.
"""
for pid in sys.argv[1:]:
    p = props[pid]
    W = "/tmp/hunt-%s" % pid; O = W + "-out"
    subprocess.check_call(["git", "-C", "/repo", "worktree", "add", "-q", W, "HEAD"])
    os.makedirs(O + "/demo", exist_ok=True)
    open(O + "/PROPERTY.txt", "w").write("Property %s: %s\n\n%s\n\nQuantifier: %s\n\nWhy the existing tests cannot settle it: %s\n\nAnchors (where the mechanism lives):\n%s\n" % (
        pid, p["title"], p["statement"], p["quantifier"]["text"], p["why_tests_cant"], json.dumps(p["anchors"], indent=1)))
    open(O + "/PROMPT.txt", "w").write(TEMPLATE.format(W=W, O=O, P=pid, known=KNOWN.get(pid, "nothing yet")))
    print(pid, "ready")
