import json, os, subprocess, sys
props = {json.loads(l)["id"]: json.loads(l) for l in open("/verif/properties.jsonl")}
KNOWN = {
 "C13": "nothing open in this tree: a journal failure inside a background worker now poisons under the journal lock, Database::persist checks and sets the flag under the lock, ingestion / keyspace creation / deletion refuse on a poisoned instance; an EMPTY batch commit returning Ok on a poisoned instance is known and vacuous",
 "C14": "a single worker blocking on its own full queue (send(Flush) inside inner_rotate_memtable) is known; the visible-seqno bump by flush/compaction/keyspace creation is known; point reads now read at a snapshot instant and the write-halt loop now requests compaction (both recently changed: regressions there are interesting)",
 "C17": "a crash during the very FIRST open leaves a directory that can never be opened (known); WorkerPool::start mis-counts the thread counter when a thread spawn fails (known); keyspace handles now hold a weak worker sender and the flush manager refuses tasks after the database was dropped (recently changed: regressions there are interesting)",
 "C03": "power loss: tables are fsynced while the journal is only written to the OS (known); a damaged record in the MIDDLE of a journal is treated as the torn tail (known); the Start marker's seqno is not covered by the checksum (known); the journal buffer is now written out when a memtable is sealed (recently changed)",
 "C12": "WriteBatch::commit and Keyspace::clear through the handle of a deleted keyspace are not refused (known: the property lists only direct inserts and removes); keyspace handles now compare by id and hold a weak worker sender (recently changed)",
 "C05": "a flush / compaction / major_compact / keyspace creation or deletion that completes while a batch applies its items raises the visible seqno past the batch (known); lsm-tree's CompactionStream may drop a version that a snapshot lying between two versions still needs (dependency, known)",
}
TEMPLATE = """You are a careful reviewer hunting for a GENUINE, PRE-EXISTING bug.

The code base is the Rust crate `fjall` (an embeddable LSM-based key-value store in Rust: keyspaces over lsm-tree sharing one write-ahead journal, crash recovery, background flush/compaction workers, snapshots, batches and transactions). You have your own scratch git worktree of it at {W} (work ONLY there; never touch /repo or /verif; do not read anything under /verif). Build and test strictly offline: always pass `--offline` to cargo and use `CARGO_TARGET_DIR={W}/target`. NEVER use `git stash`.

A semantic property the crate is supposed to satisfy is in {O}/PROPERTY.txt (read it first, including the quantifier and the "why the tests cannot settle it" hint — the hint often names the histories nobody has tried).

Your task: find a history / schedule / input for which the UNCHANGED code in the worktree violates this property, and demonstrate it with a test that FAILS on the unchanged code. Do NOT modify src/. Read the code the property's anchors point to, think about which histories the existing tests never exercise (combinations of: several keyspaces, delete + re-create, clear, bulk ingestion, memtable rotation + flush, major compaction, journal rotation (needs > 64 MB of journal data, e.g. 66 x 1 MB incompressible values into another keyspace followed by `rotate_memtable_and_wait()`), clean reopen, crash images (copy the database directory while the Database is open and open the copy), transactions of both kinds, snapshots held across maintenance, kv-separated keyspaces, non-default options, I/O errors injected with strace (`strace -f -e inject=write:error=ENOSPC:when=N -P <file>`), dropping handles in unusual orders, several threads), and try the most promising candidates. The crate's own tests use doc-hidden hooks you may use too (`db.supervisor`, `keyspace.tree`, `db.seqno()`, `db.visible_seqno()`, `rotate_memtable_and_wait`, `major_compact`, `worker_threads_unchecked`, `journal_count`).

Already known for this property (do not report these again): {known}.

Be honest: if after a serious search (try at least six distinct candidate histories, write them as tests) you find nothing, say so and list what you tried — that is a useful result too. A finding only counts if your test reliably fails on the unchanged code for the stated reason (run it three times) and the failure is a violation of the property as written, not of something stronger.

Deliverables — write these and then stop:
 - {O}/demo/hunt_demo.rs : the failing test(s) (to be placed in tests/), first line a comment with the run command; keep passing sanity variants next to the failing one if they help to pin the cause
 - {O}/meta.json : {{"property":"{P}","found":true|false,"summary":"...","history":"step by step","root_cause":"file:function and why","suggested_fix":"...","tried_without_finding":["..."]}}
Summarise in 5-8 sentences in your final message.
"""
for pid in sys.argv[1:]:
    p = props[pid]
    W = "/tmp/hunt-%s" % pid; O = W + "-out"
    subprocess.check_call(["git", "-C", "/repo", "worktree", "add", "-q", W, "HEAD"])
    os.makedirs(O + "/demo", exist_ok=True)
    open(O + "/PROPERTY.txt", "w").write("Property %s: %s\n\n%s\n\nQuantifier: %s\n\nWhy the existing tests cannot settle it: %s\n\nAnchors (where the mechanism lives):\n%s\n" % (
        pid, p["title"], p["statement"], p["quantifier"]["text"], p["why_tests_cant"], json.dumps(p["anchors"], indent=1)))
    open(O + "/PROMPT.txt", "w").write(TEMPLATE.format(W=W, O=O, P=pid, known=KNOWN.get(pid, "nothing yet")))
    print(pid, "ready")
