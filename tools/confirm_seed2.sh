#!/bin/bash
# usage: tools/confirm_seed2.sh <worktree> <outdir> [demo command, run inside the worktree; default: cargo test --offline --test seed_demo]
# Confirms a seeded change in its scratch worktree: (1) the worktree's src diff is the patch, (2) the existing suite
# passes with it, (3) the demo fails with it, (4) the demo passes without it.
# (no `git stash`: refs/stash is shared by all worktrees of a repository, concurrent users would pop each other's changes)
W=$1; O=$2; shift 2; T=$W/target
cd $W || exit 2
git diff -- src > $O/cur.diff
if ! diff -q <(grep -v '^index ' $O/cur.diff) <(grep -v '^index ' $O/patch.diff) >/dev/null; then echo "NOTE: worktree diff differs from patch.diff; re-applying"; git checkout -- src; git apply $O/patch.diff || exit 2; fi
export CARGO_TARGET_DIR=$T CARGO_NET_OFFLINE=true
demo=${*:-cargo test --offline --test seed_demo}
echo "== suite with change"; timeout ${SUITE_TIMEOUT:-1800} cargo test --workspace --no-fail-fast --offline > $O/confirm_suite.log 2>&1; grep -E "^test .* FAILED|^test result: FAILED" $O/confirm_suite.log | head; grep -c "^test result: ok" $O/confirm_suite.log
echo "== demo with change (must FAIL)"; timeout 900 bash -c "$demo" > $O/confirm_demo_with.log 2>&1; echo "exit=$?"; grep -E "^test |test result|VIOLATION|FAIL|OK" $O/confirm_demo_with.log | head -12
git apply -R $O/patch.diff || exit 2
echo "== demo without change (must PASS)"; timeout 900 bash -c "$demo" > $O/confirm_demo_without.log 2>&1; echo "exit=$?"; grep -E "^test |test result|VIOLATION|FAIL|OK" $O/confirm_demo_without.log | head -12
git apply $O/patch.diff
