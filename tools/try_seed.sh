#!/bin/bash
# usage: tools/try_seed.sh <patch.diff> [props...]
# Runs the quick checks against a scratch copy of /repo with the patch applied (so that /repo itself is never touched
# while other checks may be running); no evidence is written. (Equivalent to: git -C /repo apply; checks; git checkout.)
P=$(readlink -f "$1"); shift
S=$(mktemp -d /tmp/tryseed-XXXXXX)
cp /repo/Cargo.toml /repo/Cargo.lock $S/ && cp -r /repo/src $S/src
( cd $S && git init -q . 2>/dev/null && git apply "$P" ) || { echo "patch does not apply"; rm -rf $S; exit 2; }
props=${@:-$(seq -f "C%02g" 1 18)}
cd /verif
for p in $props; do VERIF_REPO=$S VERIF_NO_EVIDENCE=1 bin/check $p quick 2>&1 | grep -E "VIOLATION|^   |new violation" | grep -v " 0 new violation" ; done
rm -rf $S
