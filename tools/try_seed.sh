#!/bin/bash
# usage: tools/try_seed.sh <patch.diff> [props...]   applies the patch to /repo, runs the quick checks, reverts /repo
P=$1; shift
cd /repo && git apply "$P" || { echo "patch does not apply"; exit 2; }
cd /verif
props=${@:-$(seq -f "C%02g" 1 18)}
for p in $props; do bin/check $p quick 2>&1 | grep -E "VIOLATION|^   |new violation" | grep -v " 0 new violation" ; done
git -C /repo checkout -- . ; git -C /repo status --short | head -3
