#!/usr/bin/env python3
"""usage: tools/keep_seed.py <Cxx> <seed-id> <caught_by|MISSED> "<what I ran>" [outdir]  — stores /tmp/seed-<Cxx>-out as /verif/seeded/<seed-id>/"""
import json, os, shutil, sys
pid, sid, caught, ran = sys.argv[1:5]
src = sys.argv[5] if len(sys.argv) > 5 else "/tmp/seed-%s-out" % pid
dst = os.path.join("/verif/seeded", sid)
os.makedirs(dst, exist_ok=True)
shutil.copy(os.path.join(src, "patch.diff"), os.path.join(dst, "patch.diff"))
if os.path.isdir(os.path.join(dst, "demo")):
    shutil.rmtree(os.path.join(dst, "demo"))
shutil.copytree(os.path.join(src, "demo"), os.path.join(dst, "demo"))
meta = json.load(open(os.path.join(src, "meta.json")))
meta["id"] = sid
meta["breaks_property"] = pid
meta["author"] = "independent sub-agent (saw only the property text and a scratch worktree, nothing from /verif)"
meta["confirmed_by_me"] = ran
meta["detected_by"] = caught
json.dump(meta, open(os.path.join(dst, "meta.json"), "w"), indent=1)
print("kept", dst)
