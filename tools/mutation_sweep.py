#!/usr/bin/env python3
"""Gap finder (development aid, not a registered check): generic one-token mutants of fjall's src/, run through the
quick rules of ALL properties on scratch copies (same machinery as selftest/run.py).

  tools/mutation_sweep.py gen   [--files f1,f2] [--max N] [--seed S] -> /verif/cache/sweep/mutants.json
  tools/mutation_sweep.py check [--jobs N]      -> which mutants any rule reports   (cache/sweep/checked.json)
  tools/mutation_sweep.py suite [--jobs N]      -> for mutants NO rule reports: does the repo's own test suite still pass?
                                                   (cache/sweep/suite.json; survivors = candidates for triage by reading)

A survivor is not automatically a property violation (many are equivalent or break something no listed property
covers); each is triaged by reading. What the triage found is recorded in DESIGN.md.
"""
import argparse, json, os, random, re, shutil, subprocess, sys, tempfile
from multiprocessing import Pool, Value

VERIF = os.path.dirname(os.path.dirname(os.path.abspath(__file__)))
sys.path.insert(0, VERIF)
from rules import extract  # noqa: E402
from selftest import run as ST  # noqa: E402

OUT = os.path.join(VERIF, "cache", "sweep")
DEFAULT_FILES = ["src/keyspace/mod.rs", "src/batch/mod.rs", "src/db.rs", "src/recovery.rs", "src/worker_pool.rs",
                 "src/journal/mod.rs", "src/journal/writer.rs", "src/journal/reader.rs", "src/journal/batch_reader.rs",
                 "src/journal/manager.rs", "src/journal/entry.rs", "src/journal/recovery.rs", "src/snapshot_tracker.rs",
                 "src/snapshot_nonce.rs", "src/snapshot.rs", "src/tx/write_tx.rs", "src/tx/conflict_manager.rs", "src/tx/oracle.rs",
                 "src/tx/optimistic/mod.rs", "src/tx/optimistic/write_tx.rs", "src/tx/optimistic/keyspace.rs",
                 "src/tx/single_writer/mod.rs", "src/tx/single_writer/write_tx.rs", "src/tx/single_writer/keyspace.rs",
                 "src/meta_keyspace.rs", "src/ingestion.rs", "src/flush/manager.rs", "src/flush/worker.rs", "src/compaction/worker.rs",
                 "src/locked_file.rs", "src/poison.rs", "src/keyspace/options.rs", "src/supervisor.rs", "src/readable.rs", "src/iter.rs",
                 "src/version.rs", "src/file.rs", "src/write_buffer_manager.rs", "src/builder.rs", "src/db_config.rs"]

OPS = [
    (r" == ", " != "), (r" != ", " == "), (r" <= ", " < "), (r" >= ", " > "), (r" < ", " <= "), (r" > ", " >= "),
    (r" && ", " || "), (r" \|\| ", " && "), (r" \+ 1\b", ""), (r" \+ 1\b", " + 2"), (r" - 1\b", ""),
    (r"\bif !", "if "), (r"\btrue\b", "false"), (r"\bfalse\b", "true"),
    (r"\.min\(", ".max("), (r"\.max\(", ".min("), (r"fetch_max\(", "fetch_min("),
    (r"\.is_some\(\)", ".is_none()"), (r"\.is_none\(\)", ".is_some()"), (r"\.is_empty\(\)", ".is_empty() == false"),
    (r"Ordering::Release", "Ordering::Relaxed"), (r"Ordering::Acquire", "Ordering::Relaxed"),
    (r"SyncAll", "SyncData"), (r"PersistMode::Buffer", "PersistMode::SyncData"),
    # second batch
    (r"\)\?;$", ").ok();"), (r"fetch_add\(", "fetch_sub("), (r"fetch_sub\(", "fetch_add("), (r"saturating_sub\(", "saturating_add("),
    (r"\.is_ok\(\)", ".is_err()"), (r"\bcontinue;", "break;"), (r"\.try_send\(", ".send("), (r"\.unwrap_or_default\(\)", ".unwrap_or(1)"),
    (r" = None;", " = Default::default();"), (r"\.iter\(\)", ".iter().rev()"), (r"\.values\(\)", ".values().skip(1)"), (r"\.into_iter\(\)", ".into_iter().rev()"),
]
SECOND_BATCH_FROM = 24


def code_lines(path):
    """(line index, text) of non-test, non-comment lines"""
    s = open(path).read().split("\n")
    out = []
    in_test = False
    for i, l in enumerate(s):
        st = l.strip()
        if st.startswith("#[cfg(test)]"):
            in_test = True
        if in_test:
            continue
        if st.startswith("//") or st.startswith("///") or st.startswith("#[") or st.startswith("log::") or not st:
            continue
        out.append((i, l))
    return s, out


ONLY_SECOND = False
THIRD = False


def gen(files, maxn, seed):
    rnd = random.Random(seed)
    ms = []
    for f in files:
        p = os.path.join(extract.REPO, f)
        if not os.path.exists(p):
            continue
        src, lines = code_lines(p)
        for i, l in lines:
            if "log::" in l or "expect(" in l and "lock is poisoned" in l:
                continue
            # operator mutants
            for k_, (pat, rep) in enumerate(OPS):
                if ONLY_SECOND and k_ < SECOND_BATCH_FROM:
                    continue
                for m in re.finditer(pat, l):
                    if "//" in l[:m.start()]:
                        continue
                    new = l[:m.start()] + rep + l[m.end():]
                    ms.append({"file": f, "line": i + 1, "op": "%s -> %s" % (pat, rep), "old_line": l, "new_line": new})
            # third family: swap two adjacent one-line statements; bump an integer literal
            if THIRD:
                st0 = l.strip()
                nxt = src[i + 1] if i + 1 < len(src) else ""
                if st0.endswith(";") and nxt.strip().endswith(";") and (len(l) - len(l.lstrip())) == (len(nxt) - len(nxt.lstrip())) and \
                        not nxt.strip().startswith(("//", "}", "use ", "#[")) and not st0.startswith(("use ", "#[", "}")) and st0 != nxt.strip() and \
                        st0.count("(") == st0.count(")") and nxt.count("(") == nxt.count(")"):
                    ms.append({"file": f, "line": i + 1, "op": "swap with next statement", "old_line": l, "new_line": nxt + "\n" + l, "swap": True, "old_next": nxt})
                for m in re.finditer(r"(?<![\w.])(\d+)(?![\w.])", l):
                    if "//" in l[:m.start()] or "const " in l or "::<" in l[:m.start()][-12:]:
                        continue
                    ms.append({"file": f, "line": i + 1, "op": "literal +1", "old_line": l, "new_line": l[:m.start()] + str(int(m.group(1)) + 1) + l[m.end():]})
            st = l.strip()
            if not ONLY_SECOND and st.endswith(";") and not st.startswith(("let ", "return", "use ", "pub ", "const ", "static ", "break", "continue", "}")) and "(" in st and "=" not in st.split("(")[0]:
                if st.endswith("?;") or st.endswith(");") or st.endswith(".ok();"):
                    ms.append({"file": f, "line": i + 1, "op": "delete statement", "old_line": l, "new_line": l[:len(l) - len(l.lstrip())] + "// (deleted)"})
    rnd.shuffle(ms)
    if THIRD:
        ms = [m for m in ms if m["op"].startswith(("swap", "literal"))]
    if maxn:
        ms = ms[:maxn]
    for k, m in enumerate(ms):
        m["id"] = "SW%04d" % k
    os.makedirs(OUT, exist_ok=True)
    json.dump(ms, open(os.path.join(OUT, "mutants.json"), "w"), indent=1)
    print("generated", len(ms))


def scratch_with(m):
    d = tempfile.mkdtemp(prefix="fjall-sw-")
    for f in ("Cargo.toml", "Cargo.lock"):
        shutil.copy(os.path.join(extract.REPO, f), os.path.join(d, f))
    shutil.copytree(os.path.join(extract.REPO, "src"), os.path.join(d, "src"))
    p = os.path.join(d, m["file"])
    s = open(p).read().split("\n")
    if s[m["line"] - 1] != m["old_line"]:
        return d, "stale"
    s[m["line"] - 1] = m["new_line"]
    if m.get("swap"):
        if s[m["line"]] != m["old_next"]:
            return d, "stale"
        s[m["line"]] = "// (swapped up)"
    open(p, "w").write("\n".join(s))
    return d, None


def _init(counter):
    global SLOT
    with counter.get_lock():
        SLOT = counter.value
        counter.value += 1


def _check(m):
    d, err = scratch_with(m)
    rec = dict(m)
    try:
        if err:
            rec["status"] = err
            return rec
        try:
            res = ST.run_checks(d, ["C%02d" % i for i in range(1, 19)], SLOT)
        except SystemExit:
            rec["status"] = "nobuild"
            return rec
        keys = [k for p, v in res.items() for k, _ in v]
        rec["status"] = "reported" if keys else "silent"
        rec["keys"] = keys[:6]
        return rec
    finally:
        shutil.rmtree(d, ignore_errors=True)


def _suite(m):
    d, err = scratch_with(m)
    rec = dict(m)
    try:
        if err:
            rec["suite"] = err
            return rec
        for extra in ("tests", "benches", "examples", "test_fixture", "README.md", "build.rs"):
            sp = os.path.join(extract.REPO, extra)
            if os.path.isdir(sp):
                shutil.copytree(sp, os.path.join(d, extra))
            elif os.path.exists(sp):
                shutil.copy(sp, os.path.join(d, extra))
        target = os.path.join(extract.CACHE, "target-suite-%d" % SLOT)
        env = dict(os.environ, CARGO_TARGET_DIR=target, CARGO_NET_OFFLINE="true")
        r = subprocess.run("timeout 1500 cargo test --workspace --no-fail-fast --offline --lib --tests 2>&1 | grep -E 'test result|FAILED|panicked|error' | head -40",
                           shell=True, cwd=d, env=env, capture_output=True, text=True)
        out = r.stdout
        oks = out.count("test result: ok")
        failed = "FAILED" in out or "error" in out
        rec["suite"] = "killed" if failed else ("survived" if oks >= 20 else "unclear(%d ok lines)" % oks)
        rec["suite_out"] = out[-600:] if failed else ""
        return rec
    finally:
        shutil.rmtree(d, ignore_errors=True)


def main():
    ap = argparse.ArgumentParser()
    ap.add_argument("cmd")
    ap.add_argument("--files")
    ap.add_argument("--max", type=int, default=0)
    ap.add_argument("--seed", type=int, default=1)
    ap.add_argument("--jobs", type=int, default=8)
    a = ap.parse_args()
    if a.cmd == "gen3":
        global THIRD
        THIRD = True
        gen(a.files.split(",") if a.files else DEFAULT_FILES, a.max, a.seed)
        return
    if a.cmd == "gen2":
        global ONLY_SECOND
        ONLY_SECOND = True
        gen(a.files.split(",") if a.files else DEFAULT_FILES, a.max, a.seed)
        return
    if a.cmd == "gen":
        gen(a.files.split(",") if a.files else DEFAULT_FILES, a.max, a.seed)
        return
    counter = Value("i", 40)
    if a.cmd == "check":
        ms = json.load(open(os.path.join(OUT, "mutants.json")))
        extract.build_driver()
        extract.facts_for("default")
        recs = []
        with Pool(a.jobs, initializer=_init, initargs=(counter,)) as pool:
            for r in pool.imap_unordered(_check, ms, chunksize=1):
                recs.append(r)
                if len(recs) % 25 == 0:
                    json.dump(recs, open(os.path.join(OUT, "checked.json"), "w"), indent=1)
        json.dump(recs, open(os.path.join(OUT, "checked.json"), "w"), indent=1)
        from collections import Counter
        print(Counter(r["status"] for r in recs))
    elif a.cmd == "suite":
        recs = [r for r in json.load(open(os.path.join(OUT, "checked.json"))) if r["status"] == "silent"]
        out = []
        with Pool(a.jobs, initializer=_init, initargs=(counter,)) as pool:
            for r in pool.imap_unordered(_suite, recs, chunksize=1):
                out.append(r)
                json.dump(out, open(os.path.join(OUT, "suite.json"), "w"), indent=1)
        from collections import Counter
        print(Counter(r["suite"] for r in out))


if __name__ == "__main__":
    main()
