#!/bin/bash
# usage: tools/confirm_seed.sh <Cxx> [demo-test-name]
# Confirms a seeded change in its scratch worktree /tmp/seed-<id> (built by a sub-agent): (1) the worktree's src diff is the
# patch, (2) the existing suite passes with it, (3) the demo fails with it, (4) the demo passes without it.
id=$1; W=/tmp/seed-$id; O=/tmp/seed-$id-out; T=$W/target
cd $W || exit 2
git diff -- src > /tmp/seed-$id.cur.diff
if ! diff -q <(grep -v '^index ' /tmp/seed-$id.cur.diff) <(grep -v '^index ' $O/patch.diff) >/dev/null; then echo "NOTE: worktree diff differs from patch.diff; re-applying"; git checkout -- src; git apply $O/patch.diff || exit 2; fi
demo=${2:-seed_demo}
echo "== suite with change"; CARGO_TARGET_DIR=$T timeout 1200 cargo test --workspace --no-fail-fast --offline 2>&1 | grep -E "^test result|FAILED|failed" | grep -v "^test result: ok" | head; 
CARGO_TARGET_DIR=$T timeout 1200 cargo test --workspace --no-fail-fast --offline 2>&1 | grep -E "^test .* FAILED" | head
echo "== demo with change (must FAIL)"; CARGO_TARGET_DIR=$T cargo test --offline --test $demo 2>&1 | grep -E "^test |test result" | head -12
git stash -q -- src; echo "== demo without change (must PASS)"; CARGO_TARGET_DIR=$T cargo test --offline --test $demo 2>&1 | grep -E "^test |test result" | head -12; git stash pop -q
