"""Roles discovered from the fact base (never from text): the write entry points, the journal append
primitives, tree apply calls, publish, lock acquisition functions.  Shared by several properties."""
from . import analysis as A

WRITER = "journal::writer::Writer"
APPEND = (WRITER + "::write_raw", WRITER + "::write_clear", WRITER + "::write_batch")
PERSIST = WRITER + "::persist"
GET_WRITER = "journal::Journal::get_writer"
JOURNAL_PERSIST = "journal::Journal::persist"
PUBLISH = "snapshot_tracker::SnapshotTracker::publish"
SEQNO_NEXT = "lsm_tree::SequenceNumberCounter::next"
POISON = "poison::PoisonSignal::poison"
DART_POISON = "poison::PoisonDart::poison"
IS_POISONED = "poison::PoisonSignal::is_poisoned"
TREE = "<lsm_tree::AnyTree as lsm_tree::AbstractTree>::"
APPLY = tuple(TREE + n for n in ("insert", "remove", "remove_weak", "clear"))
APPLY_ANY = tuple("*AbstractTree>::" + n for n in ("insert", "remove", "remove_weak", "clear")) + tuple(
    "lsm_tree::AbstractTree::" + n for n in ("insert", "remove", "remove_weak", "clear"))
OPEN_VIEW = "snapshot_tracker::SnapshotTracker::open"
ITER_NEW = "iter::Iter::new"

WRITE_ENTRY_EXPECTED = ("keyspace::Keyspace::insert", "keyspace::Keyspace::remove", "keyspace::Keyspace::remove_weak",
                        "keyspace::Keyspace::clear", "batch::WriteBatch::commit")

# default persist configuration: automatic journal persist is on
DEFAULT_CFG = dict(assume_field={"manual_journal_persist": False}, assume_discr={"durability": "Some"})


def in_journal_module(fid):
    return fid.startswith("journal::") or fid.startswith("<journal::")


def write_entries(ctx):
    """fns outside journal:: that call an APPEND primitive directly"""
    out = []
    for fid, fn in ctx.F.fns.items():
        if in_journal_module(fid):
            continue
        if any(A.is_call_to(t, APPEND) for _, t in fn.calls()):
            out.append(fn)
    return sorted(out, key=lambda f: f.id)


def call_blocks(fn, names):
    return [b for b, t in fn.calls() if A.is_call_to(t, names)]


def apply_blocks(fn):
    return [b for b, t in fn.calls() if A.is_call_to(t, APPLY_ANY)]


def j_wrappers(ctx):
    """local fns that hand out the journal guard (Journal::get_writer and thin wrappers around it)"""
    w = getattr(ctx, "_j_wrappers", None)
    if w is None:
        w = {GET_WRITER}
        changed = True
        while changed:
            changed = False
            for fid, f in ctx.F.fns.items():
                if fid in w or f.kind == "closure":
                    continue
                rty = f.local_ty(0)
                if "MutexGuard<" in rty and "journal::writer::Writer" in rty and any(A.cname(t) in w for _, t in f.calls()):
                    w.add(fid)
                    changed = True
        ctx._j_wrappers = w
    return w


def j_acquire_blocks(ctx, fn):
    w = j_wrappers(ctx)
    out = []
    for b, t in fn.calls():
        n = A.cname(t)
        if (n in w and fn.id not in w) or (n.startswith("std::sync::Mutex::<") and "journal::writer::Writer" in (t.get("full") or "") and n.endswith("::lock")):
            out.append(b)
    return out


def seqno_wrappers(ctx):
    """local thin wrappers whose result is SequenceNumberCounter::next() of the database generator"""
    w = getattr(ctx, "_seqno_wrappers", None)
    if w is None:
        w = set()
        for fid, f in ctx.F.fns.items():
            if f.kind == "closure" or not A.thin_wrapper(f):
                continue
            rt = A.Origins(f).of_local(0)
            if rt.k == "call" and rt.a[0] == SEQNO_NEXT:
                w.add(fid)
        ctx._seqno_wrappers = w
    return w


def seqno_draw_blocks(ctx, fn):
    w = seqno_wrappers(ctx)
    return [b for b, t in fn.calls() if A.cname(t) == SEQNO_NEXT or A.cname(t) in w]


def j_guards(ctx, fn):
    """journal-lock guards live in fn: acquired via Journal::get_writer (or a wrapper) / Mutex<Writer>::lock, or received as a parameter"""
    gs = []
    for b in j_acquire_blocks(ctx, fn):
        t = fn.term(b)
        gs.append(A.Guard("J", fn, b, A.guard_aliases(fn, t["dest"]["l"]), "lock"))
    for b, t in []:
        if False:
            gs.append(A.Guard("J", fn, b, A.guard_aliases(fn, t["dest"]["l"]), "lock"))
    for l in range(1, fn.argc + 1):
        ty = fn.local_ty(l)
        if "MutexGuard<" in ty and "journal::writer::Writer" in ty and not ty.startswith("&"):
            gs.append(A.Guard("J", fn, None, A.guard_aliases(fn, l), "lock", from_param=True))
    return gs


def self_path(term):
    """access path of a term, or None"""
    return A.access_path(term)
