"""Roles discovered from the fact base (never from text): the write entry points, the journal append
primitives, tree apply calls, publish, lock acquisition functions.  Shared by several properties."""
from . import analysis as A

WRITER = "journal::writer::Writer"
APPEND = (WRITER + "::write_raw", WRITER + "::write_clear", WRITER + "::write_batch")
PERSIST = WRITER + "::persist"
GET_WRITER = "journal::Journal::get_writer"
JOURNAL_PERSIST = "journal::Journal::persist"
PUBLISH = "snapshot_tracker::SnapshotTracker::publish"
SEQNO_NEXT = "lsm_tree::SequenceNumberCounter::next"
POISON = "poison::PoisonSignal::poison"
DART_POISON = "poison::PoisonDart::poison"
IS_POISONED = "poison::PoisonSignal::is_poisoned"
TREE = "<lsm_tree::AnyTree as lsm_tree::AbstractTree>::"
APPLY = tuple(TREE + n for n in ("insert", "remove", "remove_weak", "clear"))
APPLY_ANY = tuple("*AbstractTree>::" + n for n in ("insert", "remove", "remove_weak", "clear")) + tuple(
    "lsm_tree::AbstractTree::" + n for n in ("insert", "remove", "remove_weak", "clear"))
OPEN_VIEW = "snapshot_tracker::SnapshotTracker::open"
ITER_NEW = "iter::Iter::new"

WRITE_ENTRY_EXPECTED = ("keyspace::Keyspace::insert", "keyspace::Keyspace::remove", "keyspace::Keyspace::remove_weak",
                        "keyspace::Keyspace::clear", "batch::WriteBatch::commit")

# default persist configuration: automatic journal persist is on
DEFAULT_CFG = dict(assume_field={"manual_journal_persist": False}, assume_discr={"durability": "Some"})


def in_journal_module(fid):
    return fid.startswith("journal::") or fid.startswith("<journal::")


def write_entries(ctx):
    """fns outside journal:: that call an APPEND primitive directly"""
    out = []
    for fid, fn in ctx.F.fns.items():
        if in_journal_module(fid):
            continue
        if any(A.is_call_to(t, APPEND) for _, t in fn.calls()):
            out.append(fn)
    return sorted(out, key=lambda f: f.id)


def call_blocks(fn, names):
    return [b for b, t in fn.calls() if A.is_call_to(t, names)]


def apply_blocks(fn):
    return [b for b, t in fn.calls() if A.is_call_to(t, APPLY_ANY)]


def j_guards(ctx, fn):
    """journal-lock guards live in fn: acquired via Journal::get_writer / Mutex<Writer>::lock, or received as a parameter"""
    gs = []
    for b, t in fn.calls():
        n = A.cname(t)
        if n == GET_WRITER or (n.startswith("std::sync::Mutex::<") and "journal::writer::Writer" in (t.get("full") or "")
                               and n.endswith("::lock")):
            gs.append(A.Guard("J", fn, b, A.guard_aliases(fn, t["dest"]["l"]), "lock"))
    for l in range(1, fn.argc + 1):
        ty = fn.local_ty(l)
        if "MutexGuard<" in ty and "journal::writer::Writer" in ty and not ty.startswith("&"):
            gs.append(A.Guard("J", fn, None, A.guard_aliases(fn, l), "lock", from_param=True))
    return gs


def self_path(term):
    """access path of a term, or None"""
    return A.access_path(term)
