"""C18 — compaction filters act only where assigned (assignment plumbing; verdict semantics live in lsm-tree)."""
from .. import analysis as A
from .. import roles as R

META = {
    "technique": "origin terms through closures + field write-site enumeration + who-may-call on MIR",
    "explanation": (
        "R-C18.4: the factory inside the caller's create options is dropped before the assigner's answer is installed (options cloned from a filtered keyspace). "
        "Decides the assignment plumbing: (1) at both consultation sites (Database::keyspace on creation, "
        "recover_keyspaces on reopen) the assigner is called with the name of the very keyspace being created/recovered "
        "(the name parameter, resp. resolve_id of the directory's id) and its Some result flows through "
        "with_compaction_filter_factory into the options handed to that keyspace's tree configuration; the two sites agree; "
        "(2) CreateOptions.compaction_filter_factory has no other source: it is written only by Default/from_kvs (None) "
        "and with_compaction_filter_factory (Some(parameter)), which only those two sites call; the builder stores the "
        "user's assigner unchanged; apply_to_base_config passes the field to the tree; (3) the compaction worker compacts a "
        "keyspace's tree with that same keyspace's strategy; (4) 'staying filtered once observed': a journal replay apply "
        "site must be guarded by a test of the record's seqno against the tree's persisted seqno (or filter the record "
        "again) — otherwise a record whose persisted copy the filter has removed/replaced is resurrected on reopen. "
        "Both replay sites of the pinned tree lack the guard: two demonstrated KNOWN FINDINGS (demos/c18_refilter_demo.rs)."),
    "not_decided": [
        "verdict semantics (keep / remove / replace) inside lsm-tree's compaction stream",
        "'stays filtered' between compactions of overlapping runs inside lsm-tree (only the fjall-side resurrection through journal replay is decided)",
    ],
    "assumptions": ["lsm_tree::Config::with_compaction_filter_factory installs the factory for that tree only"],
}

WCF = "keyspace::options::CreateOptions::with_compaction_filter_factory"


def assigner_call(ctx, fn, term):
    """for a term that is Option::and_then(assigner, closure): (receiver ok, name term passed to the assigner inside the closure)"""
    F = ctx.F
    for x in A.walk(term):
        if x.k == "call" and x.a[0].endswith("Option::<T>::and_then") and len(x.a[1]) == 2:
            recv, cl = x.a[1]
            recv_ok = any(y.k == "field" and y.a[1] == "compaction_filter_factory_assigner" for y in A.walk(recv))
            if not recv_ok:
                # the assigner may be handed in as a parameter: then every caller must pass the configured one
                ps = [y.a[0] for y in A.walk(recv) if y.k == "param"]
                callers = ctx.cg.callers(fn.id)
                if ps and callers:
                    recv_ok = True
                    for cf, cb in callers:
                        cfn = F.fns.get(cf)
                        if cfn is None:
                            recv_ok = False
                            continue
                        at = ctx.og(cfn).of_operand(cfn.term(cb)["args"][ps[0] - 1])
                        if not any(y.k == "field" and y.a[1] == "compaction_filter_factory_assigner" for y in A.walk(at)):
                            recv_ok = False
            if cl.k != "closure":
                continue
            cf = F.fns.get(cl.a[0])
            if not cf:
                continue
            cog = A.Origins(cf)
            for b, t in cf.calls():
                if (t.get("callee") or "") == "std::ops::Fn::call":
                    arg = cog.of_operand(t["args"][1])
                    # the tuple (name,) whose element is the captured name
                    caps = [y.a[1] for y in A.walk(arg) if y.k == "field" and A.access_path(y) and A.access_path(y)[0] == "P1"]
                    env = dict(cl.a[1])
                    # capture names look like "name" / "keyspace_name" / "*name"
                    outer = None
                    for c in caps:
                        for k, v in env.items():
                            if k.lstrip("*&") == c.lstrip("*&"):
                                outer = v
                    return recv_ok, outer, x
    return False, None, None


def run(ctx):
    F = ctx.F
    cg = ctx.cg
    # ---- R-C18.1 same name in, same keyspace out
    sites = {}
    kf = ctx.fn("db::Database::keyspace", "R-C18.1")
    if kf:
        og = ctx.og(kf)
        w = R.call_blocks(kf, (WCF,))
        cn = R.call_blocks(kf, ("keyspace::Keyspace::create_new",))
        ok = False
        detail = "Database::keyspace does not consult the filter assigner"
        if w and cn:
            fac = og.of_operand(kf.term(w[0])["args"][1])
            recv_ok, name, andthen = assigner_call(ctx, kf, fac)
            name_ok = name is not None and any(x.k == "param" and x.a[0] == 2 for x in A.walk(name))
            created_name = og.of_operand(kf.term(cn[0])["args"][2])
            same_name = any(x.k == "param" and x.a[0] == 2 for x in A.walk(created_name))
            opts = og.of_operand(kf.term(cn[0])["args"][3])
            flows = any(x.k == "call" and x.site == (kf.id, w[0]) for x in A.walk(opts))
            # the base of the options the factory is installed on is the closure result (not a fresh default)
            base = og.of_operand(kf.term(w[0])["args"][0])
            base_ok = any(x.k == "call" and "call_once" in x.a[0] for x in A.walk(base))
            ok = recv_ok and name_ok and same_name and flows and base_ok
            sites["create"] = (recv_ok, name_ok, flows)
            detail = "assigner(name) -> with_compaction_filter_factory -> options of Keyspace::create_new(name)" if ok else \
                "creation site: assigner from config=%s called with the keyspace's own name=%s result reaches create_new's options=%s installed on the caller's options=%s" % (recv_ok, name_ok, flows, base_ok)
        ctx.ob("R-C18.1", kf, "creation-consults-assigner-for-own-name", ok, detail)
    rk = ctx.fn("recovery::recover_keyspaces", "R-C18.1")
    if rk:
        og = ctx.og(rk)
        w = R.call_blocks(rk, (WCF,))
        ab = R.call_blocks(rk, ("keyspace::apply_to_base_config",))
        fd = R.call_blocks(rk, ("keyspace::Keyspace::from_database",))
        ok = False
        detail = "recover_keyspaces does not consult the filter assigner: filters would be lost on reopen"
        if w and ab and fd:
            fac = og.of_operand(rk.term(w[0])["args"][1])
            recv_ok, name, andthen = assigner_call(ctx, rk, fac)
            rs = [x for x in A.walk(name)] if name is not None else []
            res = [x for x in rs if x.k == "call" and x.a[0] == "meta_keyspace::MetaKeyspace::resolve_id"]
            hid = og.of_operand(rk.term(fd[0])["args"][0])
            name_ok = bool(res) and A.tkey(res[0].a[1][1]) == A.tkey(hid)
            hname = og.of_operand(rk.term(fd[0])["args"][3])
            same_name = bool(res) and any(x.k == "call" and x.site == res[0].site for x in A.walk(hname))
            applied = og.of_operand(rk.term(ab[0])["args"][1])
            flows = any(x.k == "call" and x.site == (rk.id, w[0]) for x in A.walk(applied))
            base = og.of_operand(rk.term(w[0])["args"][0])
            base_ok = any(x.k == "call" and x.a[0].endswith("CreateOptions::from_kvs") for x in A.walk(base))
            ok = recv_ok and name_ok and same_name and flows and base_ok
            sites["recover"] = (recv_ok, name_ok, flows)
            detail = "assigner(resolve_id(dir id)) -> with_compaction_filter_factory -> options applied to that directory's tree" if ok else \
                "recovery site: assigner from config=%s called with this keyspace's resolved name=%s result reaches the applied options=%s installed on the recovered options=%s" % (recv_ok, name_ok, flows, base_ok)
        ctx.ob("R-C18.1", rk, "recovery-consults-assigner-for-own-name", ok, detail)
    ctx.ob("R-C18.1", "<assigner-sites>", "creation-and-recovery-agree", len(sites) == 2 and sites.get("create") == sites.get("recover") == (True, True, True),
           "both open paths install the assigned factory the same way" if len(sites) == 2 and sites.get("create") == sites.get("recover") else "creation and recovery treat the assigner differently: %s" % sites)

    # ---- R-C18.2 no other source
    writers = 0
    allowed = {WCF: "some-param", "<keyspace::options::CreateOptions as std::default::Default>::default": "none",
               "keyspace::options::CreateOptions::from_kvs": "none", "<keyspace::options::CreateOptions as std::clone::Clone>::clone": "clone"}
    for fid, fn in F.fns.items():
        og = None
        for b, i, st in A.field_assigns(fn, "compaction_filter_factory", "CreateOptions"):
            og = og or ctx.og(fn)
            writers += 1
            term = og.of_rvalue(st["rv"])
            ok = fid == WCF and term.k == "agg" and term.a[0].endswith("Option::Some") and any(x.k == "param" and x.a[0] == 2 for x in A.walk(term))
            # clearing the field (:= None) takes a filter away, never installs one: allowed anywhere
            if term.k == "agg" and term.a[0].endswith("Option::None"):
                ok = True
            ctx.ob("R-C18.2", fn, "assigns-factory-field", ok, "compaction_filter_factory := %s in %s" % (A.tstr(term)[:60], fid) + ("" if ok else " — only with_compaction_filter_factory may set it (to Some(its parameter))"), fn.loc(b))
        for b, blk in enumerate(fn.blocks):
            if blk["cleanup"]:
                continue
            for st in blk["s"]:
                rv = st["rv"]
                if rv["k"] == "agg" and rv.get("adt") == "keyspace::options::CreateOptions" and "compaction_filter_factory" in rv.get("fields", []):
                    og = og or ctx.og(fn)
                    writers += 1
                    term = og.of_operand(rv["ops"][rv["fields"].index("compaction_filter_factory")])
                    kind = allowed.get(fid)
                    if kind == "none":
                        ok = term.k == "agg" and term.a[0].endswith("Option::None")
                    elif kind == "clone":
                        ok = True
                    else:
                        ok = False
                    ctx.ob("R-C18.2", fn, "initialises-factory-field", ok, "CreateOptions{compaction_filter_factory: %s} in %s" % (A.tstr(term)[:60], fid) + ("" if ok else " — a factory installed outside the per-name assignment"), fn.loc(b))
    ctx.floor("R-C18.2", "write sites of CreateOptions.compaction_filter_factory", writers, 3)
    for f, b in cg.callers(WCF):
        ok = f in ("db::Database::keyspace", "recovery::recover_keyspaces")
        ctx.ob("R-C18.2", F.fns[f], "calls-with_compaction_filter_factory", ok, "with_compaction_filter_factory called from %s" % f, F.fns[f].loc(b), nontrivial=False)
    bf = [f for k, f in F.fns.items() if k.endswith("::with_compaction_filter_factories") and "builder::Builder" in k]
    ctx.floor("R-C18.2", "Builder::with_compaction_filter_factories", bf, 1)
    for fn in bf:
        og = ctx.og(fn)
        asg = A.field_assigns(fn, "compaction_filter_factory_assigner")
        ok = False
        for b, i, st in asg:
            term = og.of_rvalue(st["rv"])
            wrapped = [x for x in A.walk(term) if x.k in ("closure", "call", "bin")]
            ok = term.k == "agg" and term.a[0].endswith("Option::Some") and any(x.k == "param" and x.a[0] == 2 for x in A.walk(term)) and not wrapped
        ctx.ob("R-C18.2", fn, "builder-stores-user-assigner", ok, "config.compaction_filter_factory_assigner := Some(f)" if ok
               else "the builder does not store the user's assigner unchanged (it is wrapped / replaced): a keyspace can get another factory than the one the user's function assigns to its name (e.g. factories interned by their logging name)")
    for fid, fn in F.fns.items():
        for b, i, st in A.field_assigns(fn, "compaction_filter_factory_assigner"):
            if "builder::Builder" not in fid:
                ctx.ob("R-C18.2", fn, "foreign-write-to-assigner", False, "compaction_filter_factory_assigner written outside the builder", fn.loc(b))
    # the configured assigner stays in the config for the lifetime of the database (it is consulted again for every
    # keyspace created later): nothing may move it out
    for fid, fn in F.fns.items():
        for b, t in fn.calls():
            n = A.cname(t)
            if n.endswith("Option::<T>::take") or n.startswith("std::mem::take") or n.startswith("std::mem::replace") or n.startswith("std::mem::swap") or n.endswith("Option::<T>::take_if") or n.endswith("Option::<T>::replace"):
                term = ctx.og(fn).of_operand(t["args"][0])
                if any(y.k == "field" and y.a[1] == "compaction_filter_factory_assigner" for y in A.walk(term)) and "builder::Builder" not in fid:
                    ctx.ob("R-C18.2", fn, "assigner-moved-out-of-config", False,
                           "%s removes the filter assigner from the database config in %s: keyspaces created later on this handle are no longer offered their filter" % (n.rsplit("::", 1)[-1], fid), fn.loc(b))
    ap = ctx.fn("keyspace::apply_to_base_config", "R-C18.2")
    if ap:
        og = ctx.og(ap)
        ok = False
        for b, t in ap.calls():
            if A.cname(t).startswith("lsm_tree::Config::with_compaction_filter_factory"):
                term = og.of_operand(t["args"][1])
                ok = A.access_path(term) == ("P2", "compaction_filter_factory")
        ctx.ob("R-C18.2", ap, "factory-handed-to-tree", ok, "Config::with_compaction_filter_factory(our_config.compaction_filter_factory)" if ok else "the keyspace's factory never reaches its tree configuration")

    # ---- R-C18.3 each keyspace compacts its own tree with its own strategy
    cw = ctx.fn("compaction::worker::run", "R-C18.3")
    if cw:
        og = ctx.og(cw)
        ok = False
        for b, t in cw.calls():
            if A.cname(t).endswith("AbstractTree>::compact"):
                tree = og.of_operand(t["args"][0])
                strat = og.of_operand(t["args"][1])
                ok = A.access_path(tree) == ("P1", "tree") and any(A.access_path(x) == ("P1", "config", "compaction_strategy") for x in A.walk(strat))
                detail = "keyspace.tree.compact(keyspace.config.compaction_strategy, ..)"
        ctx.ob("R-C18.3", cw, "own-tree-own-strategy", ok, detail if ok else "compaction does not pair a keyspace's tree with that keyspace's strategy")
    wt = ctx.fn("worker_pool::worker_tick", "R-C18.3")
    if wt:
        og = ctx.og(wt)
        ok = False
        for b, t in wt.calls():
            if A.cname(t) == "compaction::worker::run":
                ks = og.of_operand(t["args"][0])
                ok = any(x.k == "downcast" and x.a[1] == "Compact" for x in A.walk(ks))
        ctx.ob("R-C18.3", wt, "compacts-the-requested-keyspace", ok, "run_compaction(keyspace of the Compact message)" if ok else "worker compacts a different keyspace than the message names")

    # ---- R-C18.3 "staying filtered once observed": journal replay must not resurrect a record the tree has already
    # persisted — the persisted copy may since have been removed / replaced by the compaction filter, the journal copy has not.
    # Necessary: every replay apply site is guarded by a test of the record's seqno against a persisted watermark of the
    # tree (shared with C04: R-C04.5), and that watermark must not be one the filter itself can lower: the maximum over the
    # CURRENT tables (get_highest_persisted_seqno) drops when the filter removes the newest persisted item.
    from . import C04
    C04.replay_guard(ctx, "R-C18.3", kinds=("items",), monotone=True)


    # ---- R-C18.4 the assigner is the only source of a NEW keyspace's filter: whatever factory the caller's options carry (create
    # options are Clone, a keyspace's options are readable) is dropped before the assigner's answer is installed
    kf4 = ctx.fn("db::Database::keyspace", "R-C18.4")
    if kf4:
        og4 = ctx.og(kf4)
        cn4 = R.call_blocks(kf4, ("keyspace::Keyspace::create_new",))
        clears = [b for b, i, st in A.field_assigns(kf4, "compaction_filter_factory", "CreateOptions")
                  if og4.of_rvalue(st["rv"]).k == "agg" and og4.of_rvalue(st["rv"]).a[0].endswith("Option::None")]
        wcf4 = R.call_blocks(kf4, (WCF,))
        ok4 = bool(cn4) and bool(clears) and all(A.dominates(kf4, c, cn4[0]) for c in clears[:1]) and all(A.dominates(kf4, clears[0], w) for w in wcf4)
        ctx.ob("R-C18.4", kf4, "callers-factory-is-dropped-before-the-assigners-answer", ok4,
               "the options' own factory is cleared before the assigner's answer (if any) is installed" if ok4
               else "a factory already inside the caller's options survives when the assigner returns None for the name: options cloned from a filtered keyspace put that keyspace's filter in effect for a keyspace it was not assigned to")

    # ---- R-C18.6 a filter factory / assigner is consulted for keyspaces opened through the transactional databases too:
    #      their `keyspace` hands name and options to Database::keyspace unchanged
    from .. import wrappers as W
    W.db_wrapper_forwarding(ctx, "R-C18.6", only=("keyspace",))

    # ---- borrowed obligations (mechanisms owned by other properties that this property's verdict also rests on)
    # the compaction worker uses the strategy/filter of the keyspace it compacts
    ctx.borrow("C12", ["R-C12.10"], "R-C18.5")

