"""C13 — fail-stop after a journal I/O failure (structural clauses R-C13.1..5)."""
from .. import analysis as A
from .. import roles as R

META = {
    "technique": "MIR error-edge discipline + dominance + who-may-call (rustc_private fact base)",
    "explanation": (
        "Decides the structural necessary conditions of fail-stop: (1) every journal append/persist call in a write "
        "entry point and in Database::persist has its error edge routed through PoisonSignal::poison before returning; "
        "(2) the poison check happens under the journal lock, before the seqno draw and the append, and its true edge "
        "returns without appending; (3) there is exactly one monotone flag: PoisonSignal is created only in the two open "
        "paths, every other holder is a clone of the database's flag, and the only store writes `true`; (4) a failing "
        "worker poisons (error arm and panic drop-guard), and workers get a dart cloned from the database's flag; "
        "(5) no append/persist result is discarded. (8) every journal I/O call made under the journal lock outside journal:: (write entries, Database::persist, the worker's journal rotation, the seal-time write-out) raises the poison flag WHILE the guard is alive — writers look at the flag only right after taking that lock — and Database::persist checks the flag under the lock. Error edges are found on the type-checked MIR (Try::branch Break arm, "
        "`if let Err`, inspect_err/map_err closures), so all call sites and all paths are covered, not sampled runs."),
    "not_decided": [
        "short-write behaviour of BufWriter and what recovery yields after a failure at the n-th write",
        "that every failing syscall surfaces as Err (trusted: std)",
        "races between a poisoning thread and one already past the check (the lock discipline is R-C14.1)",
    ],
    "assumptions": [
        "std::io errors surface as Err from Writer::{write_raw,write_clear,write_batch,persist}",
        "closures passed to Result::inspect_err/map_err run exactly when the result is Err (std contract)",
    ],
}

DB_PERSIST = "db::Database::persist"


def poison_on_error(ctx, fn, b, rule, label):
    """R-C13.1 obligation for the Result-returning call in block b of fn"""
    cg = ctx.cg
    t = fn.term(b)
    rf = A.result_flow(fn, b)
    callee = A.cname(t).rsplit("::", 1)[-1]
    inst = "%s#%s" % (callee, label)
    ctx.count_sites()
    # accepted idiom 1: inspect_err / map_err closure that (transitively) poisons
    for kind, cl in rf.handlers:
        if cl and (cl == R.POISON or ctx.cg.reaches(cl, {R.POISON})):
            return ctx.ob(rule, fn, inst, True, "error edge handled by %s closure %s which reaches PoisonSignal::poison" % (kind, cl), fn.loc(b))
    # accepted idiom 2: explicit Err branch on which poison is passed before any return
    if rf.err_blocks:
        poison_blocks = A.blocks_calling(ctx.F, cg, fn, {R.POISON})
        bad = None
        for eb in rf.err_blocks:
            r = A.reach(fn, [eb], avoid=poison_blocks)
            rets = [x for x in fn.return_blocks() if x in r]
            if rets:
                bad = (eb, rets[0])
        if bad is None:
            return ctx.ob(rule, fn, inst, True, "every path from the Err edge to a return passes a call reaching PoisonSignal::poison", fn.loc(b))
        path = A.find_path(fn, [bad[0]], [bad[1]], avoid=poison_blocks)
        return ctx.ob(rule, fn, inst, False,
                      "journal I/O error does not poison: the Err edge of `%s` (consumed via %s) reaches `return` without passing PoisonSignal::poison; path bb%s" % (
                          A.cname(t), "/".join(x.rsplit("::", 1)[-1] for x in rf.chain) or "match", "->bb".join(map(str, path or []))),
                      fn.loc(b))
    if rf.swallowed:
        return ctx.ob(rule, fn, inst, False, "result of `%s` is discarded (%s): the failure is neither reported nor poisons" % (A.cname(t), ",".join(rf.chain)), fn.loc(b))
    if rf.returned and not rf.handlers:
        return ctx.ob(rule, fn, inst, False, "result of `%s` is returned to the caller without poisoning" % A.cname(t), fn.loc(b))
    return ctx.ob(rule, fn, inst, False, "cannot find how the result of `%s` is consumed (unrecognised idiom; chain=%s)" % (A.cname(t), rf.chain), fn.loc(b))


def ok_return_blocks(fn):
    """blocks that assign `_0 = Result::Ok(..)`"""
    out = []
    for b, blk in enumerate(fn.blocks):
        if blk["cleanup"]:
            continue
        for st in blk["s"]:
            if st["p"]["l"] == 0 and not st["p"]["p"] and st["rv"]["k"] == "agg" and st["rv"].get("variant") == "Ok":
                out.append(b)
    return out


def run(ctx):
    F = ctx.F
    entries = R.write_entries(ctx)
    ctx.floor("R-C13.1", "write entry points (fns outside journal:: calling Writer::write_*)", entries, 5)
    names = {f.id for f in entries}
    for e in R.WRITE_ENTRY_EXPECTED:
        if e not in names:
            ctx.fn(e, "R-C13.1")

    # ---- R-C13.1 poison on every journal error edge
    n_sites = 0
    for fn in entries:
        idx = {}
        for b, t in fn.calls():
            if A.is_call_to(t, R.APPEND) or A.is_call_to(t, (R.PERSIST,)):
                k = A.cname(t).rsplit("::", 1)[-1]
                idx[k] = idx.get(k, 0) + 1
                poison_on_error(ctx, fn, b, "R-C13.1", str(idx[k]))
                n_sites += 1
            elif A.is_call_to(t, ("*AbstractTree>::clear", "lsm_tree::AbstractTree::clear")):
                poison_on_error(ctx, fn, b, "R-C13.1", "tree")
                n_sites += 1
    dbp = ctx.fn(DB_PERSIST, "R-C13.1")
    if dbp:
        bs = R.call_blocks(dbp, (R.JOURNAL_PERSIST, R.PERSIST))
        ctx.floor("R-C13.1", "Database::persist -> Journal::persist call", bs, 1)
        for b in bs:
            poison_on_error(ctx, dbp, b, "R-C13.1", "db")
            n_sites += 1
    ctx.floor("R-C13.1", "journal append/persist error edges", n_sites, 11)

    # ---- R-C13.2 check under the lock, before seqno and append; true edge returns without appending
    for fn in entries:
        pb = R.call_blocks(fn, (R.IS_POISONED,))
        jb = R.j_acquire_blocks(ctx, fn)
        nb = R.seqno_draw_blocks(ctx, fn)
        ab = R.call_blocks(fn, R.APPEND)
        if not pb:
            ctx.ob("R-C13.2", fn, "poison-check-present", False, "write entry point never calls PoisonSignal::is_poisoned")
            continue
        p = pb[0]
        ok_lock = bool(jb) and all(A.dominates(fn, jb[0], x) for x in pb)
        ctx.ob("R-C13.2", fn, "check-after-lock", ok_lock,
               "is_poisoned() is %sdominated by Journal::get_writer (TOCTOU otherwise)" % ("" if ok_lock else "NOT "), fn.loc(p))
        ok_before = all(A.dominates(fn, p, x) for x in nb + ab)
        ctx.ob("R-C13.2", fn, "check-before-seqno-and-append", ok_before and bool(ab),
               "is_poisoned() %s every seqno draw and journal append" % ("dominates" if ok_before else "does NOT dominate"), fn.loc(p))
        # true edge: must not reach an append / apply
        t = fn.term(p)
        sw = fn.succs(p)[0] if fn.succs(p) else None
        okedge = False
        detail = "is_poisoned() result is not branched on"
        if sw is not None and fn.term(sw)["k"] == "switch":
            st = fn.term(sw)
            zero = [tg for v, tg in st["vs"] if v == 0]
            true_targets = [x for x in fn.succs(sw) if x not in zero]
            r = A.reach(fn, true_targets)
            hit = [x for x in ab + R.apply_blocks(fn) if x in r]
            okedge = bool(true_targets) and not hit
            detail = "poisoned edge %s" % ("returns without appending/applying" if okedge else "still reaches a journal append / tree apply (bb%s)" % hit)
            # and it must produce Err(Poisoned)
            if okedge:
                agg = [s for x in r for s in fn.blocks[x]["s"] if s["rv"]["k"] == "agg" and s["rv"].get("adt") == "error::Error" and s["rv"].get("variant") == "Poisoned"]
                if not agg:
                    okedge = False
                    detail = "poisoned edge does not construct Error::Poisoned"
        ctx.ob("R-C13.2", fn, "poisoned-edge-refuses", okedge, detail, fn.loc(p))
    if dbp:
        pb = R.call_blocks(dbp, (R.IS_POISONED,))
        jb = R.call_blocks(dbp, (R.JOURNAL_PERSIST, R.PERSIST))
        ok = bool(pb) and bool(jb) and all(A.dominates(dbp, pb[0], x) for x in jb)
        ctx.ob("R-C13.2", dbp, "check-before-persist", ok, "Database::persist checks the poison flag before persisting" if ok else "Database::persist does not check the poison flag before persisting")

    # ---- R-C13.3 one monotone flag
    ctor_allowed = {"db::Database::create_new", "db::Database::recover",
                    "<poison::PoisonSignal as std::default::Default>::default",
                    "<poison::PoisonSignal as std::clone::Clone>::clone"}
    ctors = []
    for fid, fn in F.fns.items():
        for b, t in fn.calls():
            if A.cname(t) == "<poison::PoisonSignal as std::default::Default>::default":
                ctors.append((fn, b, "default()"))
        for b, blk in enumerate(fn.blocks):
            if blk["cleanup"]:
                continue
            for st in blk["s"]:
                if st["rv"]["k"] == "agg" and st["rv"].get("adt") == "poison::PoisonSignal":
                    ctors.append((fn, b, "aggregate"))
    ctx.floor("R-C13.3", "PoisonSignal construction sites", ctors, 4)
    for fn, b, how in ctors:
        ctx.ob("R-C13.3", fn, "constructs-PoisonSignal", fn.id in ctor_allowed,
               "PoisonSignal constructed via %s in %s (%s)" % (how, fn.id, "allowed: open path / derive" if fn.id in ctor_allowed else "a second, unrelated flag: poisoning one would not stop writers holding the other"),
               fn.loc(b), nontrivial=False)
    # holders are clones of the database's flag
    holders = 0
    for fid, fn in F.fns.items():
        og = None
        for b, blk in enumerate(fn.blocks):
            if blk["cleanup"]:
                continue
            for st in blk["s"]:
                rv = st["rv"]
                if rv["k"] == "agg" and rv.get("adt") in ("keyspace::KeyspaceInner",) and "is_poisoned" in rv.get("fields", []):
                    og = og or ctx.og(fn)
                    term = og.of_operand(rv["ops"][rv["fields"].index("is_poisoned")])
                    ok = any(A.ends_with_field(a, "is_poisoned") for a in A.alternatives(term))
                    holders += 1
                    ctx.ob("R-C13.3", fn, "KeyspaceInner.is_poisoned-origin", ok,
                           "KeyspaceInner.is_poisoned := %s (%s)" % (A.tstr(term), "clone of the database flag" if ok else "NOT derived from the database's is_poisoned"), fn.loc(b))
        for b, t in fn.calls():
            if A.cname(t) == "poison::PoisonDart::new":
                og = og or ctx.og(fn)
                term = og.of_operand(t["args"][0])
                ok = any(A.ends_with_field(a, "is_poisoned") for a in A.alternatives(term))
                holders += 1
                ctx.ob("R-C13.3", fn, "PoisonDart-origin", ok,
                       "PoisonDart::new(%s) %s" % (A.tstr(term), "wraps the database flag" if ok else "does NOT wrap the database's is_poisoned"), fn.loc(b))
    ctx.floor("R-C13.3", "flag holders (KeyspaceInner x2, PoisonDart x2)", holders, 4)
    # stores: only `true`, only inside poison::
    stores = 0
    for fid, fn in F.fns.items():
        for b, t in fn.calls():
            n = A.cname(t)
            if n.startswith("std::sync::atomic::Atomic::<bool>::") and n.rsplit("::", 1)[-1] in ("store", "swap", "fetch_and", "fetch_xor", "fetch_nand", "compare_exchange", "fetch_update", "fetch_or"):
                og = ctx.og(fn)
                recv = og.of_operand(t["args"][0])
                inside = "poison::" in fid
                touches = inside or any(x.k == "field" and x.a[1] == "is_poisoned" for x in A.walk(recv))
                if not touches:
                    continue
                stores += 1
                c = t["args"][1].get("const") if len(t["args"]) > 1 else None
                ok = n.endswith("::store") and c is not None and c.get("val") is True and fid == R.POISON
                ctx.ob("R-C13.3", fn, "flag-write-%s" % n.rsplit("::", 1)[-1], ok,
                       "poison flag written by %s with %s in %s%s" % (n.rsplit("::", 1)[-1], "const true" if (c and c.get("val") is True) else "a non-`true` value", fid,
                                                                      "" if ok else " — the flag must only ever be set, and only by PoisonSignal::poison"), fn.loc(b))
    ctx.floor("R-C13.3", "stores to the poison flag", stores, 1)

    # ---- R-C13.4 workers poison
    tick_callers = [(F.fns[f], b) for f, b in ctx.cg.callers("worker_pool::worker_tick") if f in F.fns]
    ctx.floor("R-C13.4", "worker loop calling worker_tick", tick_callers, 1)
    for fn, b in tick_callers:
        rf = A.result_flow(fn, b)
        # (the call of worker_tick itself is not "a poisoning block": worker_tick poisons only on ITS journal failures)
        pb = [x for x in A.blocks_calling(F, ctx.cg, fn, {R.DART_POISON, R.POISON}) if x != b]
        ok = False
        detail = "worker_tick's result is not matched on Err"
        if rf.err_blocks:
            r = set()
            for eb in rf.err_blocks:
                r |= A.reach(fn, [eb], avoid=pb)
            esc = [x for x in fn.return_blocks() if x in r]
            ok = not esc
            detail = "Err arm of worker_tick %s" % ("poisons before the worker exits" if ok else "can return without poisoning")
            if not ok:
                # a journal failure inside worker_tick may already have poisoned under the journal lock (R-C13.8): then the
                # loop's Err arm is not what fail-stop rests on (other worker failures are not journal failures)
                wt = F.fns.get("worker_pool::worker_tick")
                JIO4 = R.APPEND + (R.PERSIST, R.WRITER + "::pos", R.WRITER + "::rotate", "journal::manager::JournalManager::rotate_journal")
                sites = [(bb, tt) for bb, tt in wt.calls() if A.is_call_to(tt, JIO4)] if wt else []
                inner = bool(sites)
                for bb, tt in sites:
                    rf2 = A.result_flow(wt, bb)
                    if not any(cl and (cl in (R.POISON, R.DART_POISON) or ctx.cg.reaches(cl, {R.POISON, R.DART_POISON})) for _, cl in rf2.handlers):
                        pb2 = A.blocks_calling(F, ctx.cg, wt, {R.POISON, R.DART_POISON})
                        if not rf2.err_blocks or any(x in A.reach(wt, rf2.err_blocks, avoid=pb2) for x in wt.return_blocks()):
                            inner = False
                if inner:
                    ok = True
                    detail = "every journal call of worker_tick poisons on failure before it returns (R-C13.8); the loop's Err arm is not needed for journal failures"
        ctx.ob("R-C13.4", fn, "worker-error-poisons", ok, detail, fn.loc(b))
    dd = ctx.fn("<poison::PoisonDart as std::ops::Drop>::drop", "R-C13.4")
    if dd:
        pk = R.call_blocks(dd, ("std::thread::panicking",))
        ok = False
        detail = "PoisonDart::drop does not consult thread::panicking()"
        if pk:
            sw = dd.succs(pk[0])[0]
            st = dd.term(sw)
            if st["k"] == "switch":
                zero = [tg for v, tg in st["vs"] if v == 0]
                true_t = [x for x in dd.succs(sw) if x not in zero]
                pb = A.blocks_calling(F, ctx.cg, dd, {R.POISON})
                r = A.reach(dd, true_t, avoid=pb)
                ok = bool(true_t) and not [x for x in dd.return_blocks() if x in r]
                detail = "panicking edge %s" % ("always poisons" if ok else "can finish without poisoning")
        ctx.ob("R-C13.4", dd, "panic-poisons", ok, detail)
    starts = [(F.fns[f], b) for f, b in ctx.cg.callers("worker_pool::WorkerPool::start") if f in F.fns]
    ctx.floor("R-C13.4", "WorkerPool::start call sites", starts, 2)
    for fn, b in starts:
        t = fn.term(b)
        og = ctx.og(fn)
        term = og.of_operand(t["args"][4]) if len(t["args"]) > 4 else None
        ok = term is not None and any(c.a[0] == "poison::PoisonDart::new" and any(A.ends_with_field(a, "is_poisoned") for x in c.a[1] for a in A.alternatives(x))
                                      for c in A.walk(term) if c.k == "call")
        ctx.ob("R-C13.4", fn, "workers-hold-db-flag", ok, "WorkerPool::start(.., dart = %s)" % (A.tstr(term) if term else "?"), fn.loc(b))

    # ---- R-C13.5 no append/persist result discarded anywhere
    n = 0
    for fid, fn in F.fns.items():
        for b, t in fn.calls():
            if A.is_call_to(t, R.APPEND + (R.PERSIST, R.JOURNAL_PERSIST)):
                rf = A.result_flow(fn, b)
                n += 1
                ctx.count_sites()
                ctx.ob("R-C13.5", fn, "result-of-%s#%d" % (A.cname(t).rsplit("::", 1)[-1], sum(1 for bb, tt in fn.calls() if bb < b and A.cname(tt) == A.cname(t)) + 1),
                       not rf.swallowed,
                       "result of %s is %s" % (A.cname(t), "discarded (%s)" % ",".join(rf.chain) if rf.swallowed else "consumed (%s)" % ("propagated" if rf.returned else "matched/handled")),
                       fn.loc(b), nontrivial=False)
    ctx.floor("R-C13.5", "append/persist call sites crate-wide", n, 14)

    # ---- R-C13.6 inside the journal writer a failed write/flush/sync is reported, never retried or swallowed:
    # the poison discipline of R-C13.1 only sees an Err that actually comes out of Writer::{write_*,persist}
    n = 0
    for fid, fn in sorted(F.fns.items()):
        if not (fid.startswith("journal::writer::Writer::") or fid in (R.JOURNAL_PERSIST,)) or fn.kind == "closure":
            continue
        for b, t in fn.calls():
            if t["dest"]["p"] or not fn.local_ty(t["dest"]["l"]).startswith("std::result::Result<"):
                continue
            name = A.cname(t)
            if A.is_transparent(name) or name.endswith(("::branch", "::from_residual")) or any(name.endswith(s) for s in A.ERR_ADAPTERS + A.OK_ADAPTERS):
                continue
            n += 1
            ctx.count_sites()
            rf = A.result_flow(fn, b)
            inst = "io-result-%s#%d" % (name.rsplit("::", 1)[-1].split("<")[0], sum(1 for bb, tt in fn.calls() if bb < b and A.cname(tt) == name) + 1)
            if rf.swallowed or rf.panics:
                ctx.ob("R-C13.6", fn, inst, False, "result of %s is %s: a journal I/O failure does not surface" % (name, "discarded" if rf.swallowed else "unwrapped"), fn.loc(b))
                continue
            if rf.err_blocks:
                defs, retry = A.err_edge_defs_of_return(fn, b, rf.err_blocks, ctx.og(fn))
                bad = [d for d in defs if d[0] != "err"]
                ok = not retry and not bad and bool(defs)
                ctx.ob("R-C13.6", fn, inst, ok, "on the Err edge of %s the function returns the error (%s)" % (name, "; ".join(sorted({d[2] for d in defs}))[:80]) if ok else
                       "the Err arm of %s %s: the failure of a journal %s is hidden from the caller, nothing poisons, and later writes are acknowledged on top of a journal whose state is unknown" % (
                           name, "loops back to the call (retry)" if retry else "can end in a non-error return (%s)" % "; ".join(d[2] for d in bad)[:100], name.rsplit("::", 1)[-1]), fn.loc(b), nontrivial=not ok or not rf.returned)
                continue
            ok = rf.returned and not rf.unknown
            ctx.ob("R-C13.6", fn, inst, ok, "result of %s is returned to the caller%s" % (name, " through %s" % ",".join(h[0] for h in rf.handlers) if rf.handlers else "") if ok
                   else "cannot see how the result of %s reaches the caller (chain %s)" % (name, rf.chain), fn.loc(b), nontrivial=ok is False)
    ctx.floor("R-C13.6", "Result-returning calls inside the journal writer", n, 36)

    # ---- R-C13.7 the other ways to change the database refuse on a poisoned instance too: bulk ingestion (a write that
    # bypasses the journal), keyspace creation and deletion (meta keyspace writes). They must look at the poison flag
    # before they change anything; ingestion must actually HOLD the journal lock (the `?` on get_writer) when it looks.
    entry_points = (("ingestion::Ingestion::<'a>::finish", ("finish",), True),
                    ("db::Database::keyspace", ("keyspace::Keyspace::create_new", "meta_keyspace::MetaKeyspace::create_keyspace"), False),
                    ("db::Database::delete_keyspace", ("meta_keyspace::MetaKeyspace::remove_keyspace",), False))
    for fid, effects, needs_lock in entry_points:
        fn = ctx.fn(fid, "R-C13.7")
        if not fn:
            continue
        og = ctx.og(fn)
        chk = R.call_blocks(fn, (R.IS_POISONED,))
        eff = [b for b, t in fn.calls() if any(A.cname(t) == e or (e == "finish" and A.cname(t).endswith("::finish") and A.cname(t).startswith("lsm_tree::")) for e in effects)]
        ok = False
        detail = "%s never looks at the poison flag" % fid
        if chk and eff:
            # every effect is dominated by a check whose "poisoned" edge cannot reach it
            ok = True
            for e in eff:
                good = False
                for c in chk:
                    sw = A.switch_after_call(fn, c)
                    if sw is None or not A.dominates(fn, c, e):
                        continue
                    zero, true_t = A.bool_edges(fn, sw)
                    if e not in A.reach(fn, true_t, avoid=list(zero)) or e in A.reach(fn, zero):
                        if e not in A.reach(fn, true_t):
                            good = True
                if not good:
                    ok = False
            detail = "the poison flag is checked before anything is changed, and a poisoned instance is refused" if ok else "an effect of %s is reachable without / despite the poison check" % fid
            if ok and needs_lock:
                gs = R.j_guards(ctx, fn)
                held = bool(gs) and all(A.must_held_at(fn, gs[0], c)[0] for c in chk) and all(A.must_held_at(fn, gs[0], e)[0] for e in eff)
                if held and gs[0].site is not None:
                    # Journal::get_writer returns a Result: it must be examined (`?` / match), not merely kept alive
                    rf = A.result_flow(fn, gs[0].site)
                    held = bool(rf.returned or rf.err_blocks) and not rf.swallowed
                    # ... and nothing is changed on the edge where the lock could NOT be taken
                    if held and rf.err_blocks and any(e in A.reach(fn, rf.err_blocks) for e in eff):
                        held = False
                if not held:
                    ok = False
                    detail = "the journal lock is not actually held when the poison flag is checked / the tables are registered (e.g. the Result of get_writer() is dropped instead of unwrapped with `?`)"
        ctx.ob("R-C13.7", fn, "refuses-on-a-poisoned-instance", ok, detail)

    # ---- R-C13.8 the flag is SET while the journal lock is still held.  Writers look at the flag only right after taking
    # the journal lock; that is sound only if whoever notices a journal failure raises the flag before giving the lock up.
    # Otherwise a writer slips in between the failure and the poisoning and is acknowledged on top of a failed journal
    # (a failing worker used to release the lock, log, and only then poison).
    JIO = R.APPEND + (R.PERSIST, R.WRITER + "::pos", R.WRITER + "::rotate", "journal::manager::JournalManager::rotate_journal")
    # Database::recover: no handle exists yet, nobody can be writing; its failure fails the open
    EXEMPT8 = {"db::Database::recover": "open path: no writer can exist before the handle is returned"}
    n8 = 0
    for fid, fn in sorted(F.fns.items()):
        if R.in_journal_module(fid) or fn.kind == "closure" or fid in EXEMPT8:
            continue
        gs = R.j_guards(ctx, fn)
        if not gs:
            continue
        idx8 = {}
        for b, t in fn.calls():
            if not A.is_call_to(t, JIO):
                continue
            g = next((g_ for g_ in gs if A.must_held_at(fn, g_, b)[0]), None)
            if g is None:
                continue
            k = A.cname(t).rsplit("::", 1)[-1]
            idx8[k] = idx8.get(k, 0) + 1
            inst = "%s#%d-poisons-before-the-journal-lock-is-released" % (k, idx8[k])
            n8 += 1
            ctx.count_sites()
            rf = A.result_flow(fn, b)
            kills = A.guard_kills(fn, g)
            ok, detail = False, "cannot see how a failure of %s is handled" % A.cname(t)
            hs = [hb for (kind, cl), hb in zip(rf.handlers, rf.handler_blocks) if cl and (cl in (R.POISON, R.DART_POISON) or ctx.cg.reaches(cl, {R.POISON, R.DART_POISON}))]
            if hs:
                ok = all(A.must_held_at(fn, g, hb)[0] for hb in hs[:1])
                detail = "the inspect_err/map_err closure that poisons runs %s" % ("while the journal guard is alive" if ok else "after the journal guard may have been released")
            elif rf.err_blocks:
                pb = A.blocks_calling(F, ctx.cg, fn, {R.POISON, R.DART_POISON})
                r = set()
                for eb in rf.err_blocks:
                    r |= A.reach(fn, [eb], avoid=pb)
                esc = [x for x in r if x in kills or x in fn.return_blocks()]
                # ... and the guard is still held where the flag is raised (a drop between the call and the match on its
                # result releases the lock before the Err arm runs)
                firstp = [x for x in pb if x in A.reach(fn, rf.err_blocks, avoid=[y for y in pb if y != x])]
                late = [x for x in firstp if not A.must_held_at(fn, g, x)[0]]
                esc += late
                ok = not esc
                detail = ("on the Err edge of %s the flag is raised before the guard is dropped" % A.cname(t)) if ok else \
                    "a failure of %s (under the journal lock) leaves the function / releases the lock at bb%d without PoisonSignal::poison having run: writers that take the lock next see an un-poisoned database and are acknowledged after the journal failed" % (A.cname(t), sorted(esc)[0])
            elif rf.swallowed:
                detail = "result of %s is discarded" % A.cname(t)
            ctx.ob("R-C13.8", fn, inst, ok, detail, fn.loc(b))
    ctx.floor("R-C13.8", "journal I/O calls made under the journal lock outside journal::", n8, 14)
    # Database::persist: the check, too, is made under the lock
    if dbp:
        gs = R.j_guards(ctx, dbp)
        pb = R.call_blocks(dbp, (R.IS_POISONED,))
        ok = bool(gs) and bool(pb) and all(A.must_held_at(dbp, gs[0], x)[0] for x in pb)
        ctx.ob("R-C13.8", dbp, "flag-checked-under-the-journal-lock", ok,
               "Database::persist takes the journal lock, then looks at the flag" if ok else
               "Database::persist looks at the poison flag without holding the journal lock: a writer can fail and poison in between, and persist then reports success on a failed journal")

    # ---- cross-cutting disciplines (rules/discipline.py)
    from .. import discipline as D
    # the failing call reports an error: no Result is discarded anywhere outside the reviewed table
    D.error_discipline(ctx, "R-C13.10", floor=440)

    # ---- borrowed obligations (mechanisms owned by other properties that this property's verdict also rests on)
    # the journal writer frames every record completely (write_all) — a short write must surface as an error
    ctx.borrow("C03", ["R-C03.1"], "R-C13.11")
    # reopening after a failed (short) write recovers what was acknowledged: the torn tail is cut, never fatal
    ctx.borrow("C03", ["R-C03.3"], "R-C13.9")

