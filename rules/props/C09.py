"""C09 — persist(SyncData|SyncAll) is power-loss durable (the syscall-plumbing clauses)."""
from .. import analysis as A
from .. import roles as R

META = {
    "technique": "MIR arm tables + must-pass-through + result-flow (error discipline) + origin terms",
    "explanation": (
        "Whether fsync is issued is invisible to any test (the page cache always has the data) and literally visible in MIR. "
        "Decided: (1) in Writer::persist the PersistMode arms resolve to SyncAll->File::sync_all, SyncData->sync_data (or "
        "sync_all), Buffer->none, and with a dirty buffer the BufWriter flush precedes every sync; (2) results of flush/"
        "sync_all/sync_data flow to the return value and are never swallowed, likewise in Journal::persist; (3) the mode is "
        "forwarded unchanged Database::persist -> Journal::persist -> Writer::persist, and a batch commit persists with the "
        "payload of its durability field; (4) Writer::rotate syncs the old journal (constant SyncAll) before creating the "
        "next file and fsyncs the directory afterwards; Writer::create_new/from_file pre-allocate then sync_all; journal "
        "truncation syncs; (5) Journal::drop persists with SyncAll; (6) fsync_directory reaches File::sync_all on the "
        "directory handle; database creation syncs the version marker and both directories; (7) every append primitive "
        "marks the BufWriter dirty before its first buffered write and the flag is cleared only after a successful flush, so "
        "a persist after ANY kind of append (incl. clear) flushes before it syncs."),
    "not_decided": [
        "that the syscall sequence suffices at every later crash point (needs a power-loss adversary over executions)",
        "file-system / device semantics of fsync and fdatasync",
        "durability of table files written by lsm-tree",
    ],
    "assumptions": ["File::sync_all = fsync, File::sync_data = fdatasync, BufWriter::flush writes all buffered bytes"],
}

SYNC_ALL = "std::fs::File::sync_all"
SYNC_DATA = "std::fs::File::sync_data"


def success_paths_pass(ctx, fn, start_after, through, rule, inst, what, extra_err=()):
    """every path from after block `start_after` to a return, not taken via an error edge, passes `through`"""
    errs = list(extra_err) + list(A.error_starts(fn))
    starts = fn.succs(start_after) if start_after is not None else [0]
    r = A.reach(fn, starts, avoid=list(through) + errs)
    rets = [x for x in fn.return_blocks() if x in r]
    detail = what + ": holds on every success path"
    if rets:
        p = A.find_path(fn, starts, rets, avoid=list(through) + errs)
        detail = what + ": VIOLATED, success path bb%s reaches return without it" % "->bb".join(map(str, p or []))
    return ctx.ob(rule, fn, inst, not rets and bool(through), detail if through else what + ": no such call found")


def _only_err_returns(fn, ret, through, errs):
    """is every definition of _0 that reaches `ret` without passing `through` an Err(..) aggregate (an explicit early error)?"""
    defs = A.consts_at_return  # (unused, kept for symmetry)
    r = A.reach(fn, [0], avoid=list(through) + list(errs))
    seen_ok = False
    for b in r:
        for st in fn.blocks[b]["s"]:
            if st["p"]["l"] == 0 and not st["p"]["p"]:
                rv = st["rv"]
                if rv["k"] == "agg" and rv.get("variant") == "Err":
                    continue
                seen_ok = True
        t = fn.blocks[b]["t"]
        if t["k"] == "call" and t["dest"]["l"] == 0 and not t["dest"]["p"]:
            seen_ok = True
    return not seen_ok


def run(ctx):
    F = ctx.F
    wp = ctx.fn(R.PERSIST, "R-C09.1")
    if wp:
        # ---- R-C09.1 mode table (in Writer::persist, or in a local helper the mode parameter is handed to unchanged)
        def mode_switch(fn, pidx):
            og_ = ctx.og(fn)
            for b, blk in enumerate(fn.blocks):
                t = blk["t"]
                if t["k"] == "switch" and not blk["cleanup"]:
                    term = og_.of_operand(t["d"])
                    if term.k == "discr" and term.a.k == "param" and term.a.a[0] == pidx:
                        return b
            return None
        mf, mp, via = wp, 2, None
        sw = mode_switch(mf, mp)
        hops = 0
        while sw is None and hops < 2:
            nxt = None
            og_ = ctx.og(mf)
            for b, t in mf.calls():
                callee = F.fns.get(A.cname(t))
                if callee is None or callee.kind == "closure":
                    continue
                for i, a in enumerate(t["args"]):
                    term = og_.of_operand(a)
                    if term.k == "param" and term.a[0] == mp and "PersistMode" in callee.local_ty(i + 1):
                        nxt = (callee, i + 1, b)
            if nxt is None:
                break
            mf, mp = nxt[0], nxt[1]
            via = via if via is not None else nxt[2]
            sw = mode_switch(mf, mp)
            hops += 1
        og = ctx.og(wp)
        if sw is None:
            ctx.ob("R-C09.1", wp, "mode-switch-present", False, "Writer::persist (and the helpers it passes its mode to) never switch on the PersistMode parameter")
        else:
            _, labels = A.switch_info(mf, sw)
            arm_of = {}
            for tg, names in labels.items():
                for n in names:
                    arm_of[n] = tg
            sa = R.call_blocks(mf, (SYNC_ALL,))
            sd = R.call_blocks(mf, (SYNC_DATA,))
            for mode, accept in (("SyncAll", sa), ("SyncData", sd + sa)):
                tg = arm_of.get(mode)
                if tg is None:
                    ctx.ob("R-C09.1", wp, "arm-%s" % mode, False, "no switch arm for PersistMode::%s" % mode)
                    continue
                r = A.reach(mf, [tg], avoid=accept)
                rets = [x for x in mf.return_blocks() if x in r]
                ctx.ob("R-C09.1", wp, "arm-%s-syncs" % mode, not rets and bool(accept),
                       "PersistMode::%s arm %s" % (mode, "always reaches File::%s" % ("sync_all" if mode == "SyncAll" else "sync_data/sync_all") if not rets else "can return WITHOUT syncing the file to the device"), mf.loc(tg))
            # sync arms only entered through the switch (no sync before the flush)
            pruned = A.prune_edges(wp, assume_field={"is_buffer_dirty": True})
            fl = [b for b, t in wp.calls() if A.cname(t).endswith("as std::io::Write>::flush")]
            syncs_in_wp = (sa + sd) if mf is wp else [via]
            ok = bool(fl) and all(A.dominates(wp, fl[0], s, pruned) for s in syncs_in_wp)
            if mf is not wp:
                # the helper is reached on every success path of persist, and is not entered from anywhere else before a flush
                ok = ok and not [x for x in wp.return_blocks() if x in A.reach(wp, [0], avoid=[via] + list(A.error_starts(wp)))]
                callers = [f for f, b in ctx.cg.callers(mf.id)]
                ok = ok and set(callers) <= {wp.id}
            ctx.ob("R-C09.1", wp, "flush-before-sync", ok,
                   "with a dirty buffer BufWriter::flush dominates every sync call" if ok else "a sync call can run before the buffered bytes were flushed to the file (fsync of stale content)")
        # ---- R-C09.2 errors are returned
        for f2 in ([wp] if mf is wp else [wp, mf]):
            for b, t in f2.calls():
                n = A.cname(t)
                if n in (SYNC_ALL, SYNC_DATA) or n.endswith("as std::io::Write>::flush") or (f2 is wp and mf is not wp and b == via):
                    rf = A.result_flow(f2, b)
                    ok = rf.returned and not rf.swallowed and not rf.panics
                    if rf.err_blocks and not rf.returned:
                        # explicit match: the Err arm must neither loop back to the call nor end in Ok
                        region = A.reach(f2, rf.err_blocks)
                        ok = b not in region and not rf.swallowed and not rf.panics
                    ctx.ob("R-C09.2", wp, "result-of-%s-returned" % n.rsplit("::", 1)[-1], ok,
                           "result of %s %s" % (n, "flows to the caller" if ok else "is NOT propagated (chain %s)" % rf.chain), f2.loc(b))
                    ctx.count_sites()
    jp = ctx.fn(R.JOURNAL_PERSIST, "R-C09.2")
    if jp:
        for b in R.call_blocks(jp, (R.PERSIST,)):
            rf = A.result_flow(jp, b)
            okr = rf.returned and not rf.swallowed
            if not okr and rf.err_blocks and not rf.swallowed and not rf.panics:
                # explicit match: on the Err edge the function must return an error and not retry
                defs, retry = A.err_edge_defs_of_return(jp, b, rf.err_blocks, ctx.og(jp))
                okr = bool(defs) and not retry and all(d[0] == "err" for d in defs)
            ctx.ob("R-C09.2", jp, "writer-persist-result-returned", okr, "Journal::persist returns Writer::persist's result" if okr else "Journal::persist drops the result")

    # ---- R-C09.7 what persist syncs is what was appended: dirty-flag discipline (shared with R-C02.3)
    from . import C02
    C02.dirty_flag_rules(ctx, "R-C09.7")

    # ---- R-C09.3 mode forwarded unchanged
    # Database::persist may go through Journal::persist or (holding the journal lock itself, so that the poison flag is
    # checked and set under it) straight to Writer::persist
    fw = [("db::Database::persist", (R.JOURNAL_PERSIST, R.PERSIST)), (R.JOURNAL_PERSIST, R.PERSIST),
          ("tx::single_writer::TxDatabase::persist", "db::Database::persist"),
          ("tx::optimistic::OptimisticTxDatabase::persist", "db::Database::persist")]
    for caller, callee in fw:
        fn = ctx.fn(caller, "R-C09.3")
        if not fn:
            continue
        callees = callee if isinstance(callee, tuple) else (callee,)
        bs = R.call_blocks(fn, callees)
        callee = "/".join(c.split("::")[-2] + "::" + c.split("::")[-1] for c in callees)
        ok = False
        detail = "no call to %s" % callee
        fwd = []
        for b in bs:
            term = ctx.og(fn).of_operand(fn.term(b)["args"][1])
            if term.k == "param" and term.a[0] == 2:
                fwd.append(b)
            detail = "%s(.., mode := %s)" % (callee, A.tstr(term))
        ok = bool(fwd)
        ctx.ob("R-C09.3", fn, "mode-forwarded", ok, detail + ("" if ok else " — the caller's persist mode is not what reaches the journal"))
        # ... on EVERY success path: no shortcut that answers Ok without handing the caller's mode down (e.g. "nothing new
        # since the last sync" bookkeeping that a journal rotation invalidates)
        if fwd:
            errs = list(A.error_starts(fn))
            r = A.reach(fn, [0], avoid=fwd + errs)
            rets = [x for x in fn.return_blocks() if x in r]
            # returns that merely hand back an Err built before the call (poison check) are error paths
            rets = [x for x in rets if not _only_err_returns(fn, x, fwd, errs)]
            p_ = A.find_path(fn, [0], rets, avoid=fwd + errs) if rets else None
            ctx.ob("R-C09.3", fn, "mode-forwarded-on-every-success-path", not rets,
                   "every success path of %s calls %s with the caller's mode" % (caller.rsplit("::", 1)[-1], callee.rsplit("::", 2)[-2] + "::" + callee.rsplit("::", 1)[-1]) if not rets
                   else "a success path returns without calling %s with the caller's mode (bb%s): persist(SyncData|SyncAll) can return Ok without the journal having been synced" % (callee, "->bb".join(map(str, p_ or []))))
    bc = ctx.fn("batch::WriteBatch::commit", "R-C09.3")
    if bc:
        ok = False
        detail = "no Writer::persist call"
        for b in R.call_blocks(bc, (R.PERSIST,)):
            term = ctx.og(bc).of_operand(bc.term(b)["args"][1])
            ap = [A.access_path(x) for x in A.alternatives(term)]
            ok = all(p is not None and p[0] == "P1" and "durability" in p for p in ap)
            detail = "persist(mode := %s)" % A.tstr(term)
        ctx.ob("R-C09.3", bc, "batch-persists-with-own-durability", ok, detail)

    # the level requested through WriteBatch::durability / transaction durability(..) is the one the commit persists with (shared with R-C02.2)
    C02.durability_plumbing(ctx, "R-C09.3")

    # ---- R-C09.4 rotation / creation
    rot = ctx.fn(R.WRITER + "::rotate", "R-C09.4")
    if rot:
        pb = R.call_blocks(rot, (R.PERSIST,))
        cn = [b for b, t in rot.calls() if A.cname(t).startswith(R.WRITER + "::create_new")]
        fd = [b for b, t in rot.calls() if A.cname(t).startswith("file::fsync_directory")]
        ok = False
        detail = "rotate() has no leading persist / create_new"
        if pb and cn:
            term = ctx.og(rot).of_operand(rot.term(pb[0])["args"][1])
            is_all = A.variants_in(term, "PersistMode") == {"SyncAll"}
            rf = A.result_flow(rot, pb[0])
            dom = all(A.dominates(rot, pb[0], c) for c in cn) and all(any(A.dominates(rot, okb, c) for okb in rf.ok_blocks) for c in cn)
            ok = is_all and dom
            detail = "old journal persisted with %s %s the next file is created" % (sorted(A.variants_in(term, "PersistMode")), "before (and only if it succeeded)" if dom else "NOT strictly before")
        ctx.ob("R-C09.4", rot, "sync-old-journal-before-creating-next", ok, detail)
        if cn:
            success_paths_pass(ctx, rot, cn[0], fd, "R-C09.4", "directory-fsync-after-create", "fsync_directory after the new journal file is created")
    for fid in (R.WRITER + "::create_new", R.WRITER + "::from_file"):
        fn = ctx.fn(fid, "R-C09.4")
        if not fn:
            continue
        sl = R.call_blocks(fn, ("std::fs::File::set_len",))
        sa = R.call_blocks(fn, (SYNC_ALL,))
        for i, s in enumerate(sl):
            success_paths_pass(ctx, fn, s, sa, "R-C09.4", "sync-after-preallocation#%d" % (i + 1), "File::sync_all after set_len (pre-allocation)")
        if not sl:
            ctx.ob("R-C09.4", fn, "preallocation-present", False, "no set_len call")
    jc = ctx.fn("journal::Journal::create_new", "R-C09.4")
    if jc:
        cn = [b for b, t in jc.calls() if A.cname(t).startswith(R.WRITER + "::create_new")]
        fd = [b for b, t in jc.calls() if A.cname(t).startswith("file::fsync_directory")]
        if cn:
            success_paths_pass(ctx, jc, cn[0], fd, "R-C09.4", "directory-fsync-after-create", "fsync_directory after Writer::create_new")
        else:
            ctx.ob("R-C09.4", jc, "creates-writer", False, "Journal::create_new does not call Writer::create_new")
    for fid in ("journal::batch_reader::JournalBatchReader::truncate_to", "journal::reader::JournalReader::truncate_file"):
        fn = ctx.fn(fid, "R-C09.4")
        if fn:
            sl = R.call_blocks(fn, ("std::fs::File::set_len",))
            sa = R.call_blocks(fn, (SYNC_ALL,))
            if sl:
                success_paths_pass(ctx, fn, sl[0], sa, "R-C09.4", "sync-after-truncate", "File::sync_all after the tail-repair truncation")
            else:
                ctx.ob("R-C09.4", fn, "truncates", False, "no set_len call")
    dc = ctx.fn("db::Database::create_new", "R-C09.4")
    if dc:
        hdr = [b for b, t in dc.calls() if A.cname(t).startswith("version::FormatVersion::write_file_header")]
        sa = R.call_blocks(dc, (SYNC_ALL,))
        fd = [b for b, t in dc.calls() if A.cname(t).startswith("file::fsync_directory")]
        if hdr:
            success_paths_pass(ctx, dc, hdr[0], sa, "R-C09.4", "version-marker-synced", "sync_all on the version marker after writing it")
            ok = len(fd) >= 2 and all(A.dominates(dc, sa[0], f) for f in fd) if sa else False
            ctx.ob("R-C09.4", dc, "directories-fsynced-after-marker", ok, "both directories are fsynced after the marker (%d fsync_directory calls)" % len(fd))
            # the folder that holds the marker is made durable LAST: once the marker's directory entry survives a power loss,
            # everything the marker vouches for (the keyspaces folder and what was created in it) must survive too
            og_dc = ctx.og(dc)
            root = [f for f in fd if A.tstr(og_dc.of_operand(dc.term(f)["args"][0])).endswith(".path") and
                    not any(x.k == "call" and x.a[0].endswith("::join") for x in A.walk(og_dc.of_operand(dc.term(f)["args"][0])))]
            others = [f for f in fd if f not in root]
            okl = len(root) == 1 and bool(others) and all(A.dominates(dc, o, root[0]) for o in others)
            ctx.ob("R-C09.4", dc, "marker-folder-is-synced-last", okl,
                   "fsync_directory(config.path) follows the fsync of every sub-folder" if okl else
                   "the folder holding the version marker is fsynced before a sub-folder is (%d root / %d other directory syncs): after a power loss the marker can exist while the keyspaces folder it vouches for is incomplete" % (len(root), len(others)),
                   dc.loc(root[0]) if root else "")
        else:
            ctx.ob("R-C09.4", dc, "writes-version-marker", False, "Database::create_new does not write the version marker")
    rec = ctx.fn("db::Database::recover", "R-C09.4")
    if rec:
        pb = R.call_blocks(rec, (R.PERSIST,))
        ok = False
        if pb:
            term = ctx.og(rec).of_operand(rec.term(pb[0])["args"][1])
            ok = A.variants_in(term, "PersistMode") == {"SyncAll"}
        ctx.ob("R-C09.4", rec, "recovered-journal-synced", ok, "recovered (possibly truncated) active journal is persisted with SyncAll before use" if ok else "recovered active journal is not synced with SyncAll")

    # ---- R-C09.5 drop
    jd = ctx.fn("<journal::Journal as std::ops::Drop>::drop", "R-C09.5")
    if jd:
        bs = R.call_blocks(jd, (R.JOURNAL_PERSIST, R.PERSIST))
        ok = False
        detail = "Journal::drop does not persist"
        if bs:
            term = ctx.og(jd).of_operand(jd.term(bs[0])["args"][1])
            vs = A.variants_in(term, "PersistMode")
            ok = vs == {"SyncAll"} and A.dominates(jd, bs[0], jd.return_blocks()[0])
            detail = "Journal::drop persists with %s on every path" % sorted(vs)
        ctx.ob("R-C09.5", jd, "drop-syncs-all", ok, detail)

    # ---- R-C09.6 fsync_directory
    fdirs = [f for f in F.fns.values() if f.id.startswith("file::fsync_directory") and f.kind != "closure"]
    ctx.floor("R-C09.6", "file::fsync_directory", fdirs, 1)
    for fn in fdirs:
        op = R.call_blocks(fn, ("std::fs::File::open",))
        sa = R.call_blocks(fn, (SYNC_ALL,))
        ok_recv = False
        if op and sa:
            term = ctx.og(fn).of_operand(fn.term(sa[0])["args"][0])
            ok_recv = any(x.k == "call" and x.a[0] == "std::fs::File::open" for x in A.walk(term))
            success_paths_pass(ctx, fn, op[0], sa, "R-C09.6", "directory-handle-synced", "File::sync_all on the opened directory")
        ctx.ob("R-C09.6", fn, "sync-targets-the-directory-handle", ok_recv, "sync_all receiver is the File::open(path) handle" if ok_recv else "sync_all is not called on the opened directory handle")
        for b in sa:
            rf = A.result_flow(fn, b)
            ctx.ob("R-C09.6", fn, "sync-result-returned", rf.returned and not rf.swallowed, "fsync_directory returns the sync result" if rf.returned else "sync result dropped")

    # ---- R-C09.8 a commit with a syncing durability level is a barrier even when it has nothing to write: the early return for
    # an empty batch / a transaction without writes must still persist with that level ("a batch/transaction committed
    # with such a durability level returns successfully => every write acknowledged before survives")
    for fid, empties in (("batch::WriteBatch::commit", ("is_empty",)), ("tx::write_tx::BaseTransaction::commit", ("is_empty",))):
        fn = ctx.fn(fid, "R-C09.8")
        if not fn:
            continue
        og = ctx.og(fn)
        early = []
        for b, t in fn.calls():
            if A.cname(t).endswith("::is_empty"):
                ap = A.access_path(og.of_operand(t["args"][0]))
                if ap is not None and ap[0] == "P1" and (len(ap) == 1 or ap[-1] in ("data", "memtables")):
                    sw = A.switch_after_call(fn, b)
                    if sw is not None:
                        zero, true_t = A.bool_edges(fn, sw)
                        early += list(true_t)
        app = R.call_blocks(fn, R.APPEND) + R.call_blocks(fn, ("batch::WriteBatch::commit",))
        region = A.reach(fn, early, avoid=app) if early else set()
        pers = []
        for b in region:
            t = fn.term(b)
            if t["k"] == "call" and A.cname(t) in ("db::Database::persist", R.JOURNAL_PERSIST, R.PERSIST) and len(t["args"]) > 1:
                m = og.of_operand(t["args"][1])
                if any(x.k == "field" and x.a[1] == "durability" for x in A.walk(m)):
                    pers.append(b)
        # the persist is taken exactly for the syncing levels
        ok = bool(early) and bool(pers)
        missing = []
        if ok:
            # with durability Some(SyncData) and Some(SyncAll) no path may skip the persist (Buffer / None may): follow the
            # variant switch on the PersistMode inside the early-return region
            seen_modes = set()
            for b in sorted(region):
                t = fn.term(b)
                if t["k"] != "switch":
                    continue
                tm, labels = A.switch_info(fn, b)
                vm = A.discr_variants(fn, t["d"]) or {}
                if set(vm.values()) != {"Buffer", "SyncData", "SyncAll"}:
                    continue
                for mode in ("SyncData", "SyncAll"):
                    tgts = [tg for tg, ns in labels.items() if mode in ns]
                    seen_modes.add(mode)
                    if not tgts or any(x in A.reach(fn, tgts, avoid=pers) for x in fn.return_blocks()):
                        missing.append(mode)
            if seen_modes != {"SyncData", "SyncAll"}:
                # no explicit variant switch: then every Some(..) path must persist
                pr = A.prune_edges(fn, assume_discr={"durability": "Some"})
                r = A.reach(fn, early, avoid=pers, pruned=pr)
                if any(x in r for x in fn.return_blocks()):
                    missing.append("some level")
            ok = not missing
        ctx.ob("R-C09.8", fn, "empty-commit-still-honours-sync-durability", ok,
               "an empty commit with durability(SyncData|SyncAll) persists the journal with that level before returning" if ok
               else ("an empty commit with durability %s returns Ok without persisting the journal: it acknowledges without syncing what was written before" % "/".join(sorted(set(missing))) if missing else
                     "an empty batch / a transaction without writes returns Ok before its durability level is looked at: commit(durability = SyncAll) acknowledges without syncing what was written before"),
               fn.loc(early[0]) if early else "")
    oc = ctx.fn("tx::optimistic::write_tx::WriteTransaction::commit", "R-C09.8")
    if oc:
        og = ctx.og(oc)
        early = []
        for b, t in oc.calls():
            if A.cname(t).endswith("::is_empty") and any(x.k == "field" and x.a[1] == "memtables" for x in A.walk(og.of_operand(t["args"][0]))):
                sw = A.switch_after_call(oc, b)
                if sw is not None:
                    zero, true_t = A.bool_edges(oc, sw)
                    early += list(true_t)
        inner = R.call_blocks(oc, ("tx::write_tx::BaseTransaction::commit",))
        r = A.reach(oc, early, avoid=inner + list(A.error_starts(oc))) if early else set()
        ok = bool(early) and not [x for x in oc.return_blocks() if x in r]
        ctx.ob("R-C09.8", oc, "read-only-shortcut-still-commits-the-inner-transaction", ok,
               "the read-only shortcut goes through BaseTransaction::commit (which honours a syncing durability level)" if ok
               else "the optimistic read-only shortcut returns without BaseTransaction::commit: a syncing durability level is ignored")

    # ---- cross-cutting disciplines (rules/discipline.py)
    from .. import discipline as D
    # a failed sync / flush is never reported as success
    D.error_discipline(ctx, "R-C09.10", scope=lambda f: f.startswith(("db::Database::create_new", "db::Database::persist", "journal::", "<journal::", "file::", "batch::WriteBatch::commit", "tx::write_tx::BaseTransaction::commit", "tx::optimistic::write_tx::WriteTransaction::commit")))

    # ---- borrowed obligations (mechanisms owned by other properties that this property's verdict also rests on)
    # what is synced in a session is appended behind the repaired tail: if the repair leaves a torn batch's Start marker
    # in place, everything persisted afterwards sits inside that dangling batch and the next recovery cuts it off
    ctx.borrow("C03", ["R-C03.3"], "R-C09.12", only_instances=["cuts-at-last-verified-batch"])
    # a synced write journaled during an ingestion's finish() must not end up below the ingested tables' seqno (replay would skip it)
    ctx.borrow("C14", ["R-C14.2"], "R-C09.11")
    # what was synced before a journal rotation survives only as long as the sealed journal is kept for every keyspace that needs it
    ctx.borrow("C10", ["R-C10.1"], "R-C09.9")

