"""C11 — after reopening, new writes supersede everything recovered (seqno restore plumbing)."""
from .. import analysis as A
from .. import roles as R

META = {
    "technique": "origin terms + loop must-pass-through + dominance on MIR",
    "explanation": (
        "Decides the counter-restore plumbing: (1) in Database::recover the loop over ALL recovered keyspaces performs "
        "seqno.fetch_max(tree.get_highest_seqno() + 1) on every iteration (no keyspace is skipped), on the database's "
        "generator; (2) recover_sealed_memtables does the same for every sealed memtable it keeps; (3) the visible seqno is "
        "restored with snapshot_tracker.set(seqno.get()) after both replay phases and before the workers start and the "
        "handle is returned, and `set` is a fetch_max (it can never lower the counter); (4) MetaKeyspace::remove_keyspace "
        "draws from the same generator and publishes seqno+1 to the same visible counter."),
    "not_decided": [
        "that get_highest_seqno covers tables, ingested tables and tombstone-only memtables (lsm-tree)",
        "the path where no journal file existed (was_active_created): the fetch_max loop is not on it; whether lsm-tree's own recovery raises the shared counter is a dependency fact",
        "that new writes actually win reads (value-level)",
    ],
    "assumptions": ["SequenceNumberCounter::fetch_max is an atomic max"],
}

FETCH_MAX = "lsm_tree::SequenceNumberCounter::fetch_max"


def plus_one_closure(F, fn, term):
    """term is Option::map(get_highest_seqno(..), closure) (possibly unwrap_or_default'ed) and the closure returns x + 1"""
    for x in A.walk(term):
        if x.k == "call" and x.a[0].endswith("Option::<T>::map") and len(x.a[1]) == 2:
            src, cl = x.a[1]
            if not any(y.k == "call" and y.a[0].endswith("::get_highest_seqno") for y in A.walk(src)):
                continue
            if cl.k == "closure":
                cf = F.fns.get(cl.a[0])
                if cf:
                    r = A.Origins(cf).of_local(0)
                    while r.k == "field" and r.a[1] == "0":
                        r = r.a[0]
                    if r.k == "bin" and r.a[0].startswith("Add") and r.a[1].k == "param" and r.a[2].k == "const" and r.a[2].a == ("int", 1):
                        return True, src
    return False, None


def run(ctx):
    F = ctx.F
    # ---- R-C11.1 / R-C11.2
    for fid, rule in (("db::Database::recover", "R-C11.1"), ("recovery::recover_sealed_memtables", "R-C11.2")):
        fn = ctx.fn(fid, rule)
        if not fn:
            continue
        og = ctx.og(fn)
        # fetch_max calls on other counters (the keyspace id counter) are not the seqno restore
        fm = [b for b, t in fn.calls() if A.cname(t) == FETCH_MAX and not any(x.k == "field" and x.a[1] == "keyspace_id_counter" for x in A.walk(og.of_operand(t["args"][0])))]
        # (a) the journal's own sequence numbers: every replayed batch raises the generator above its seqno — a clear record or a
        # record of a deleted keyspace leaves nothing in any tree, yet its number is "present in a journal"
        jfm = []
        for b_ in fm:
            v_ = og.of_operand(fn.term(b_)["args"][1])
            while v_.k == "field" and v_.a[1] == "0":
                v_ = v_.a[0]
            if v_.k == "bin" and v_.a[0].startswith("Add") and v_.a[2].k == "const" and v_.a[2].a == ("int", 1) and any(x.k == "field" and x.a[1] == "seqno" for x in A.walk(v_.a[1])) \
                    and any(x.k == "call" and "JournalBatchReader" in x.a[0] for x in A.walk(v_.a[1])):
                jfm.append(b_)
        fm = [b_ for b_ in fm if b_ not in jfm]
        # (b) the meta keyspace's tree: written with numbers of the same generator (name <-> id rows, option rows, tombstones
        # of deleted keyspaces); its restore is the fetch_max outside every loop whose argument is get_highest_seqno of the
        # tree that is handed to MetaKeyspace::new
        if fid == "db::Database::recover":
            mfm = [b_ for b_ in fm if not A.in_cycle(fn, b_)]
            fm = [b_ for b_ in fm if b_ not in mfm]
            okm = False
            detailm = "Database::recover never raises the generator above the meta keyspace's sequence numbers"
            mk = [tt for bb, tt in fn.calls() if A.cname(tt) == "meta_keyspace::MetaKeyspace::new"]
            sup_seq = None
            for blk in fn.blocks:
                for st in blk["s"]:
                    rv = st["rv"]
                    if rv["k"] == "agg" and rv.get("adt") == "supervisor::SupervisorInner":
                        sup_seq = og.of_operand(dict(zip(rv["fields"], rv["ops"]))["seqno"])
            for b_ in mfm:
                t_ = fn.term(b_)
                recv_ = og.of_operand(t_["args"][0])
                ok1_, src_ = plus_one_closure(F, fn, og.of_operand(t_["args"][1]))
                tree_ = og.of_operand(mk[0]["args"][0]) if mk else None
                same_tree = src_ is not None and tree_ is not None and any(x.k == "call" and x.a[0].endswith("Config::open") for x in A.walk(src_)) and \
                    {x.site for x in A.walk(src_) if x.k == "call" and x.a[0].endswith("Config::open")} & {x.site for x in A.walk(tree_) if x.k == "call" and x.a[0].endswith("Config::open")}
                same_gen = sup_seq is not None and A.tkey(recv_) == A.tkey(sup_seq)
                # before the database is handed out and before anything is created in it
                early = bool(mk) and any(A.dominates(fn, b_, bb) for bb, tt in fn.calls() if A.cname(tt) == "recovery::recover_keyspaces")
                if ok1_ and same_tree and same_gen and early:
                    okm = True
                    detailm = "generator.fetch_max(meta_tree.get_highest_seqno() + 1) right after the meta tree is opened"
            ctx.ob(rule, fn, "meta-keyspace-seqnos-restored", okm,
                   detailm if okm else detailm + ": after a reopen, rows written to the meta keyspace (a newly created keyspace reusing a deleted keyspace's id) get lower sequence numbers than the old tombstones of the same keys — the new keyspace vanishes, with its data, once the meta tree compacts")
        breader = [bb for bb, tt in fn.calls() if A.cname(tt).endswith("::next") and "JournalBatchReader" in A.cname(tt) and A.in_cycle(fn, bb)]
        okj = False
        detailj = "no `seqno.fetch_max(batch.seqno + 1)` in the replay loop of %s" % fid
        if jfm and breader:
            recvj = og.of_operand(fn.term(jfm[0])["args"][0])
            # executed for every batch: in the batch loop, before (dominating) every per-record step of that batch
            inner = [bb for bb, tt in fn.calls() if A.cname(tt) == "meta_keyspace::MetaKeyspace::resolve_id" and A.in_cycle(fn, bb)] + [bb for bb in R.apply_blocks(fn) if A.in_cycle(fn, bb)]
            okj = A.ends_with_field(recvj, "supervisor", "seqno") and A.in_cycle(fn, jfm[0]) and bool(inner) and all(A.dominates(fn, jfm[0], x) for x in inner)
            detailj = "every replayed batch raises the generator above its own seqno, before any of its records is looked at" if okj else "the journal-seqno restore does not run for every replayed batch / is not on the database generator"
        ctx.ob(rule, fn, "journal-seqnos-restored", okj,
               detailj if okj else detailj + ": sequence numbers present in a journal (a clear record, records of a deleted keyspace) can be handed out again after the reopen")
        if not fm:
            ctx.ob(rule, fn, "restores-seqno", False, "no seqno.fetch_max in %s: sequence numbers handed out after reopen could be below recovered ones" % fid)
            continue
        b = fm[0]
        t = fn.term(b)
        recv = og.of_operand(t["args"][0])
        okr = A.ends_with_field(recv, "supervisor", "seqno")
        ok1, src = plus_one_closure(F, fn, og.of_operand(t["args"][1]))
        ctx.ob(rule, fn, "fetch_max-of-highest-seqno-plus-1", okr and ok1,
               "supervisor.seqno.fetch_max(get_highest_seqno().map(|x| x + 1))" if okr and ok1 else "seqno restore is not fetch_max(highest seqno + 1) on the database generator: recv=%s arg=%s" % (A.tstr(recv)[-60:], A.tstr(og.of_operand(t["args"][1]))[:120]))
        if fid == "db::Database::recover":
            # the restores run when an active journal EXISTED (the normal reopen), not only / not instead when it was just created
            pr_ = A.prune_edges(fn, assume_field={"was_active_created": False})
            live_ = A.reach(fn, [0], pruned=pr_)
            okw = b in live_ and (not jfm or jfm[0] in live_)
            ctx.ob(rule, fn, "restores-run-on-a-normal-reopen", okw,
                   "with was_active_created = false (an active journal was found) the journal replay and the table-seqno restore are reachable" if okw else
                   "with was_active_created = false — every normal reopen — the seqno restore (journal replay / per-keyspace tables) is not reachable: the generator restarts below recovered sequence numbers")
            # every iteration of the loop over keyspaces.values() passes the fetch_max
            heads = [bb for bb, tt in fn.calls() if A.cname(tt).endswith("::next") and "hash_map::Values" in (tt.get("full") or "") and A.in_cycle(fn, bb) and b in A.reach_after(fn, bb)]
            heads = [h for h in heads if h in A.reach_after(fn, b)]
            ok = False
            detail = "the fetch_max is not inside a loop over all keyspaces"
            if heads:
                h = heads[0]
                sw = A.switch_after_call(fn, h)
                _, labels = A.switch_info(fn, sw) if sw is not None else (None, {})
                some_t = [tg for tg, ns in labels.items() if "Some" in ns]
                r = A.reach(fn, some_t, avoid=[b])
                ok = bool(some_t) and h not in r
                detail = "every iteration over keyspaces.values() performs the fetch_max" if ok else "an iteration of the keyspace loop can skip the fetch_max (a keyspace holding the highest seqno would be ignored)"
                src_ok = src is not None and any(y.k == "call" and "hash_map::Values" in y.a[0] or (y.k == "call" and y.a[0].endswith("::next")) for y in A.walk(src))
                ctx.ob(rule, fn, "highest-seqno-of-the-iterated-keyspace", src_ok, "get_highest_seqno() is read from the keyspace being iterated", nontrivial=False)
            ctx.ob(rule, fn, "every-keyspace-considered", ok, detail)
        else:
            rot = [bb for bb, tt in fn.calls() if A.cname(tt).endswith("AbstractTree>::rotate_memtable")]
            ok = False
            if rot:
                sw = A.switch_after_call(fn, rot[0])
                _, labels = A.switch_info(fn, sw) if sw is not None else (None, {})
                some_t = [tg for tg, ns in labels.items() if "Some" in ns]
                heads = [bb for bb, tt in fn.calls() if A.cname(tt).endswith("::next") and A.in_cycle(fn, bb) and rot[0] in A.reach_after(fn, bb) and bb in A.reach_after(fn, rot[0])]
                r = A.reach(fn, some_t, avoid=[b])
                ok = bool(some_t) and not any(h in r for h in heads) and not any(x in r for x in fn.return_blocks())
            ctx.ob(rule, fn, "every-kept-sealed-memtable-considered", ok, "every sealed memtable that is kept raises the seqno" if ok else "a kept sealed memtable can be processed without raising the seqno")

    # ---- R-C11.3 visible seqno restored after replay, before workers; set never lowers
    rec = ctx.fn("db::Database::recover", "R-C11.3")
    if rec:
        og = ctx.og(rec)
        st = R.call_blocks(rec, ("snapshot_tracker::SnapshotTracker::set",))
        if not st:
            ctx.ob("R-C11.3", rec, "visible-seqno-restored", False, "Database::recover never restores the visible seqno (snapshot_tracker.set)")
        else:
            arg = og.of_operand(rec.term(st[0])["args"][1])
            oka = arg.k == "call" and arg.a[0] == "lsm_tree::SequenceNumberCounter::get" and A.ends_with_field(arg.a[1][0], "supervisor", "seqno")
            ctx.ob("R-C11.3", rec, "set-to-the-restored-generator", oka, "snapshot_tracker.set(supervisor.seqno.get())" if oka else "visible seqno restored from %s" % A.tstr(arg)[:100])
            # the seqno.get() must be evaluated after the replay phases
            sealed = R.call_blocks(rec, ("recovery::recover_sealed_memtables",))
            fm = [b for b, t in rec.calls() if A.cname(t) == FETCH_MAX]
            ws = R.call_blocks(rec, ("worker_pool::WorkerPool::start",))
            getsite = arg.site[1] if (arg.k == "call" and arg.site) else st[0]
            after = all(A.dominates(rec, s, getsite) for s in sealed) and not any(f in A.reach_after(rec, getsite) for f in fm) and not any(s in A.reach_after(rec, st[0]) for s in sealed)
            before = bool(ws) and all(A.dominates(rec, st[0], w) for w in ws)
            oks = [b for b, blk in enumerate(rec.blocks) if not blk["cleanup"] for s in blk["s"] if s["rv"]["k"] == "agg" and s["rv"].get("variant") == "Ok" and s["p"]["l"] == 0]
            before = before and all(A.dominates(rec, st[0], b) for b in oks)
            ctx.ob("R-C11.3", rec, "restored-after-replay", after, "the generator is read after both replay phases (no fetch_max can follow)" if after else "the visible seqno is restored before the replay finished raising the generator")
            ctx.ob("R-C11.3", rec, "restored-before-workers-and-return", before, "set() dominates the worker start and Ok(db)" if before else "workers start / the handle is returned before the visible seqno is restored")
    sf = ctx.fn("snapshot_tracker::SnapshotTracker::set", "R-C11.3")
    if sf:
        og = ctx.og(sf)
        calls = [(b, t) for b, t in sf.calls() if not A.is_transparent(A.cname(t))]
        ok = len(calls) == 1 and A.cname(calls[0][1]) == FETCH_MAX and A.access_path(og.of_operand(calls[0][1]["args"][0])) == ("P1", "seqno") and og.of_operand(calls[0][1]["args"][1]).k == "param"
        ctx.ob("R-C11.3", sf, "set-is-fetch_max", ok, "SnapshotTracker::set(v) = visible.fetch_max(v): never lowers" if ok else "SnapshotTracker::set is not a pure fetch_max of its argument (it could lower the visible seqno)")

    # ---- R-C11.4 meta keyspace uses the same counters
    rk = ctx.fn("meta_keyspace::MetaKeyspace::remove_keyspace", "R-C11.4")
    if rk:
        og = ctx.og(rk)
        nx = [b for b, t in rk.calls() if A.cname(t) == R.SEQNO_NEXT]
        fm = [b for b, t in rk.calls() if A.cname(t) == FETCH_MAX]
        ok = False
        if nx and fm:
            g = og.of_operand(rk.term(nx[0])["args"][0])
            v = og.of_operand(rk.term(fm[0])["args"][0])
            val = og.of_operand(rk.term(fm[0])["args"][1])
            while val.k == "field" and val.a[1] == "0":
                val = val.a[0]
            ok = A.access_path(g) == ("P1", "seqno_generator") and A.access_path(v) == ("P1", "visible_seqno") and val.k == "bin" and val.a[0].startswith("Add") and \
                val.a[1].k == "call" and val.a[1].a[0] == R.SEQNO_NEXT and val.a[2].k == "const" and val.a[2].a == ("int", 1)
        ctx.ob("R-C11.4", rk, "draws-and-publishes-on-shared-counters", ok, "seqno_generator.next(); visible_seqno.fetch_max(seqno + 1)" if ok else "keyspace removal does not draw from the shared generator / publish seqno+1 to the shared visible counter")
    mn = ctx.fn("meta_keyspace::MetaKeyspace::new", "R-C11.4")
    if mn:
        ok = False
        for blk in mn.blocks:
            for st in blk["s"]:
                rv = st["rv"]
                if rv["k"] == "agg" and rv.get("adt") == "meta_keyspace::MetaKeyspace":
                    d = dict(zip(rv["fields"], rv["ops"]))
                    og = ctx.og(mn)
                    a, b = og.of_operand(d["seqno_generator"]), og.of_operand(d["visible_seqno"])
                    ok = a.k == "param" and a.a[0] == 3 and b.k == "param" and b.a[0] == 4
        ctx.ob("R-C11.4", mn, "stores-the-given-counters", ok, "MetaKeyspace keeps (generator, visible) in that order" if ok else "MetaKeyspace::new swaps or replaces the counters it is given")


    # ---- R-C11.5 every tree draws its own numbers (versions, bulk-ingested tables) from the database generator (shared with C06)
    from . import C06
    C06.shared_counters(ctx, "R-C11.5")

    # ---- cross-cutting disciplines (rules/discipline.py)
    from .. import discipline as D
    # every batch and every keyspace takes part in the seqno restore
    D.loops_visit_all(ctx, "R-C11.6", only=("db::Database::recover", "recovery::recover_sealed_memtables"))

    # ---- borrowed obligations (mechanisms owned by other properties that this property's verdict also rests on)
    # what recovery leaves at the journal's tail decides whether writes made after the reopen are still there after the next one
    ctx.borrow("C03", ["R-C03.3"], "R-C11.7")

