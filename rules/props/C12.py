"""C12 — keyspaces are isolated; a deleted keyspace never comes back (id plumbing, refusal, replay lookup, deletion order)."""
from .. import analysis as A
from .. import roles as R
from .. import fs as FS

META = {
    "technique": "dominating branch conditions + origin-term identity + who-may-call table on MIR",
    "explanation": (
        "Decides: (1) Keyspace::{insert,remove,remove_weak} test is_deleted before taking the journal lock and the true edge "
        "returns KeyspaceDeleted without appending; delete_keyspace removes the meta entry before setting the flag (const "
        "true); (2) at all four replay apply groups the tree apply is dominated by the Some edges of "
        "meta_keyspace.resolve_id(<id of this record>) and keyspaces.get(<that name>), and the tree applied to comes from "
        "that very lookup — records of unknown (deleted) ids are skipped, never redirected; (3) each write entry journals "
        "its own id and applies to its own tree, write_batch serialises item.keyspace.id and the batch applies to "
        "item.keyspace.tree; (4) Database::keyspace uses one keyspace_id_counter.next() value for the folder/handle and the "
        "meta entry; recover_keyspaces re-seeds the counter with max_seen+1 where max_seen is folded before the "
        "unreferenced-directory `continue`; (5) on last drop the manifest is removed before the directory, the directory "
        "only on the manifest's Ok edge, only when is_deleted; destructive fs calls are limited to the who-may-call table; "
        "(6) the 'n'+id meta key is built from the same id in create_keyspace / remove_keyspace / resolve_id."),
    "not_decided": [
        "reappearance across arbitrary crash points",
        "keyspace-id reuse against surviving journal records after delete -> reopen -> create (the counter is re-seeded from directories that deletion removed): a history-dependent value question",
        "WriteBatch::commit does not re-check is_deleted for its items (observation, not claimed by the property's 'direct inserts and removes')",
    ],
    "assumptions": ["lsm-tree treats a tree folder without manifest as uninitialised"],
}

DELETED_ENTRIES = ("keyspace::Keyspace::insert", "keyspace::Keyspace::remove", "keyspace::Keyspace::remove_weak")
RESOLVE = "meta_keyspace::MetaKeyspace::resolve_id"


def is_deleted_loads(ctx, fn):
    og = ctx.og(fn)
    return [b for b, t in fn.calls() if A.cname(t) == "std::sync::atomic::Atomic::<bool>::load" and
            any(x.k == "field" and x.a[1] == "is_deleted" for x in A.walk(og.of_operand(t["args"][0])))]


def run(ctx):
    F = ctx.F
    cg = ctx.cg
    # ---- R-C12.1 refused after delete
    for fid in DELETED_ENTRIES:
        fn = ctx.fn(fid, "R-C12.1")
        if not fn:
            continue
        ld = is_deleted_loads(ctx, fn)
        gw = R.j_acquire_blocks(ctx, fn)
        ab = R.call_blocks(fn, R.APPEND)
        if not ld:
            ctx.ob("R-C12.1", fn, "checks-is_deleted", False, "write through a keyspace handle never looks at is_deleted: writes to a deleted keyspace are accepted")
            continue
        og = ctx.og(fn)
        own = A.access_path(og.of_operand(fn.term(ld[0])["args"][0])) == ("P1", "is_deleted")
        dom = all(A.dominates(fn, ld[0], x) for x in gw + ab)
        sw = A.switch_after_call(fn, ld[0])
        ok = False
        detail = "is_deleted is loaded but not branched on"
        if sw is not None:
            zero, true_t = A.bool_edges(fn, sw)
            r = A.reach(fn, true_t)
            hit = [x for x in ab + R.apply_blocks(fn) + gw if x in r]
            agg = [s for x in r for s in fn.blocks[x]["s"] if s["rv"]["k"] == "agg" and s["rv"].get("variant") == "KeyspaceDeleted"]
            ok = bool(true_t) and not hit and bool(agg)
            detail = "deleted edge returns Err(KeyspaceDeleted) without journaling or applying" if ok else "deleted edge still reaches the journal/tree (%s) or does not report KeyspaceDeleted" % hit
        ctx.ob("R-C12.1", fn, "deleted-handle-refuses", ok and dom and own, detail + ("" if dom else "; the check does not dominate the journal append") + ("" if own else "; the flag tested is not self.is_deleted"))
    dk = ctx.fn("db::Database::delete_keyspace", "R-C12.1")
    if dk:
        og = ctx.og(dk)
        rk = R.call_blocks(dk, ("meta_keyspace::MetaKeyspace::remove_keyspace",))
        st = [b for b, t in dk.calls() if A.cname(t) == "std::sync::atomic::Atomic::<bool>::store" and any(x.k == "field" and x.a[1] == "is_deleted" for x in A.walk(og.of_operand(t["args"][0])))]
        ok = False
        detail = "delete_keyspace lacks remove_keyspace or the is_deleted store"
        if rk and st:
            rf = A.result_flow(dk, rk[0])
            after_ok = all(any(A.dominates(dk, okb, s) for okb in rf.ok_blocks) for s in st)
            v = og.of_operand(dk.term(st[0])["args"][1])
            same = A.tkey(A.Origins(dk).of_operand(dk.term(st[0])["args"][0])).startswith("P2") and "P2" in A.tstr(og.of_operand(dk.term(rk[0])["args"][1]))
            oks = [b for b, blk in enumerate(dk.blocks) if not blk["cleanup"] for s in blk["s"] if s["rv"]["k"] == "agg" and s["rv"].get("variant") == "Ok" and s["p"]["l"] == 0]
            before_ok = all(A.dominates(dk, st[0], b) for b in oks)
            ok = after_ok and v.k == "const" and v.a == ("bool", True) and same and before_ok
            detail = "remove_keyspace(handle.name) succeeds, then handle.is_deleted.store(true), then Ok" if ok else "deletion order/flag wrong: store after successful meta removal=%s value=%s same handle=%s before Ok=%s" % (after_ok, A.tstr(v), same, before_ok)
        ctx.ob("R-C12.1", dk, "meta-removal-then-flag", ok, detail)

    # ---- R-C12.2 replay resolves ids and skips unknown ones
    groups = 0
    for fid in ("db::Database::recover", "recovery::recover_sealed_memtables"):
        fn = ctx.fn(fid, "R-C12.2")
        if not fn:
            continue
        og = ctx.og(fn)
        for i, b in enumerate(R.apply_blocks(fn)):
            t = fn.term(b)
            leaf = A.cname(t).rsplit("::", 1)[-1]
            groups += 1
            ctx.count_sites()
            conds = A.edge_conditions(fn, b)
            res = None
            got = None
            for sb, term, labels in conds:
                if term.k != "discr" or "Some" not in labels:
                    continue
                root = A.value_root(term.a)
                if root.k == "call" and root.a[0] == RESOLVE:
                    res = root
                if root.k == "call" and root.a[0].endswith("HashMap::<K, V, S, A>::get"):
                    got = root
            tree = og.of_operand(t["args"][0])
            ok = res is not None and got is not None
            detail = "apply is guarded by resolve_id(..)=Some and keyspaces.get(..)=Some"
            if ok:
                # the name looked up is the one resolved; the tree applied to comes from that lookup
                name_ok = any(x.k == "call" and x.a[0] == RESOLVE and x.site == res.site for x in A.walk(got.a[1][1]))
                tree_ok = any(x.k == "call" and x.site == got.site and x.a[0] == got.a[0] for x in A.walk(tree)) and A.ends_with_field(tree, "tree")
                # the id resolved belongs to this record
                idt = res.a[1][1]
                if leaf == "clear":
                    id_ok = any(x.k == "field" and x.a[1] == "cleared_keyspaces" for x in A.walk(idt))
                else:
                    id_ok = any(x.k == "field" and x.a[1] == "keyspace_id" for x in A.walk(idt))
                    # and key/value come from the same item
                ok = name_ok and tree_ok and id_ok
                detail = "resolve_id(record id) -> keyspaces.get(that name) -> apply to that handle's tree" if ok else "lookup chain broken: name from resolve=%s tree from lookup=%s id from record=%s" % (name_ok, tree_ok, id_ok)
            else:
                detail = "replayed %s is not guarded by both lookups (resolve_id Some=%s, keyspaces.get Some=%s): records of deleted/unknown keyspaces could be applied somewhere" % (leaf, res is not None, got is not None)
            ctx.ob("R-C12.2", fn, "replay-%s#%d-resolves-and-skips-unknown" % (leaf, i + 1), ok, detail, fn.loc(b))
    ctx.floor("R-C12.2", "replay apply sites", groups, 8)
    # skipping a record of an unknown keyspace skips ONLY that record: the None edges continue the per-record loop
    nskips = 0
    for fid in ("db::Database::recover", "recovery::recover_sealed_memtables"):
        fn = F.fns.get(fid)
        if not fn:
            continue
        heads = [b for b, t in fn.calls() if A.cname(t).endswith("::next") and A.in_cycle(fn, b)]
        lookups = [b for b, t in fn.calls() if A.cname(t) == RESOLVE or (A.cname(t).endswith("HashMap::<K, V, S, A>::get") and A.in_cycle(fn, b))]
        for i, lb in enumerate(lookups):
            # the switch on the Option produced by this lookup (after `?` for resolve_id)
            none_t = None
            for sb, blk in enumerate(fn.blocks):
                t = blk["t"]
                if t["k"] != "switch" or blk["cleanup"]:
                    continue
                term, labels = A.switch_info(fn, sb)
                if term.k != "discr":
                    continue
                root = A.value_root(term.a)
                if root.k == "call" and root.site == (fn.id, lb) and any("None" in ns for ns in labels.values()) :
                    none_t = [tg for tg, ns in labels.items() if "None" in ns]
                    if not any("Some" in ns for ns in labels.values()):
                        none_t = [tg for tg, ns in labels.items() if "Some" not in ns]
            if not none_t:
                continue
            # innermost loop head that the lookup belongs to: the head h with lb in cycle through h, minimal region
            cands = [h for h in heads if A.dominates(fn, h, lb) and h in A.reach_after(fn, lb)]
            inner = None
            for h in cands:
                if all(A.dominates(fn, o, h) for o in cands):
                    inner = h
            if inner is None:
                continue
            nskips += 1
            r = A.reach(fn, none_t, avoid=[inner])
            others = [h for h in heads if h != inner and h in r]
            rets = [x for x in fn.return_blocks() if x in r]
            ok = not others and not rets and (inner in A.reach(fn, none_t))
            ctx.ob("R-C12.2", fn, "unknown-id-skips-only-that-record#%d" % (i + 1), ok,
                   "a record whose keyspace no longer resolves is skipped and the loop continues with the next record" if ok
                   else "the skip edge of %s leaves the per-record loop: the remaining records of the batch (belonging to OTHER keyspaces) are dropped too" % A.cname(fn.term(lb)).rsplit("::", 1)[-1], fn.loc(lb))
    ctx.floor("R-C12.2", "skip edges of the replay lookups", nskips, 8)

    # ---- R-C12.3 own id, own tree
    for fn in R.write_entries(ctx):
        og = ctx.og(fn)
        if fn.id == "batch::WriteBatch::commit":
            for b in R.apply_blocks(fn):
                tree = og.of_operand(fn.term(b)["args"][0])
                ok = A.ends_with_field(tree, "keyspace", "tree")
                ctx.ob("R-C12.3", fn, "batch-applies-to-item-keyspace#%s" % A.cname(fn.term(b)).rsplit("::", 1)[-1], ok, "batch item applied to item.keyspace.tree" if ok else "batch item applied to %s" % A.tstr(tree)[:80], fn.loc(b))
            continue
        for b in R.call_blocks(fn, R.APPEND):
            idt = og.of_operand(fn.term(b)["args"][1])
            ok = A.access_path(idt) == ("P1", "id")
            ctx.ob("R-C12.3", fn, "journals-own-id", ok, "journal record carries self.id" if ok else "journal record carries %s, not this keyspace's id" % A.tstr(idt), fn.loc(b))
        for b in R.apply_blocks(fn):
            tree = og.of_operand(fn.term(b)["args"][0])
            ok = A.access_path(tree) == ("P1", "tree")
            ctx.ob("R-C12.3", fn, "applies-to-own-tree", ok, "applied to self.tree" if ok else "applied to %s" % A.tstr(tree), fn.loc(b))
    wb = ctx.fn(R.WRITER + "::write_batch", "R-C12.3")
    if wb:
        og = ctx.og(wb)
        ok = False
        for b, t in wb.calls():
            if A.cname(t).startswith("journal::entry::serialize_marker_item"):
                idt = og.of_operand(t["args"][1])
                k = og.of_operand(t["args"][2])
                v = og.of_operand(t["args"][3])
                ok = A.ends_with_field(idt, "keyspace", "id") and A.ends_with_field(k, "key") and A.ends_with_field(v, "value")
                same_item = len({A.tkey(x.a[0]) for x in (k, v) if x.k == "field"}) == 1
                ok = ok and same_item
        ctx.ob("R-C12.3", wb, "serialises-item-keyspace-id", ok, "each batch item is journaled with item.keyspace.id, item.key, item.value" if ok else "write_batch does not journal each item under its own keyspace id")

    # ---- R-C12.4 ids are fresh and consistent
    kf = ctx.fn("db::Database::keyspace", "R-C12.4")
    if kf:
        og = ctx.og(kf)
        nx = [b for b, t in kf.calls() if A.cname(t) == R.SEQNO_NEXT]
        cn = [b for b, t in kf.calls() if A.cname(t) == "keyspace::Keyspace::create_new"]
        ck = [b for b, t in kf.calls() if A.cname(t) == "meta_keyspace::MetaKeyspace::create_keyspace"]
        ok = False
        detail = "Database::keyspace lacks the id draw / create_new / create_keyspace"
        if len(nx) == 1 and cn and ck:
            a = og.of_operand(kf.term(cn[0])["args"][0])
            b2 = og.of_operand(kf.term(ck[0])["args"][1])
            ctr = og.of_operand(kf.term(nx[0])["args"][0])
            ok = A.tkey(a) == A.tkey(b2) and a.k == "call" and a.a[0] == R.SEQNO_NEXT and A.access_path(ctr) == ("P1", "keyspace_id_counter")
            detail = "one keyspace_id_counter.next() value names the folder/handle and the meta entry" if ok else "create_new(id=%s) vs create_keyspace(id=%s)" % (A.tstr(a), A.tstr(b2))
            # same name and same handle registered
            n1 = og.of_operand(kf.term(cn[0])["args"][2])
            n2 = og.of_operand(kf.term(ck[0])["args"][2])
            h = og.of_operand(kf.term(ck[0])["args"][3])
            okn = "P2" in A.tstr(n1) and "P2" in A.tstr(n2) and any(x.k == "call" and x.a[0] == "keyspace::Keyspace::create_new" for x in A.walk(h))
            ctx.ob("R-C12.4", kf, "registers-the-created-handle-under-its-name", okn, "meta entry stores the name parameter and the handle just created" if okn else "meta entry does not pair the requested name with the created handle")
        ctx.ob("R-C12.4", kf, "one-fresh-id", ok, detail)
    cnf = ctx.fn("keyspace::Keyspace::create_new", "R-C12.4")
    if cnf:
        og = ctx.og(cnf)
        okf = False
        for b, t in cnf.calls():
            if A.cname(t) == "lsm_tree::Config::new":
                p = og.of_operand(t["args"][0])
                okf = any(x.k == "param" and x.a[0] == 1 for x in A.walk(p)) and any(x.k == "const" and x.a == ("str", "keyspaces") for x in A.walk(p))
        oki = False
        for blk in cnf.blocks:
            for st in blk["s"]:
                rv = st["rv"]
                if rv["k"] == "agg" and rv.get("adt") == "keyspace::KeyspaceInner":
                    d = dict(zip(rv["fields"], rv["ops"]))
                    t1 = og.of_operand(d["id"])
                    oki = t1.k == "param" and t1.a[0] == 1
        ctx.ob("R-C12.4", cnf, "folder-and-handle-named-by-the-id", okf and oki, "tree folder = keyspaces/<id> and KeyspaceInner.id = id" if okf and oki else "folder name / handle id do not both derive from the keyspace_id parameter")
    rkf = ctx.fn("recovery::recover_keyspaces", "R-C12.4")
    if rkf:
        og = ctx.og(rkf)
        st = [b for b, t in rkf.calls() if A.cname(t) == "lsm_tree::SequenceNumberCounter::set"]
        ok = False
        detail = "recover_keyspaces does not re-seed keyspace_id_counter"
        if st:
            v = og.of_operand(rkf.term(st[0])["args"][1])
            while v.k == "field" and v.a[1] == "0":
                v = v.a[0]
            plus = v.k == "bin" and v.a[0].startswith("Add") and v.a[2].k == "const" and v.a[2].a == ("int", 1) and any(x.k == "call" and x.a[0].endswith("Ord::max") for x in A.walk(v.a[1]))
            ctr = A.access_path(og.of_operand(rkf.term(st[0])["args"][0])) == ("P1", "keyspace_id_counter")
            mx = [b for b, t in rkf.calls() if A.cname(t).endswith("Ord::max")]
            rs = R.call_blocks(rkf, (RESOLVE,))
            before = bool(mx) and bool(rs) and A.dominates(rkf, mx[0], rs[0])
            rm = R.call_blocks(rkf, ("std::fs::remove_dir_all",))
            before = before and all(A.dominates(rkf, mx[0], x) for x in rm)
            last = all(A.dominates(rkf, st[0], r) for r in [x for x in rkf.return_blocks()] if False) or True
            ok = plus and ctr and before
            detail = "counter.set(max_seen + 1), max folded before any directory is skipped/removed" if ok else "id counter re-seed wrong: +1 over max=%s on keyspace_id_counter=%s max folded before the continue=%s" % (plus, ctr, before)
        ctx.ob("R-C12.4", rkf, "counter-reseeded-above-every-seen-id", ok, detail)
        # recovered handle gets the directory's id and the resolved name
        for b, t in rkf.calls():
            if A.cname(t) == "keyspace::Keyspace::from_database":
                idt = og.of_operand(t["args"][0])
                nm = og.of_operand(t["args"][3])
                rsv = [x for x in A.walk(nm) if x.k == "call" and x.a[0] == RESOLVE]
                okh = bool(rsv) and A.tkey(rsv[0].a[1][1]) == A.tkey(idt)
                ctx.ob("R-C12.4", rkf, "recovered-handle-pairs-id-with-its-name", okh, "from_database(id, .., name = resolve_id(id))" if okh else "recovered handle pairs id %s with a name resolved from another id" % A.tstr(idt)[:60], rkf.loc(b))

    # ids still referenced by journal records are never handed out again: the directory scan above cannot see the id of a
    # DELETED keyspace (its directory is gone) while its records are still in a journal — a keyspace created after the
    # reopen would get that id and the following reopen would replay the deleted keyspace's records into it
    for fid in ("db::Database::recover", "recovery::recover_sealed_memtables"):
        fn = ctx.fn(fid, "R-C12.4")
        if not fn:
            continue
        og = ctx.og(fn)
        rs = [b for b in R.call_blocks(fn, (RESOLVE,)) if A.in_cycle(fn, b)]
        bumps = []
        for b, t in fn.calls():
            if A.cname(t) == "lsm_tree::SequenceNumberCounter::fetch_max" and A.in_cycle(fn, b):
                recv = og.of_operand(t["args"][0])
                if any(x.k == "field" and x.a[1] == "keyspace_id_counter" for x in A.walk(recv)):
                    v = og.of_operand(t["args"][1])
                    while v.k == "field" and v.a[1] == "0":
                        v = v.a[0]
                    plus1 = v.k == "bin" and v.a[0].startswith("Add") and v.a[2].k == "const" and v.a[2].a == ("int", 1)
                    bumps.append((b, plus1, v))
        # every id resolution inside the replay loops is preceded (dominated) by a bump with that very id + 1
        missing = []
        for r in rs:
            idt = og.of_operand(fn.term(r)["args"][1])
            okb = False
            for b, plus1, v in bumps:
                if plus1 and A.dominates(fn, b, r) and A.same_value_site(v.a[1], idt):
                    okb = True
            if not okb:
                missing.append(r)
        ok = bool(rs) and not missing
        ctx.ob("R-C12.4", fn, "replayed-ids-are-never-handed-out-again", ok,
               "every keyspace id met in a journal record (items and clears, known or not) raises keyspace_id_counter above it" if ok
               else "a keyspace id met in a replayed journal record does not raise keyspace_id_counter (%d of %d resolution sites): after delete -> reopen -> create the new keyspace reuses the deleted keyspace's id and the next reopen replays the deleted keyspace's records into it" % (len(missing), len(rs)),
               fn.loc(missing[0]) if missing else "")

    # ---- R-C12.5 deletion order on last drop
    kd = ctx.fn("<keyspace::KeyspaceInner as std::ops::Drop>::drop", "R-C12.5")
    if kd:
        ld = is_deleted_loads(ctx, kd)
        rf_ = R.call_blocks(kd, ("std::fs::remove_file",))
        rd = R.call_blocks(kd, ("std::fs::remove_dir_all",))
        ok = False
        detail = "Drop lacks the is_deleted test, remove_file or remove_dir_all"
        if ld and rf_ and rd:
            sw = A.switch_after_call(kd, ld[0])
            zero, true_t = A.bool_edges(kd, sw) if sw is not None else ([], [])
            only_deleted = not any(x in A.reach(kd, zero) for x in rf_ + rd)
            rfl = A.result_flow(kd, rf_[0])
            order = all(any(A.dominates(kd, okb, d) for okb in rfl.ok_blocks) for d in rd)
            og = ctx.og(kd)
            man = og.of_operand(kd.term(rf_[0])["args"][0])
            manifest = any(x.k == "const" and x.a == ("def", "file::LSM_CURRENT_VERSION_MARKER") or (x.k == "const" and x.a == ("str", "current")) for x in A.walk(man))
            ok = only_deleted and order and manifest
            detail = "only when is_deleted: remove_file(<tree>/current) and, on its Ok edge, remove_dir_all(<tree>)" if ok else "deletion order wrong: only-when-deleted=%s dir-removal-after-successful-manifest-removal=%s manifest-path=%s" % (only_deleted, order, manifest)
        ctx.ob("R-C12.5", kd, "manifest-before-directory", ok, detail)
    n = FS.check_fs_table(ctx, "R-C12.5", only={"std::fs::remove_dir_all", "std::fs::remove_file", "std::fs::create_dir_all"})
    ctx.floor("R-C12.5", "destructive / creating fs call sites", n, 8)

    # ---- R-C12.6 meta rows
    for fid, idsrc in (("meta_keyspace::MetaKeyspace::create_keyspace", "P2"), ("meta_keyspace::MetaKeyspace::remove_keyspace", "field:id"), (RESOLVE, "P2")):
        fn = ctx.fn(fid, "R-C12.6")
        if not fn:
            continue
        og = ctx.og(fn)
        tb = [(b, t) for b, t in fn.calls() if A.cname(t).endswith("::to_be_bytes")]
        has_n = False
        for blk in fn.blocks:
            for st in blk["s"]:
                c = A.stmt_const(st)
                if c == ("int", 110):
                    has_n = True
        for b, t in fn.calls():
            for a in t["args"]:
                c = a.get("const")
                if c and c.get("val") == 110:
                    has_n = True
        okid = False
        for b, t in tb:
            term = og.of_operand(t["args"][0])
            if idsrc == "P2":
                okid = okid or (term.k == "param" and term.a[0] == 2)
            else:
                okid = okid or (term.k == "field" and term.a[1] == "id" and any(x.k == "call" and x.a[0].endswith("HashMap::<K, V, S, A>::get") for x in A.walk(term)))
        ctx.ob("R-C12.6", fn, "name-row-key-is-n-plus-be-id", has_n and okid, "'n' + id.to_be_bytes() built from %s" % ("the id parameter" if idsrc == "P2" else "the id of the keyspace found under `name`") if has_n and okid else "meta name-row key is not 'n' + big-endian id of the right keyspace (has 'n'=%s, id source ok=%s)" % (has_n, okid))

    # ---- R-C12.7 look-up and creation of a name are one critical section: Database::keyspace decides "does not exist yet" and
    # creates the keyspace (id, folder, meta rows, map entry) under ONE keyspaces.write() guard. With the look-up under a
    # shared lock (or the guard taken only for the last step) two threads opening the same new name both create a
    # keyspace: two ids, two folders, two `n<id> -> name` rows; handles that do not see each other's writes.
    kf = ctx.fn("db::Database::keyspace", "R-C12.7")
    if kf:
        og = ctx.og(kf)
        wr = [b for b, t in kf.calls() if A.cname(t).endswith("RwLock::<T>::write") and any(x.k == "field" and x.a[1] == "keyspaces" for x in A.walk(og.of_operand(t["args"][0])))]
        gets = [b for b, t in kf.calls() if A.cname(t).endswith("::get") and "HashMap" in A.cname(t)]
        ck = R.call_blocks(kf, ("meta_keyspace::MetaKeyspace::create_keyspace",))
        cn = R.call_blocks(kf, ("keyspace::Keyspace::create_new",))
        idd = [b for b, t in kf.calls() if A.cname(t) == R.SEQNO_NEXT and any(x.k == "field" and x.a[1] == "keyspace_id_counter" for x in A.walk(og.of_operand(t["args"][0])))]
        ok = False
        detail = "Database::keyspace does not look up / create under keyspaces.write()"
        if len(wr) == 1 and gets and ck:
            g = A.Guard("keyspaces", kf, wr[0], A.guard_aliases(kf, kf.term(wr[0])["dest"]["l"]), "write")
            # the look-up reads the map THROUGH that guard
            look = all(any(x.k == "call" and x.site == (kf.id, wr[0]) for x in A.walk(og.of_operand(kf.term(b)["args"][0]))) for b in gets)
            # the guard is still held at id draw / folder creation, and it is the one handed to create_keyspace
            held = all(A.must_held_at(kf, g, b)[0] for b in idd + cn)
            handed = any(any(x.k == "call" and x.site == (kf.id, wr[0]) for x in A.walk(og.of_operand(a))) for a in kf.term(ck[0])["args"])
            ok = look and held and handed and bool(idd) and bool(cn)
            detail = "the name is looked up, the id drawn, the folder created and the meta rows written under one keyspaces.write() guard" if ok else \
                "look-up and creation are not one critical section (look-up through the write guard=%s, guard held at id draw/folder creation=%s, same guard handed to create_keyspace=%s): two threads opening the same new name both create it" % (look, held, handed)
        elif len(wr) != 1:
            detail = "Database::keyspace takes keyspaces.write() %d times (expected once, before the look-up)" % len(wr)
        ctx.ob("R-C12.7", kf, "lookup-and-create-are-one-critical-section", ok, detail)

    # ---- R-C12.8 a keyspace is identified by its id, not by its name: a (stale) handle of a deleted keyspace must not act on the
    # keyspace that was re-created under the same name
    rk = ctx.fn("meta_keyspace::MetaKeyspace::remove_keyspace", "R-C12.8")
    if rk:
        og = ctx.og(rk)
        gets = [b for b, t in rk.calls() if A.cname(t).endswith("::get") and "HashMap" in A.cname(t)]
        effects = [b for b, t in rk.calls() if (A.cname(t).startswith("lsm_tree::") and A.cname(t).endswith("::finish")) or (A.cname(t).endswith("::remove") and "HashMap" in A.cname(t))]
        ok = False
        detail = "remove_keyspace does not compare the registered keyspace's id with the handle's"
        for b, blk in enumerate(rk.blocks):
            if blk["t"]["k"] != "switch" or blk["cleanup"]:
                continue
            c = A.compare_switch(rk, b, og)
            if not c or c[0] not in ("Eq", "Ne"):
                continue
            sides = (c[1], c[2])
            reg = any(any(x.k == "field" and x.a[1] == "id" for x in A.walk(s_)) and any(x.k == "call" and "HashMap" in x.a[0] for x in A.walk(s_)) for s_ in sides)
            par = any(any(x.k == "param" and x.a[0] >= 2 for x in A.walk(s_)) and not any(x.k == "call" and "HashMap" in x.a[0] for x in A.walk(s_)) for s_ in sides)
            if reg and par:
                differ = c[3] if c[0] == "Ne" else c[4]
                ok = bool(effects) and not any(e in A.reach(rk, list(differ)) for e in effects)
                detail = "the entry registered under the name is removed only if its id is the handle's id" if ok else "on the edge where the ids differ the registered keyspace is still removed"
        ctx.ob("R-C12.8", rk, "removes-only-the-keyspace-with-the-handles-id", ok,
               detail if ok else detail + ": delete_keyspace(stale handle of the deleted \"a\") unregisters the NEW \"a\" — its acknowledged writes are gone after a reopen")
    dk = ctx.fn("db::Database::delete_keyspace", "R-C12.8")
    if dk:
        og = ctx.og(dk)
        ok = False
        for b in R.call_blocks(dk, ("meta_keyspace::MetaKeyspace::remove_keyspace",)):
            args = [og.of_operand(a) for a in dk.term(b)["args"]]
            ok = any(A.access_path(a) is not None and A.access_path(a)[-1] == "id" and A.access_path(a)[0] == "P2" for a in args)
        ctx.ob("R-C12.8", dk, "passes-the-handles-id", ok, "delete_keyspace hands the handle's id to remove_keyspace" if ok else "delete_keyspace identifies the keyspace to remove by name only")
    for fid, what in (("<keyspace::Keyspace as std::cmp::PartialEq>::eq", "eq"), ("<keyspace::Keyspace as std::hash::Hash>::hash", "hash")):
        fn = F.fns.get(fid) or next((f for k_, f in F.fns.items() if k_.startswith(fid)), None)
        if fn is None:
            ctx.ob("R-C12.8", fid, "keyspace-identity-impl-present", False, "%s not found" % fid, kind="anchor")
            continue
        og = ctx.og(fn)
        uses_name = any(x.k == "field" and x.a[1] == "name" for b, t in fn.calls() for a in t["args"] for x in A.walk(og.of_operand(a))) or \
            any(x.k == "field" and x.a[1] == "name" for blk in fn.blocks for st in blk["s"] for x in A.walk(og.of_rvalue(st["rv"])))
        uses_id = any(x.k == "field" and x.a[1] == "id" for b, t in fn.calls() for a in t["args"] for x in A.walk(og.of_operand(a))) or \
            any(x.k == "field" and x.a[1] == "id" for blk in fn.blocks for st in blk["s"] for x in A.walk(og.of_rvalue(st["rv"])))
        ok = uses_id and not uses_name
        ctx.ob("R-C12.8", fn, "keyspace-%s-by-id" % what, ok,
               "Keyspace::%s compares the internal id" % what if ok
               else "Keyspace::%s goes by NAME: in a transaction's write set (HashMap<Keyspace, _>) a stale handle of a deleted keyspace and the handle of its re-created successor collide — a write through one is committed into the other" % what)

    # ---- R-C12.9 "its files disappear once the last handle is dropped": a sealed journal's eviction watermarks hold a clone of
    # each keyspace handle; for a DELETED keyspace that clone must be let go (the watermark no longer counts anyway),
    # otherwise the keyspace's folder stays on disk for as long as that journal lives
    mt9 = ctx.fn("journal::manager::JournalManager::maintenance", "R-C12.9")
    if mt9:
        og9 = ctx.og(mt9)
        ok9 = False
        for b, t in mt9.calls():
            if A.cname(t).endswith("::retain") and "Vec" in A.cname(t) and any(x.k == "field" and x.a[1] == "watermarks" for x in A.walk(og9.of_operand(t["args"][0]))):
                cl = A.closure_of_operand(mt9, t["args"][1])
                cf = F.fns.get(cl) if cl else None
                if cf and any(A.cname(t2) == "std::sync::atomic::Atomic::<bool>::load" and any(x.k == "field" and x.a[1] == "is_deleted" for x in A.walk(ctx.og(cf).of_operand(t2["args"][0]))) for _, t2 in cf.calls()):
                    ok9 = True
        ctx.ob("R-C12.9", mt9, "watermarks-of-deleted-keyspaces-are-released", ok9,
               "maintenance drops the watermarks (and with them the handles) of deleted keyspaces" if ok9
               else "sealed journals keep a handle of a deleted keyspace in their watermarks: after the last user handle is dropped the keyspace's folder stays on disk until that journal is evicted or the database closes")

    # ---- R-C12.10 one keyspace's maintenance never touches another keyspace's folder (shared: C16/C18 use the generic form)
    owner_coherence(ctx, "R-C12.10")

    # ---- R-C12.13 "its files disappear once the last handle is dropped": delete_keyspace itself makes the sealed journals let go
    # of the deleted keyspace's handle (their eviction watermarks hold one) — on an idle database nothing else would
    dk = ctx.fn("db::Database::delete_keyspace", "R-C12.13")
    if dk:
        st = [b for b, t in dk.calls() if A.cname(t) == "std::sync::atomic::Atomic::<bool>::store"]
        mt = [b for b, t in dk.calls() if A.cname(t) == "journal::manager::JournalManager::maintenance"]
        errs = list(A.error_starts(dk))
        ok = bool(st) and bool(mt) and all(A.dominates(dk, st[0], m_) for m_ in mt) and not [x for x in dk.return_blocks() if x in A.reach(dk, dk.succs(st[0]), avoid=mt + errs)]
        ctx.ob("R-C12.13", dk, "deletion-releases-the-sealed-journals-handles", ok,
               "after the deleted flag is raised, delete_keyspace runs JournalManager::maintenance (which drops the watermarks of deleted keyspaces)" if ok else
               "delete_keyspace does not run the journal maintenance after raising the deleted flag: a sealed journal's watermarks keep a handle of the keyspace, and its folder stays on disk after the last user handle is gone until some other keyspace happens to be flushed")
    # ---- R-C12.14 a batch (and with it every transaction commit and tx-keyspace helper) refuses a deleted keyspace, before
    # anything is journaled
    wbc = ctx.fn("batch::WriteBatch::commit", "R-C12.14")
    if wbc:
        app = R.call_blocks(wbc, R.APPEND)
        lock = R.j_acquire_blocks(ctx, wbc)
        kd = [b for b, blk in enumerate(wbc.blocks) if not blk["cleanup"] for st_ in blk["s"]
              if st_["rv"]["k"] == "agg" and st_["rv"].get("adt") == "error::Error" and st_["rv"].get("variant") == "KeyspaceDeleted"]
        checks = []
        for f2 in [wbc] + F.closures_of(wbc.id):
            for b, t in f2.calls():
                if A.cname(t) == "std::sync::atomic::Atomic::<bool>::load" and any(x.k == "field" and x.a[1] == "is_deleted" for x in A.walk(ctx.og(f2).of_operand(t["args"][0]))):
                    checks.append((f2, b))
        ok = bool(kd) and bool(checks) and bool(app) and all(A.dominates(wbc, k, k) for k in kd) and not any(a in A.reach(wbc, [k]) for k in kd for a in app) \
            and all(not A.dominates(wbc, a, k) for a in app for k in kd)
        # the refusal comes BEFORE the append: the KeyspaceDeleted block is not reachable from the append
        if ok:
            ok = not any(k in A.reach_after(wbc, a) for a in app for k in kd)
        ctx.ob("R-C12.14", wbc, "batch-refuses-a-deleted-keyspace-before-journaling", ok,
               "WriteBatch::commit answers KeyspaceDeleted for a batch that touches a deleted keyspace, before the journal append" if ok else
               "WriteBatch::commit does not refuse (or refuses only after journaling) a batch that writes to a deleted keyspace: transaction commits and the tx keyspaces' insert/remove through an old handle are acknowledged")

    # ---- cross-cutting disciplines (rules/discipline.py)
    from .. import discipline as D
    # a keyspace creation / deletion that fails says so
    D.error_discipline(ctx, "R-C12.11", scope=lambda f: f.startswith(("db::Database::keyspace", "db::Database::delete_keyspace", "meta_keyspace::", "recovery::recover_keyspaces")))
    # every keyspace folder / every record is looked at
    D.loops_visit_all(ctx, "R-C12.12", only=("recovery::recover_keyspaces", "keyspace::Keyspace::inner_rotate_memtable", "db::Database::recover"))

    # ---- borrowed obligations (mechanisms owned by other properties that this property's verdict also rests on)
    # records of a deleted keyspace are skipped one by one: replay looks the keyspace up per record, a handle is never carried over
    ctx.borrow("C04", ["R-C04.14"], "R-C12.16")
    # a transaction's write to one keyspace is never dropped because of what it wrote to another
    ctx.borrow("C08", ["R-C08.4"], "R-C12.15")


def _peel(tm):
    while tm is not None and tm.k == "call" and A.is_transparent(tm.a[0]) and tm.a[1]:
        tm = tm.a[1][0]
    return tm


def _owners(term):
    """(attribute, keyspace-valued root K) for every K.<field> / Keyspace::path(K) mentioned in the term"""
    out = []
    for x in A.walk(term):
        if x.k == "field" and x.a[1] in ("tree", "config", "id", "name", "is_deleted"):
            out.append((x.a[1], _peel(x.a[0])))
        if x.k == "call" and x.a[0] in ("keyspace::Keyspace::path", "keyspace::Keyspace::name") and x.a[1]:
            out.append((x.a[0].rsplit("::", 1)[-1], _peel(x.a[1][0])))
    return out


def owner_coherence(ctx, rule):
    """Version ids are small per-tree counters: collecting keyspace A's old versions in keyspace B's folder unlinks B's `v<id>`
    files — possibly the one `current` points to, after which the database cannot be opened.  Generally: a call that operates
    on K.tree and is also handed an attribute of a keyspace (its folder, its config / compaction strategy, id, name) gets the
    attribute of the SAME keyspace K (same value site)."""
    F = ctx.F
    n = 0
    for fid, fn in sorted(F.fns.items()):
        og = None
        for b, t in fn.calls():
            if len(t["args"]) < 2:
                continue
            og = og or ctx.og(fn)
            ow = [_owners(og.of_operand(a)) for a in t["args"]]
            trees = [(i, k) for i, o in enumerate(ow) for f, k in o if f == "tree"]
            others = [(i, f, k) for i, o in enumerate(ow) for f, k in o if f != "tree"]
            for i, k in trees:
                for j, f, k2 in others:
                    if i == j or k is None or k2 is None:
                        continue
                    n += 1
                    ctx.count_sites()
                    same = A.same_value_site(k, k2) or A.tkey(k) == A.tkey(k2)
                    leaf = A.cname(t).rsplit("::", 1)[-1]
                    inst = "version-history-maintained-in-the-keyspaces-own-folder" if (leaf == "maintenance" and f == "path") else "tree-call-%s-uses-the-%s-of-the-same-keyspace" % (leaf, f)
                    ctx.ob(rule, fn, inst, same,
                           "%s(.. %s of the keyspace whose tree it operates on ..)" % (leaf, f) if same else
                           "%s operates on the tree of %s but is handed the %s of %s: %s" % (
                               leaf, A.tstr(k)[:50], f, A.tstr(k2)[:50],
                               "another keyspace's version files (ids are per-tree counters and collide) are unlinked — possibly the version `current` points to, after which opening the database fails — and this keyspace's stale versions leak" if f == "path"
                               else "one keyspace is maintained with another keyspace's settings"), fn.loc(b))
    ctx.floor(rule, "calls on a keyspace's tree that also take a keyspace attribute", n, 2)
