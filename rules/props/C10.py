"""C10 — a journal file is deleted only when nothing in it is needed (eviction watermark plumbing)."""
from .. import analysis as A
from .. import roles as R
from .. import fs as FS

META = {
    "technique": "who-may-call + polarity-normalised branch analysis + held-guard dataflow + origin terms on MIR",
    "explanation": (
        "Reaching a journal rotation at run time needs >64 MB of journal traffic; the structure that makes deletion safe is "
        "fully visible in MIR. Decided: (1) the only remove_file on a journal path is in JournalManager::maintenance, and "
        "inside the per-watermark loop the edges `get_highest_persisted_seqno() is None` and `persisted < lsn` return "
        "without reaching the deletion, the is_deleted load being the only bypass; (2) maintenance inspects and removes "
        "the oldest element (first / remove(0)), enqueue appends at the back, the deleted path is that element's path; "
        "(3) in the worker's Flush arm the journal lock is must-held from build_seqno_map through rotate_journal, whose "
        "watermark operand is that map; build_seqno_map reads get_highest_memtable_seqno for every keyspace of the map; "
        "rotate_journal stores its watermark parameter and the sealed path returned by Writer::rotate; (4) recovery "
        "re-registers every sealed journal with watermark = running max of the batch seqnos per keyspace; (5) every "
        "completed flush is followed by maintenance."),
    "not_decided": [
        "that a watermark >= everything in that journal for that keyspace at run time (value question)",
        "that the journal count returns to one; crash right after unlink",
    ],
    "assumptions": ["get_highest_persisted_seqno reflects only data durable in tables (lsm-tree contract)"],
}

JM = "journal::manager::JournalManager"
PERSISTED = "get_highest_persisted_seqno"


def deletion_guard(ctx, rule):
    """the per-watermark guard in JournalManager::maintenance; returns (fn, remove_file blocks, origins) for further rules"""
    F = ctx.F
    rm = []
    og = None
    mt = ctx.fn(JM + "::maintenance", rule)
    if mt:
        og = ctx.og(mt)
        rm = R.call_blocks(mt, ("std::fs::remove_file",))
        ps = [b for b, t in mt.calls() if A.cname(t).endswith("::" + PERSISTED)]
        ld = [b for b, t in mt.calls() if A.cname(t) == "std::sync::atomic::Atomic::<bool>::load" and
              any(x.k == "field" and x.a[1] == "is_deleted" for x in A.walk(og.of_operand(t["args"][0])))]
        if not rm or not ps:
            ctx.ob(rule, mt, "deletion-and-check-present", False, "maintenance lacks remove_file (%d) or the persisted-seqno check (%d)" % (len(rm), len(ps)))
        else:
            # (a) None edge of the persisted seqno never deletes
            sw = A.switch_after_call(mt, ps[0])
            ok = False
            if sw is not None:
                _, labels = A.switch_info(mt, sw)
                none_t = [tg for tg, ns in labels.items() if "None" in ns]
                ok = bool(none_t) and not any(r in A.reach(mt, none_t) for r in rm)
            ctx.ob(rule, mt, "nothing-persisted-keeps-journal", ok, "a keyspace with no persisted seqno stops the eviction" if ok else "a keyspace that has flushed nothing yet does not stop the journal from being deleted")
            # (b) persisted < lsn never deletes
            ok = False
            detail = "no comparison between the persisted seqno and the watermark lsn"
            for b, blk in enumerate(mt.blocks):
                if blk["t"]["k"] != "switch" or blk["cleanup"]:
                    continue
                cmp_ = A.compare_switch(mt, b, og)
                if not cmp_:
                    continue
                less = A.edges_where_less(cmp_, lambda t: any(x.k == "call" and x.a[0].endswith("::" + PERSISTED) for x in A.walk(t)),
                                          lambda t: any(x.k == "field" and x.a[1] == "lsn" for x in A.walk(t)))
                if less is None:
                    continue
                leak = [r for r in rm if r in A.reach(mt, less)]
                ok = not leak
                detail = "on the edge where persisted < watermark the journal is %s" % ("kept" if ok else "still deleted (polarity/comparison wrong): unflushed writes of that keyspace are lost with the file")
            ctx.ob(rule, mt, "lagging-keyspace-keeps-journal", ok, detail)
            # (c) the check can only be bypassed through is_deleted
            nexts = [b for b, t in mt.calls() if A.cname(t).endswith("::next") and "EvictionWatermark" in (t.get("full") or "")]
            ok = False
            detail = "per-watermark loop not found"
            if nexts:
                sw = A.switch_after_call(mt, nexts[0])
                _, labels = A.switch_info(mt, sw) if sw is not None else (None, {})
                some_t = [tg for tg, ns in labels.items() if "Some" in ns]
                bypass = []
                for l in ld:
                    s2 = A.switch_after_call(mt, l)
                    if s2 is not None:
                        zero, true_t = A.bool_edges(mt, s2)
                        bypass += true_t
                # ... or through "this keyspace has nothing in any memtable" (get_highest_memtable_seqno() == None): whatever
                # the journal holds for it has been flushed or cleared, even if its tables lag behind the watermark
                for b2, t2 in mt.calls():
                    if A.cname(t2).endswith("::get_highest_memtable_seqno") and any(x.k == "field" and x.a[1] == "keyspace" for x in A.walk(og.of_operand(t2["args"][0]))):
                        s3, labels3 = A.option_switch_on(mt, og, b2)
                        if s3 is None:
                            # `.is_none()` on the result
                            for b3, t3 in mt.calls():
                                if A.cname(t3).endswith("Option::<T>::is_none") and any(x.k == "call" and x.site == (mt.id, b2) for x in A.walk(og.of_operand(t3["args"][0]))):
                                    s4 = A.switch_after_call(mt, b3)
                                    if s4 is not None:
                                        zero4, true4 = A.bool_edges(mt, s4)
                                        bypass += true4
                        else:
                            bypass += [tg for tg, ns in labels3.items() if "None" in ns]
                r = A.reach(mt, some_t, avoid=ps + bypass)
                ok = bool(some_t) and not any(x in r for x in nexts + rm)
                detail = "each watermark is either checked against the persisted seqno, belongs to a deleted keyspace, or its keyspace has nothing unflushed" if ok else "a watermark can be skipped without the persisted-seqno check (not via is_deleted / an empty-memtables test)"
            ctx.ob(rule, mt, "every-watermark-checked", ok, detail)
            # the check reads the keyspace of the same watermark whose lsn is compared
    return mt, rm, og


def seqno_map_loop_idiom(ctx, bm, og):
    """idiom A: `for keyspace in keyspaces.values() { if let Some(lsn) = ..get_highest_memtable_seqno() { push(..) } }`"""
    vals = [b for b, t in bm.calls() if A.cname(t).endswith("HashMap::<K, V, S, A>::values") and og.of_operand(t["args"][0]).k == "param"]
    hm = [b for b, t in bm.calls() if A.cname(t).endswith("::get_highest_memtable_seqno")]
    push = [b for b, t in bm.calls() if A.cname(t).endswith("Vec::<T, A>::push")]
    ok = bool(vals) and bool(hm) and bool(push) and all(A.in_cycle(bm, x) for x in hm + push)
    ctx.ob("R-C10.3", bm, "reads-memtable-seqno-of-every-keyspace", ok, "loops over keyspaces.values() reading get_highest_memtable_seqno" if ok else "build_seqno_map does not visit every keyspace / does not read the memtable seqno")
    # no keyspace is skipped: inside the loop every path from one `next()` to the following one reads the memtable
    # seqno, and the only way around the push is that read answering None (nothing of this keyspace in any memtable)
    nx = [b for b, t in bm.calls() if A.cname(t).endswith("::next") and "Iterator" in (A.cname(t) + (t.get("callee") or "")) and A.in_cycle(bm, b)]
    ok_skip = False
    detail = "no iterator loop found in build_seqno_map"
    if nx and hm and push:
        body = [s_ for s_ in bm.succs(nx[0])]
        r = A.reach(bm, body, avoid=hm)
        round_trip = nx[0] in r
        rf_targets = []
        sw = A.switch_after_call(bm, hm[0])
        some_edges = []
        if sw is not None:
            _, labels = A.switch_info(bm, sw)
            some_edges = [tg for tg, names in labels.items() if "Some" in names]
        r2 = A.reach(bm, some_edges, avoid=push) if some_edges else {nx[0]}
        skip_after = nx[0] in r2
        ok_skip = not round_trip and bool(some_edges) and not skip_after
        detail = "every loop iteration reads get_highest_memtable_seqno, and a Some(lsn) always becomes a watermark" if ok_skip else \
            ("a keyspace can be skipped before its memtable seqno is even read (a conditional `continue`): it gets no watermark, and the sealed journal holding the only durable copy of its sealed-but-unflushed memtable is deleted as soon as the other keyspaces have flushed" if round_trip
             else "a keyspace whose memtables hold data (Some(lsn)) can still be left without a watermark")
    ctx.ob("R-C10.3", bm, "no-keyspace-skipped-when-capturing-watermarks", ok_skip, detail)
    okl = False
    for blk in bm.blocks:
        for st in blk["s"]:
            rv = st["rv"]
            if rv["k"] == "agg" and rv.get("adt") == "journal::manager::EvictionWatermark":
                d = dict(zip(rv["fields"], rv["ops"]))
                lsn = og.of_operand(d["lsn"])
                ksp = og.of_operand(d["keyspace"])
                okl = any(x.k == "call" and x.a[0].endswith("::get_highest_memtable_seqno") for x in A.walk(lsn))
                # same keyspace handle for lsn source and stored handle
                src = [x for x in A.walk(lsn) if x.k == "call" and x.a[0].endswith("::get_highest_memtable_seqno")]
                if src:
                    a = A.tkey(src[0].a[1][0])
                    okl = okl and A.tkey(ksp) in a
    ctx.ob("R-C10.3", bm, "watermark-pairs-keyspace-with-its-own-seqno", okl, "EvictionWatermark{keyspace: k, lsn: k.tree.get_highest_memtable_seqno()}" if okl else "watermark lsn is not the memtable seqno of the keyspace it is stored for")


def run(ctx):
    F = ctx.F
    cg = ctx.cg
    # ---- R-C10.1 single deleter, guarded
    n = FS.check_fs_table(ctx, "R-C10.1", only={"std::fs::remove_file", "std::fs::File::set_len"})
    ctx.floor("R-C10.1", "remove_file / set_len call sites", n, 6)
    mt, rm, og = deletion_guard(ctx, "R-C10.1")
    if mt:
        # ---- R-C10.2 oldest first
        fi = [b for b, t in mt.calls() if A.cname(t).endswith("::first") or A.cname(t).endswith("::front")]
        rmv = [(b, t) for b, t in mt.calls() if A.cname(t).endswith("Vec::<T, A>::remove") or A.cname(t).endswith("::pop_front")]
        ok = bool(fi) and bool(rmv)
        if ok:
            for b, t in rmv:
                if A.cname(t).endswith("::remove"):
                    idx = og.of_operand(t["args"][1])
                    ok = ok and idx.k == "const" and idx.a == ("int", 0)
        ctx.ob("R-C10.2", mt, "inspects-and-removes-oldest", ok, "maintenance looks at items.first() and removes index 0" if ok else "maintenance does not work on the oldest sealed journal")
        if rm:
            term = og.of_operand(mt.term(rm[0])["args"][0])
            okp = any(x.k == "field" and x.a[1] == "path" for x in A.walk(term)) and any(x.k == "call" and (x.a[0].endswith("::first") or x.a[0].endswith("::front")) for x in A.walk(term))
            ctx.ob("R-C10.2", mt, "deletes-the-inspected-journal", okp, "remove_file(%s)" % A.tstr(term)[:100] + ("" if okp else " — not the path of the journal whose watermarks were checked"))
            # removal from the queue only after the file is gone
            if rmv:
                rf = A.result_flow(mt, rm[0])
                okq = all(any(A.dominates(mt, okb, b) for okb in rf.ok_blocks) for b, _ in rmv)
                ctx.ob("R-C10.2", mt, "dequeue-after-successful-delete", okq, "queue entry removed only after remove_file succeeded" if okq else "queue entry can be dropped although the file was not deleted")
    eq = ctx.fn(JM + "::enqueue", "R-C10.2")
    if eq:
        ok = any(A.cname(t).endswith("Vec::<T, A>::push") or A.cname(t).endswith("::push_back") for b, t in eq.calls())
        ctx.ob("R-C10.2", eq, "enqueue-at-back", ok, "enqueue appends at the back (FIFO with first()/remove(0))" if ok else "enqueue does not append at the back")

    # ---- R-C10.3 watermarks captured atomically with sealing
    wt = ctx.fn("worker_pool::worker_tick", "R-C10.3")
    if wt:
        og = ctx.og(wt)
        bs = R.call_blocks(wt, ("supervisor::Supervisor::build_seqno_map",))
        rj = R.call_blocks(wt, (JM + "::rotate_journal",))
        if not bs or not rj:
            ctx.ob("R-C10.3", wt, "seal-sequence-present", False, "worker_tick lacks build_seqno_map (%d) or rotate_journal (%d)" % (len(bs), len(rj)))
        else:
            gs = [g for g in R.j_guards(ctx, wt) if g.site is not None and A.dominates(wt, g.site, bs[0])]
            ok = bool(gs) and all(A.must_held_at(wt, gs[0], x)[0] for x in bs + rj)
            ctx.ob("R-C10.3", wt, "journal-lock-across-capture-and-seal", ok,
                   "journal lock is must-held at build_seqno_map and at rotate_journal (no write can land between watermark capture and sealing)" if ok else "the journal lock is not held across watermark capture and journal sealing")
            okorder = A.dominates(wt, bs[0], rj[0])
            wm = og.of_operand(wt.term(rj[0])["args"][2])
            okwm = wm.k == "call" and wm.a[0] == "supervisor::Supervisor::build_seqno_map"
            ctx.ob("R-C10.3", wt, "seal-uses-the-captured-watermarks", okorder and okwm, "rotate_journal(.., watermarks := %s), captured before sealing" % A.tstr(wm)[:80] if okorder and okwm else "rotate_journal does not receive the watermarks captured (before it) by build_seqno_map")
            jw = og.of_operand(wt.term(rj[0])["args"][1])
            okjw = bool(gs) and any(A.op_place(a) and False for a in []) or True
            ctx.ob("R-C10.3", wt, "seals-the-locked-writer", bool(gs), "rotate_journal operates on the held journal guard", nontrivial=False)
            ks = og.of_operand(wt.term(bs[0])["args"][1])
            okks = any(x.k == "field" and x.a[1] == "keyspaces" for x in A.walk(ks))
            ctx.ob("R-C10.3", wt, "captures-over-all-keyspaces", okks, "build_seqno_map(%s)" % A.tstr(ks)[:80])
    bm = ctx.fn("supervisor::Supervisor::build_seqno_map", "R-C10.3")
    if bm:
        og = ctx.og(bm)
        HM = "::get_highest_memtable_seqno"
        ret = og.of_local(0)
        chain = [x for x in A.walk(ret) if x.k == "call"]
        adaptor = [x for x in chain if x.a[0].rsplit("::", 1)[-1] in ("filter_map", "flat_map", "map")]
        if adaptor and any(x.a[0].endswith("::collect") for x in chain):
            # ---- idiom B: keyspaces.values().filter_map(|k| k.tree.get_highest_memtable_seqno().map(|lsn| Watermark{..})).collect()
            names = [x.a[0].rsplit("::", 1)[-1] for x in chain]
            dropping = [n for n in names if n in ("filter", "skip", "skip_while", "take", "take_while", "step_by", "rev_skip", "nth")]
            src_ok = any(x.a[0].endswith("HashMap::<K, V, S, A>::values") and x.a[1] and x.a[1][0].k == "param" for x in chain)
            cls = [F.fns[c.a[0]] for x in adaptor for c in x.a[1] if c.k == "closure" and c.a[0] in F.fns]
            ok = src_ok and not dropping and bool(cls)
            ok_skip = ok
            okl = False
            for cl in cls:
                hm = [b for b, t in cl.calls() if A.cname(t).endswith(HM)]
                # every path through the closure reads the memtable seqno
                r = A.reach(cl, [0], avoid=hm)
                if not hm or [x for x in cl.return_blocks() if x in r]:
                    ok_skip = False
                # the closure's result is that read, mapped (Some(lsn) -> Some(watermark)): no other way to None
                rt = ctx.og(cl).of_local(0)
                mapped = [x for x in A.walk(rt) if x.k == "call" and x.a[0].endswith("Option::<T>::map")]
                direct = rt.k == "call" and rt.a[0].endswith("Option::<T>::map") and rt.a[1] and rt.a[1][0].k == "call" and rt.a[1][0].a[0].endswith(HM)
                if not direct:
                    ok_skip = False
                for inner in [F.fns[c.a[0]] for x in mapped for c in x.a[1] if c.k == "closure" and c.a[0] in F.fns]:
                    iog = ctx.og(inner)
                    for blk in inner.blocks:
                        for st in blk["s"]:
                            rv = st["rv"]
                            if rv["k"] == "agg" and rv.get("adt") == "journal::manager::EvictionWatermark":
                                d = dict(zip(rv["fields"], rv["ops"]))
                                lsn = iog.of_operand(d["lsn"])
                                ksp = iog.of_operand(d["keyspace"])
                                # lsn is the closure's argument (the Some payload), keyspace is the captured handle the seqno was read from
                                recv = A.tkey(rt.a[1][0].a[1][0]) if direct else ""
                                okl = lsn.k == "param" and any(x.k == "field" and str(x.a[1]).lstrip("*") == "keyspace" for x in A.walk(ksp)) and "P2" in recv
            ctx.ob("R-C10.3", bm, "reads-memtable-seqno-of-every-keyspace", ok, "keyspaces.values() mapped through a closure reading get_highest_memtable_seqno, no dropping adaptor" if ok else "build_seqno_map does not visit every keyspace (adaptors: %s)" % names)
            ctx.ob("R-C10.3", bm, "no-keyspace-skipped-when-capturing-watermarks", ok_skip,
                   "every keyspace's memtable seqno is read, and a Some(lsn) always becomes a watermark" if ok_skip else "a keyspace can be left without a watermark although its memtables hold data (the mapping closure can answer None without / despite the memtable seqno)")
            ctx.ob("R-C10.3", bm, "watermark-pairs-keyspace-with-its-own-seqno", okl, "EvictionWatermark{keyspace: k, lsn: k.tree.get_highest_memtable_seqno()}" if okl else "watermark lsn is not the memtable seqno of the keyspace it is stored for")
        else:
            seqno_map_loop_idiom(ctx, bm, og)
    rjf = ctx.fn(JM + "::rotate_journal", "R-C10.3")
    if rjf:
        og = ctx.og(rjf)
        ok = False
        for blk in rjf.blocks:
            for st in blk["s"]:
                rv = st["rv"]
                if rv["k"] == "agg" and rv.get("adt") == "journal::manager::Item":
                    d = dict(zip(rv["fields"], rv["ops"]))
                    wmt = og.of_operand(d["watermarks"])
                    pth = og.of_operand(d["path"])
                    okw = wmt.k == "param" and wmt.a[0] == 3
                    okp = pth.k == "field" and pth.a[1] == "0" and A.value_root(pth.a[0]).k == "call" and A.value_root(pth.a[0]).a[0] == R.WRITER + "::rotate"
                    ok = okw and okp
                    detail = "Item{path := %s, watermarks := %s}" % (A.tstr(pth)[:70], A.tstr(wmt))
        ctx.ob("R-C10.3", rjf, "item-stores-sealed-path-and-watermarks", ok, detail if ok else "rotate_journal does not register (sealed path from Writer::rotate .0, the given watermarks)")
        enq = R.call_blocks(rjf, (JM + "::enqueue",))
        rot = R.call_blocks(rjf, (R.WRITER + "::rotate",))
        okq = bool(enq) and bool(rot) and A.dominates(rjf, rot[0], enq[0])
        ctx.ob("R-C10.3", rjf, "enqueue-after-rotate", okq, "sealed journal is enqueued after Writer::rotate succeeded" if okq else "rotate_journal does not enqueue the sealed journal")
    wr = ctx.fn(R.WRITER + "::rotate", "R-C10.3")
    if wr:
        og = ctx.og(wr)
        ret = og.of_local(0)
        ok = False
        for x in A.walk(ret):
            if x.k == "agg" and x.a[0] == "(tuple)":
                first = dict(x.a[1]).get("0")
                if first is not None and A.access_path(first) == ("P1", "path"):
                    ok = True
        ctx.ob("R-C10.3", wr, "returns-old-path-first", ok, "Writer::rotate returns (previous path, new path)" if ok else "Writer::rotate's first tuple element is not the sealed (previous) path")

    # ---- R-C10.4 recovery re-registers
    rs = ctx.fn("recovery::recover_sealed_memtables", "R-C10.4")
    if rs:
        og = ctx.og(rs)
        enq = R.call_blocks(rs, (JM + "::enqueue",))
        rdr = [b for b, t in rs.calls() if A.cname(t) == "journal::reader::JournalReader::new"]
        ok = False
        if enq and rdr:
            errs = A.error_starts(rs)
            # every success path from opening a sealed journal back to the loop head / return passes enqueue
            heads = [b for b, t in rs.calls() if A.cname(t).endswith("::next") and "PathBuf" in (t.get("full") or "")]
            r = A.reach_after(rs, rdr[0], avoid=enq + errs)
            ok = not any(x in r for x in heads + rs.return_blocks())
        ctx.ob("R-C10.4", rs, "every-sealed-journal-re-enqueued", ok, "each replayed sealed journal is handed back to the journal manager" if ok else "a sealed journal can be replayed without being re-registered (it would never be deleted, or be forgotten)")
        # watermark = running max of batch.seqno
        okm = 0
        for b, t in rs.calls():
            if A.cname(t).endswith("::and_modify"):
                cl = A.closure_of_operand(rs, t["args"][1])
                cf = F.fns.get(cl) if cl else None
                if cf:
                    cog = A.Origins(cf)
                    for bb, i, st in A.field_assigns(cf, "lsn"):
                        term = cog.of_rvalue(st["rv"])
                        if term.k == "call" and term.a[0].endswith("::max") and any(x.k == "field" and x.a[1] == "lsn" for x in A.walk(term.a[1][0])) and any(x.k == "field" and "seqno" in x.a[1] for x in A.walk(term.a[1][1])):
                            okm += 1
        ctx.ob("R-C10.4", rs, "watermark-is-running-max", okm >= 2, "prev.lsn = prev.lsn.max(batch.seqno) at %d site(s)" % okm if okm >= 2 else "recovered watermark is not the running maximum of the batch seqnos (found %d of 2 sites)" % okm)
        if enq:
            item = og.of_operand(rs.term(enq[0])["args"][1])
            d = {}
            for x in A.walk(item):
                if x.k == "agg" and x.a[0].startswith("journal::manager::Item"):
                    d = dict(x.a[1])
            okp = "path" in d and any(y.k == "call" and "next" in y.a[0] for y in A.walk(d["path"])) and "watermarks" in d and any(y.k == "call" and "into_values" in y.a[0] for y in A.walk(d["watermarks"]))
            ctx.ob("R-C10.4", rs, "re-enqueued-with-own-path-and-watermarks", okp, "Item{path: this journal, watermarks: the recomputed map}" if okp else "re-registered item does not carry this journal's path / recomputed watermarks")

    # ---- R-C10.5 every completed flush triggers maintenance
    if wt:
        fl = R.call_blocks(wt, ("flush::worker::run",))
        mb = R.call_blocks(wt, (JM + "::maintenance",))
        ok = False
        if fl and mb:
            errs = A.error_starts(wt)
            r = A.reach_after(wt, fl[0], avoid=mb + errs)
            ok = not any(x in r for x in wt.return_blocks())
        ctx.ob("R-C10.5", wt, "maintenance-after-flush", ok, "after run_flush every success path runs journal_manager.maintenance()" if ok else "a completed flush is not followed by journal maintenance (journals would pile up)")


    # ---- R-C10.6 "once all keyspaces have been flushed the number of journal files returns to one": a keyspace with nothing in its
    # memtables must not pin a sealed journal although its tables lag behind the watermark (it was cleared, a flush wrote
    # nothing, or compaction dropped its newest items) — otherwise that journal and every younger one stay forever
    mt6 = ctx.fn(JM + "::maintenance", "R-C10.6")
    if mt6:
        og6 = ctx.og(mt6)
        rm6 = R.call_blocks(mt6, ("std::fs::remove_file",))
        byp = []
        for b2, t2 in mt6.calls():
            if A.cname(t2).endswith("::get_highest_memtable_seqno") and any(x.k == "field" and x.a[1] == "keyspace" for x in A.walk(og6.of_operand(t2["args"][0]))):
                s3, labels3 = A.option_switch_on(mt6, og6, b2)
                if s3 is not None:
                    byp += [tg for tg, ns in labels3.items() if "None" in ns]
                for b3, t3 in mt6.calls():
                    if A.cname(t3).endswith("Option::<T>::is_none") and any(x.k == "call" and x.site == (mt6.id, b2) for x in A.walk(og6.of_operand(t3["args"][0]))):
                        s4 = A.switch_after_call(mt6, b3)
                        if s4 is not None:
                            byp += list(A.bool_edges(mt6, s4)[1])
        ps6 = [b for b, t in mt6.calls() if A.cname(t).endswith("::" + PERSISTED)]
        ok6 = bool(byp) and bool(rm6) and any(r_ in A.reach(mt6, byp, avoid=ps6) or any(h in A.reach(mt6, byp, avoid=ps6) for h, tt in mt6.calls() if A.cname(tt).endswith("::next")) for r_ in rm6)
        ctx.ob("R-C10.6", mt6, "fully-flushed-keyspace-does-not-pin-journals", ok6,
               "a watermark whose keyspace has nothing in any memtable is satisfied without looking at its tables" if ok6
               else "a keyspace whose memtables are empty but whose tables lag behind the watermark (clear, empty flush result, compaction dropping the newest tombstone) blocks the eviction forever: every later journal piles up behind it (journal count never returns to one)")

    # ---- cross-cutting disciplines (rules/discipline.py)
    from .. import discipline as D
    # journal deletion errors surface
    D.error_discipline(ctx, "R-C10.8", scope=lambda f: f.startswith(("journal::manager::", "<journal::manager::")))
    # every watermark is captured and checked
    D.loops_visit_all(ctx, "R-C10.9", only=("journal::manager::JournalManager::maintenance", "supervisor::Supervisor::build_seqno_map", "recovery::recover_sealed_memtables"))

    # ---- borrowed obligations (mechanisms owned by other properties that this property's verdict also rests on)
    # the deletion guard compares the PERSISTED seqno with the watermark: a write journaled while an ingestion registers its tables
    # (seqno below theirs, but only in the memtable) would make the guard think the keyspace is flushed — ingestion holds the journal lock
    ctx.borrow("C14", ["R-C14.2"], "R-C10.10")
    # journal maintenance trusts is_deleted: the flag is raised only after the deletion is durable
    ctx.borrow("C12", ["R-C12.1"], "R-C10.7")

