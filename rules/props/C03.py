"""C03 — batches and transactions are all-or-nothing across crashes (framing, verified emit, tail repair)."""
from .. import analysis as A
from .. import roles as R

META = {
    "technique": "dominating branch-condition analysis + field write-site enumeration + who-may-call on MIR",
    "explanation": (
        "R-C03.9: a memtable is sealed only after the journal buffer was written out under the same journal-lock hold (a sealed memtable can become a table at any time). "
        "Decides the structural conditions of batch atomicity: (1) framing — each append primitive writes exactly one Start "
        "(before all items) and one End (after all items), outside any loop, with item_count from the batch size (constant "
        "1 for single writes) and the caller's seqno; (2) the batch reader builds a Batch only in a block dominated by the "
        "End arm, the batch_counter==0 edge, the is_in_batch edge and the checksum-equal edge, comparing the running hash "
        "with the End payload; (3) last_valid_pos is advanced only there, and every `None` of the reader is preceded by a "
        "truncation to last_valid_pos (or on_close, which truncates when inside a batch); (4) raw journal entries are "
        "consumed only by the batch reader and both replay sites iterate batches; (5) a transaction commit is exactly one "
        "WriteBatch::commit (not in a loop), which is one seqno and one append; (6) the entry decoder and the raw reader "
        "contain no reachable assertion / unwrap / panic, so a torn or zero-padded tail surfaces as an error that is "
        "truncated away, and a repair leaves the file ending exactly at the last valid byte with the recovered journal "
        "opened in append mode. Compile-fail witnesses (thorough) show that "
        "a committed batch / transaction cannot be used again."),
    "not_decided": [
        "the byte-level decode behaviour for every offset the journal can end at (needs execution / symbolic reasoning)",
        "zero-padding handling and that appends after a repair are readable",
    ],
    "assumptions": ["a torn tail makes Entry::decode_from fail or yields an entry sequence the batch state machine rejects"],
}

BR = "<journal::batch_reader::JournalBatchReader as std::iter::Iterator>::next"
RAW_NEXT = "<journal::reader::JournalReader as std::iter::Iterator>::next"
W = R.WRITER


def tail_repair(ctx, rule):
    """the tail-repair argument shared with C02 (R-C02.7): what recovery leaves at the end of a journal decides whether
    writes acknowledged AFTER that recovery are still readable by the next one"""
    F = ctx.F
    cg = ctx.cg
    # every truncate_to, wherever it is called, cuts at the batch reader's own last_valid_pos (end of the last VERIFIED batch);
    # the raw reader's last_valid_pos is the end of the last decoded ENTRY and may lie inside an unterminated batch
    tcs = [(F.fns[f], b) for f, b in cg.callers("journal::batch_reader::JournalBatchReader::truncate_to") if f in F.fns]
    ctx.floor(rule, "truncate_to call sites", tcs, 4)
    for fn, b in tcs:
        term = ctx.og(fn).of_operand(fn.term(b)["args"][1])
        ok = A.access_path(term) == ("P1", "last_valid_pos") and "JournalBatchReader" in fn.local_ty(1)
        n = sum(1 for f2, b2 in tcs if f2.id == fn.id and b2 < b) + 1
        ctx.ob(rule, fn, "truncate_to#%d-cuts-at-last-verified-batch" % n, ok,
               "truncate_to(self.last_valid_pos)" if ok else "truncate_to(%s): not the end of the last verified batch — an unterminated batch prefix (Start, items, no End) stays in the file and every batch appended later is discarded by the next recovery" % A.tstr(term)[:80], fn.loc(b))

    # the raw reader: a decode failure that ends the iteration (None) first cuts the undecodable tail off, so that the
    # append-mode writer continues right after the last decodable entry
    rn = ctx.fn(RAW_NEXT, rule)
    if rn:
        MT = "journal::reader::JournalReader::maybe_truncate_file_to_last_valid_pos"
        mt = R.call_blocks(rn, (MT, "journal::reader::JournalReader::truncate_file"))
        dec_b = R.call_blocks(rn, ("journal::entry::Entry::decode_from",))
        nones = []
        for b, blk in enumerate(rn.blocks):
            if blk["cleanup"]:
                continue
            for st in blk["s"]:
                if st["p"]["l"] == 0 and not st["p"]["p"] and st["rv"]["k"] == "agg" and st["rv"].get("variant") == "None":
                    nones.append(b)
        ctx.floor(rule, "`None` results of the raw journal reader", nones, 2)
        for i, nb in enumerate(sorted(nones)):
            ok = bool(mt) and bool(dec_b) and nb not in A.reach(rn, [0], avoid=mt)
            ctx.ob(rule, rn, "raw-none#%d-preceded-by-tail-truncation" % (i + 1), ok,
                   "the raw reader stops (None) only after maybe_truncate_file_to_last_valid_pos()" if ok
                   else "the raw reader can stop (None) on an undecodable tail without cutting it off: a torn marker stays at the end of the file and the bytes appended next are welded onto it — the next recovery desynchronises and truncates every later batch", rn.loc(nb))
        lv = A.field_assigns(rn, "last_valid_pos", "JournalReader")
        ok = False
        if len(lv) == 1 and dec_b:
            rf = A.result_flow(rn, dec_b[0])
            ok = any(A.dominates(rn, o, lv[0][0]) or o == lv[0][0] for o in rf.ok_blocks) and not any(lv[0][0] in A.reach(rn, [e]) for e in rf.err_blocks)
        ctx.ob(rule, rn, "raw-last_valid_pos-advances-only-after-a-decoded-entry", ok,
               "reader.last_valid_pos is assigned only on decode_from's Ok edge" if ok else "reader.last_valid_pos is assigned at %d site(s), not only after a successfully decoded entry" % len(lv))
        # a decode failure is FATAL only after a look at what follows: a torn tail inside the zero-filled pre-allocation can
        # decode "completely" (the zeros satisfy every read_exact) and fail only in decompression / the trailer / a length
        # relation — turning such an error kind into Some(Err) makes every reopen after a torn write fail (and nothing cuts
        # the tail off any more).  (The mirror image — taken for the tail only after a look — is R-C15.8.)
        if dec_b:
            rf = A.result_flow(rn, dec_b[0])
            errb = list(rf.err_blocks)
            if not errb:
                s_ = rn.succs(dec_b[0])[0]
                labels = A.switch_info(rn, s_)[1] if rn.term(s_)["k"] == "switch" else {}
                errb = [tg for tg, ns in labels.items() if "Err" in ns]
            io_arms = []
            ogr = ctx.og(rn)
            for b_, blk_ in enumerate(rn.blocks):
                if blk_["cleanup"] or blk_["t"]["k"] != "switch":
                    continue
                tm_, labels_ = A.switch_info(rn, b_)
                if tm_.k == "discr" and any(x.k == "call" and x.a[0] == "journal::entry::Entry::decode_from" for x in A.walk(tm_)) and any("Io" in ns for ns in labels_.values()):
                    io_arms += [tg for tg, ns in labels_.items() if ns == ["Io"]]
            LOOK = ("std::io::Read::", "std::io::BufRead::", "as std::io::Read>::", "as std::io::BufRead>::", "std::fs::File::metadata", "std::fs::metadata", "::seek")
            looks = [b_ for b_, t_ in rn.calls() if any(k in A.cname(t_) for k in LOOK) and not A.cname(t_).endswith("stream_position")]
            r_ = A.reach(rn, errb, avoid=io_arms + looks + mt) if errb else set()
            fatal = [b_ for b_ in sorted(r_) if any(st_["p"]["l"] == 0 and not st_["p"]["p"] and st_["rv"]["k"] == "agg" and st_["rv"].get("variant") == "Some"
                                                    for st_ in rn.blocks[b_]["s"])]
            ctx.ob(rule, rn, "decode-failure-is-fatal-only-after-looking-at-what-follows", bool(errb) and not fatal,
                   "no non-I/O decode failure is answered with Some(Err) before the tail was examined / cut" if (errb and not fatal) else
                   "a decode failure (other than a real I/O error) is returned as Some(Err) at bb%s without a look at what follows: a torn write inside the pre-allocated zero padding that decodes up to that point (e.g. an LZ4 item whose payload was cut: Decompress) makes Database::open fail on every reopen — every write acknowledged before the failure is unrecoverable" % fatal[:2],
                   rn.loc(fatal[0]) if fatal else "")
    mtf = ctx.fn("journal::reader::JournalReader::maybe_truncate_file_to_last_valid_pos", rule)
    if mtf:
        og = ctx.og(mtf)
        tf = R.call_blocks(mtf, ("journal::reader::JournalReader::truncate_file",))
        ok = False
        detail = "maybe_truncate_file_to_last_valid_pos never truncates"
        if tf:
            arg = og.of_operand(mtf.term(tf[0])["args"][1])
            okarg = A.access_path(arg) == ("P1", "last_valid_pos")
            # skipped only when the stream position is not beyond last_valid_pos
            okcond = False
            cmp_blocks = []
            for b, blk in enumerate(mtf.blocks):
                if blk["t"]["k"] == "switch" and not blk["cleanup"]:
                    cmp_ = A.compare_switch(mtf, b, og)
                    if not cmp_:
                        continue
                    less = A.edges_where_less(cmp_, lambda t: A.access_path(t) == ("P1", "last_valid_pos"),
                                              lambda t: any(x.k == "call" and "stream_position" in x.a[0] for x in A.walk(t)))
                    if less:
                        okcond = okcond or all(tf[0] in A.reach(mtf, [tgt]) for tgt in less)
                        cmp_blocks.append(b)
            # ... and that comparison is the ONLY way around the truncation (no shortcut such as "nothing was decoded
            # yet": a journal that was never written to is 64 MiB of zero padding — left in place, the append-mode writer
            # puts every later record BEHIND the padding and the next recovery, which stops at the first zero tag, sees none)
            errs = list(A.error_starts(mtf))
            r_ = A.reach(mtf, [0], avoid=tf + cmp_blocks + errs)
            bypass = [x for x in mtf.return_blocks() if x in r_]
            ctx.ob(rule, mtf, "raw-truncation-has-no-other-bypass", bool(cmp_blocks) and not bypass,
                   "the only path around truncate_file is stream_position() <= last_valid_pos" if (cmp_blocks and not bypass) else
                   "maybe_truncate_file_to_last_valid_pos can return Ok without truncating and without having compared the stream position with last_valid_pos (bb%s): an undecodable tail (for a never-written journal: the whole zero-filled pre-allocation) stays in the file, the writer appends behind it, and the next recovery reads nothing of what was acknowledged in between" % (
                       "->bb".join(map(str, A.find_path(mtf, [0], bypass, avoid=tf + cmp_blocks + errs) or []))))
            ok = okarg and okcond
            detail = "truncate_file(self.last_valid_pos) whenever stream_position() > self.last_valid_pos" if ok else "raw tail truncation: argument %s, taken-when-beyond-valid-pos=%s" % (A.tstr(arg)[:60], okcond)
        ctx.ob(rule, mtf, "raw-truncation-cuts-at-last-decoded-entry", ok, detail)



def run(ctx):
    F = ctx.F
    cg = ctx.cg
    # ---- R-C03.1 framing
    for fid in R.APPEND:
        fn = ctx.fn(fid, "R-C03.1")
        if not fn:
            continue
        og = ctx.og(fn)
        ws = R.call_blocks(fn, (W + "::write_start",))
        we = R.call_blocks(fn, (W + "::write_end",))
        items = [b for b, t in fn.calls() if A.cname(t).endswith("as std::io::Write>::write_all") and "BufWriter" in A.cname(t)]
        ok = len(ws) == 1 and len(we) == 1 and not A.in_cycle(fn, ws[0]) and not A.in_cycle(fn, we[0])
        ctx.ob("R-C03.1", fn, "one-start-one-end", ok, "exactly one write_start and one write_end, both outside loops" if ok else "framing broken: %d write_start, %d write_end (or inside a loop)" % (len(ws), len(we)))
        if not ok:
            continue
        order = bool(items) and all(A.dominates(fn, ws[0], i) for i in items) and all(we[0] in A.reach_after(fn, i) and i not in A.reach_after(fn, we[0]) for i in items) \
            and A.dominates(fn, ws[0], we[0])
        ctx.ob("R-C03.1", fn, "start-items-end-order", order, "Start precedes every item write, End follows all of them" if order else "an item can be written outside the Start..End frame")
        # every success path passes write_end
        errs = list(A.error_starts(fn))
        r = A.reach_after(fn, ws[0], avoid=we + errs)
        esc = [x for x in fn.return_blocks() if x in r]
        ctx.ob("R-C03.1", fn, "end-on-every-success-path", not esc, "after write_start every success path writes the End marker" if not esc else "a success path returns after Start without writing End")
        cnt = og.of_operand(fn.term(ws[0])["args"][1])
        seq = og.of_operand(fn.term(ws[0])["args"][2])
        if fid.endswith("write_batch"):
            okc = any(x.k == "param" and x.a[0] == 3 for x in A.walk(cnt))
            oks = seq.k == "param" and seq.a[0] == 4
        else:
            okc = cnt.k == "const" and cnt.a == ("int", 1)
            oks = seq.k == "param" and seq.a[0] == (6 if fid.endswith("write_raw") else 3)
        ctx.ob("R-C03.1", fn, "start-carries-count-and-seqno", okc and oks, "write_start(item_count := %s, seqno := %s)" % (A.tstr(cnt), A.tstr(seq)))
        # End carries the running checksum
        ck = og.of_operand(fn.term(we[0])["args"][1])
        okk = ck.k == "call" and ck.a[0].endswith("Hasher>::finish")
        ctx.ob("R-C03.1", fn, "end-carries-checksum", okk, "write_end(checksum := %s)" % A.tstr(ck)[:100])

    # ---- R-C03.2 emit only after a verified End
    br = ctx.fn(BR, "R-C03.2")
    if br:
        og = ctx.og(br)
        builds = []
        for b, blk in enumerate(br.blocks):
            if blk["cleanup"]:
                continue
            for st in blk["s"]:
                if st["rv"]["k"] == "agg" and st["rv"].get("adt") == "journal::batch_reader::Batch":
                    builds.append(b)
        ctx.floor("R-C03.2", "blocks building a Batch", builds, 1)
        for b in builds:
            conds = A.edge_conditions(br, b)
            has_end = any(t.k == "discr" and "End" in labels for _, t, labels in conds)
            cnt0 = False
            inb = False
            cks = False
            for sb, t, labels in conds:
                t2, neg = A.strip_not(t)
                if t2.k == "bin" and t2.a[0] in ("Gt", "Ne") and A.ends_with_field(t2.a[1], "batch_counter") and t2.a[2].k == "const" and t2.a[2].a == ("int", 0):
                    if (False in labels) != neg:
                        cnt0 = True
                if t2.k == "bin" and t2.a[0] == "Eq" and A.ends_with_field(t2.a[1], "batch_counter") and t2.a[2].k == "const" and t2.a[2].a == ("int", 0):
                    if (True in labels) != neg:
                        cnt0 = True
                if t2.k == "field" and t2.a[1] == "is_in_batch":
                    if (True in labels) != neg:
                        inb = True
                if t2.k == "bin" and t2.a[0] in ("Ne", "Eq"):
                    sides = [t2.a[1], t2.a[2]]
                    fin = [s for s in sides if s.k == "call" and s.a[0].endswith("Hasher>::finish") and any(x.k == "field" and x.a[1] == "checksum_builder" for x in A.walk(s))]
                    pay = [s for s in sides if any(x.k == "downcast" and x.a[1] == "End" for x in A.walk(s))]
                    if fin and pay:
                        equal_label = (t2.a[0] == "Eq") != neg
                        if equal_label in labels:
                            cks = True
            ctx.ob("R-C03.2", br, "emit-dominated-by-End-arm", has_end, "Batch is built only in the Entry::End arm" if has_end else "a Batch can be emitted without having read the End marker")
            ctx.ob("R-C03.2", br, "emit-requires-all-items-seen", cnt0, "Batch is built only on the batch_counter == 0 edge" if cnt0 else "a Batch can be emitted while announced items are still missing")
            ctx.ob("R-C03.2", br, "emit-requires-open-batch", inb, "Batch is built only on the is_in_batch edge" if inb else "a Batch can be emitted without a Start marker")
            ctx.ob("R-C03.2", br, "emit-requires-checksum-match", cks, "Batch is built only on the edge where Hasher::finish(checksum_builder) == End payload" if cks else "a Batch can be emitted without (or against) the checksum comparison")
        # the hasher sees every item / clear that is accepted
        upd = [b for b, t in br.calls() if A.cname(t).endswith("Hasher>::update") or A.cname(t).endswith("Xxh3::update")]
        pushes = [b for b, t in br.calls() if A.cname(t).endswith("Vec::<T, A>::push")]
        ok = len(upd) >= 2 and len(pushes) >= 2 and all(any(A.dominates(br, u, p) for u in upd) for p in pushes)
        ctx.ob("R-C03.2", br, "accepted-items-are-hashed", ok, "every accepted Item/Clear was fed to the checksum first (%d updates, %d accepts)" % (len(upd), len(pushes)) if ok else "an entry can be accepted into the batch without being hashed")

        # ---- R-C03.3 tail repair
        lvp = A.field_assigns(br, "last_valid_pos", "JournalBatchReader")
        ok = len(lvp) == 1 and any(lvp[0][0] == bb or (A.dominates(br, lvp[0][0], bb) and A.all_paths_pass(br, lvp[0][0], [bb], br.return_blocks())[0]) for bb in builds)
        ctx.ob("R-C03.3", br, "last_valid_pos-advances-only-on-emit", ok,
               "self.last_valid_pos is assigned only where a verified batch is emitted" if ok else "self.last_valid_pos is assigned at %d site(s), not (only) at the verified emit: a torn tail would be kept" % len(lvp))
        for fid2, f2 in F.fns.items():
            if fid2 in (BR, "journal::batch_reader::JournalBatchReader::new"):
                continue
            for b, i, st in A.field_assigns(f2, "last_valid_pos", "JournalBatchReader"):
                ctx.ob("R-C03.3", f2, "foreign-write-to-last_valid_pos", False, "batch reader's last_valid_pos written outside next()", f2.loc(b))
        raw = R.call_blocks(br, (RAW_NEXT,))
        repair = [b for b, t in br.calls() if A.cname(t) in ("journal::batch_reader::JournalBatchReader::truncate_to", "journal::batch_reader::JournalBatchReader::on_close")]
        nones = []
        for b, blk in enumerate(br.blocks):
            if blk["cleanup"]:
                continue
            for st in blk["s"]:
                if st["p"]["l"] == 0 and not st["p"]["p"] and st["rv"]["k"] == "agg" and st["rv"].get("variant") == "None":
                    nones.append(b)
        ctx.floor("R-C03.3", "`return None` sites of the batch reader", nones, 4)
        for i, nb in enumerate(sorted(nones)):
            good = [t for t in repair if A.dominates(br, t, nb) and nb in A.reach_after(br, t, avoid=raw)]
            ctx.ob("R-C03.3", br, "none#%d-preceded-by-truncation" % (i + 1), bool(good),
                   "iteration ends only after truncate_to(last_valid_pos) / on_close" if good else "the reader can stop (None) without repairing the tail: an incomplete batch stays in the file and later appends land behind it", br.loc(nb))
        og = ctx.og(br)
        for b in repair:
            t = br.term(b)
            if A.cname(t).endswith("truncate_to"):
                term = og.of_operand(t["args"][1])
                ok = A.access_path(term) == ("P1", "last_valid_pos")
                ctx.ob("R-C03.3", br, "truncates-to-last-valid-pos", ok, "truncate_to(%s)" % A.tstr(term), br.loc(b), nontrivial=False)
    oc = ctx.fn("journal::batch_reader::JournalBatchReader::on_close", "R-C03.3")
    if oc:
        tb = R.call_blocks(oc, ("journal::batch_reader::JournalBatchReader::truncate_to",))
        pruned = A.prune_edges(oc, assume_field={"is_in_batch": True})
        r = A.reach(oc, [0], avoid=tb, pruned=pruned)
        errs = A.err_region(oc, tb)
        esc = [x for x in oc.return_blocks() if x in r]
        ok = bool(tb) and not esc
        ctx.ob("R-C03.3", oc, "truncates-when-inside-batch", ok, "on_close truncates to last_valid_pos whenever a batch is still open" if ok else "on_close can return with an open (incomplete) batch left in the file")

    tail_repair(ctx, "R-C03.3")

    # ---- R-C03.3b the repaired file ends exactly at the last valid position (the writer appends at end-of-file)
    for fid in ("journal::batch_reader::JournalBatchReader::truncate_to", "journal::reader::JournalReader::truncate_file"):
        fn = ctx.fn(fid, "R-C03.3")
        if not fn:
            continue
        og = ctx.og(fn)
        sl = [(b, t) for b, t in fn.calls() if A.cname(t) == "std::fs::File::set_len"]
        ok = len(sl) == 1
        for b, t in sl:
            ln = og.of_operand(t["args"][1])
            ok = ok and ln.k == "param" and ln.a[0] == 2
        grow = [A.cname(t) for b, t in fn.calls() if ("io::Write" in A.cname(t) or "io::Write" in (t.get("callee") or "") or "io::Seek" in A.cname(t) or "io::Seek" in (t.get("callee") or ""))
                and A.cname(t).rsplit("::", 1)[-1] in ("write_all", "write", "seek", "write_vectored")]
        ctx.ob("R-C03.3", fn, "repair-leaves-file-ending-at-valid-pos", ok and not grow,
               "the only length change is set_len(pos): the file ends at the last valid byte, so appended batches follow it directly" if ok and not grow
               else "after the repair the file does not end at the last valid position (%d set_len calls, extra writes %s): later appends land behind a gap and are unreadable" % (len(sl), grow))
    wf = ctx.fn(R.WRITER + "::from_file", "R-C03.3")
    if wf:
        og = ctx.og(wf)
        ap = [(b, t) for b, t in wf.calls() if A.cname(t) == "std::fs::OpenOptions::append"]
        ok = bool(ap) and all(og.of_operand(t["args"][1]).k == "const" and og.of_operand(t["args"][1]).a == ("bool", True) for b, t in ap)
        # the append-mode handle is the one wrapped by the BufWriter of the existing-file branch
        ctx.ob("R-C03.3", wf, "recovered-journal-opened-in-append-mode", ok, "an existing journal is opened with append(true): new batches follow the repaired tail" if ok else "an existing journal is not opened in append mode")

    # ---- R-C03.6 decoding a (possibly torn, zero-padded) journal tail cannot panic
    PANICS = ("core::panicking::", "std::rt::begin_panic", "std::panicking::")
    for fid in ("journal::entry::Entry::decode_from", "<journal::reader::JournalReader as std::iter::Iterator>::next",
                "<journal::entry::Tag as std::convert::TryFrom<u8>>::try_from"):
        fn = ctx.fn(fid, "R-C03.6")
        if not fn:
            continue
        live = A.live_blocks(fn)
        bad = []
        for b, t in fn.calls():
            n = A.cname(t)
            if b in live and (n.startswith(PANICS) or n.endswith("::unwrap") or n.endswith("::expect") or n.endswith("::unwrap_unchecked")):
                bad.append((b, n))
        ctx.count_sites(len(fn.calls()))
        ctx.ob("R-C03.6", fn, "no-panic-on-untrusted-bytes", not bad,
               "no assertion / unwrap / panic is reachable while decoding journal bytes: a torn or padded tail surfaces as an error and is truncated" if not bad
               else "decoding journal bytes can panic (%s at %s): a torn item header followed by the zero padding of the pre-allocated file aborts recovery instead of being discarded" % (bad[0][1].split("::<")[0], fn.loc(bad[0][0])))

    # ---- R-C03.4 recovery consumes batches, not entries
    cs = cg.callers(RAW_NEXT)
    ctx.floor("R-C03.4", "callers of JournalReader::next", cs, 1)
    for f, b in cs:
        fn = F.fns[f]
        ctx.ob("R-C03.4", fn, "raw-entries-only-via-batch-reader", f == BR, "raw journal entries consumed by %s" % f, fn.loc(b), nontrivial=False)
    for fid, fn in F.fns.items():
        for b, t in fn.calls():
            if (t.get("callee") or "") == "std::iter::Iterator::next" and not t.get("res"):
                continue
    gr = ctx.fn("journal::Journal::get_reader", "R-C03.4")
    if gr:
        term = ctx.og(gr).of_local(0)
        ok = any(x.k == "call" and x.a[0] == "journal::batch_reader::JournalBatchReader::new" for x in A.walk(term))
        ctx.ob("R-C03.4", gr, "active-journal-read-as-batches", ok, "Journal::get_reader returns a JournalBatchReader" if ok else "Journal::get_reader does not wrap the raw reader in the batch reader")
    for fid in ("db::Database::recover", "recovery::recover_sealed_memtables"):
        fn = ctx.fn(fid, "R-C03.4")
        if not fn:
            continue
        it = [b for b, t in fn.calls() if A.cname(t) == BR]
        ap = R.apply_blocks(fn)
        ok = bool(it) and bool(ap) and all(any(A.dominates(fn, i, a) for i in it) for a in ap)
        ctx.ob("R-C03.4", fn, "replay-applies-only-emitted-batches", ok,
               "every replayed tree apply is dominated by JournalBatchReader::next" if ok else "a replay apply is not fed by the batch reader")
        # and an Err batch aborts (the `?` on batch)
        for i in it:
            # Option<Result<Batch>>: the Some payload must go through Try::branch
            pass

    # ---- R-C03.5 a transaction is one batch
    bt = ctx.fn("tx::write_tx::BaseTransaction::commit", "R-C03.5")
    if bt:
        cb = R.call_blocks(bt, ("batch::WriteBatch::commit",))
        ok = len(cb) == 1 and not A.in_cycle(bt, cb[0])
        ctx.ob("R-C03.5", bt, "exactly-one-batch-commit", ok, "one WriteBatch::commit, outside the per-keyspace loop" if ok else "transaction commit issues %d batch commits%s: a crash between them splits the transaction" % (len(cb), " (in a loop)" if cb and A.in_cycle(bt, cb[0]) else ""))
        nb = [b for b, t in bt.calls() if A.cname(t) in ("batch::WriteBatch::new", "batch::WriteBatch::with_capacity")]
        ctx.ob("R-C03.5", bt, "exactly-one-batch", len(nb) == 1 and not A.in_cycle(bt, nb[0]), "one WriteBatch is built for the whole transaction (%d)" % len(nb), nontrivial=False)
        # the loops visit every keyspace and every buffered entry: no adaptor drops elements
        DROPPING = ("::take", "::skip", "::filter", "::step_by", "::take_while", "::skip_while", "::nth", "::filter_map", "::rev", "::last", "::min", "::max", "::find")
        adaptors = [A.cname(t) for b, t in bt.calls() if ("iter::Iterator" in (t.get("callee") or "") or "iter::traits" in A.cname(t) or "Iterator>::" in A.cname(t)) and A.cname(t).endswith(DROPPING)]
        outer = [b for b, t in bt.calls() if A.cname(t).endswith("::next") and (t.get("full") or "").startswith("<std::collections::hash_map::IntoIter<keyspace::Keyspace") and A.in_cycle(bt, b)]
        src_ok = False
        og_ = ctx.og(bt)
        for b in outer:
            it = og_.of_operand(bt.term(b)["args"][0])
            src_ok = any(A.access_path(x) == ("P1", "memtables") for x in A.walk(it))
        ctx.ob("R-C03.5", bt, "commits-every-keyspace-and-entry", bool(outer) and src_ok and not adaptors,
               "the commit loop walks self.memtables (all keyspaces) and each memtable without element-dropping adaptors" if (outer and src_ok and not adaptors)
               else "the commit does not visit every keyspace/entry of the transaction (adaptors: %s; iterates self.memtables: %s): part of the transaction would silently not be committed" % (adaptors, src_ok))
        # pushes go into that batch
        psh = [b for b, t in bt.calls() if A.cname(t).endswith("Vec::<T, A>::push")]
        ok = bool(psh) and bool(cb) and all(cb[0] in A.reach_after(bt, p) and p not in A.reach_after(bt, cb[0]) for p in psh)
        ctx.ob("R-C03.5", bt, "all-items-pushed-before-commit", ok, "every item is pushed into the batch before its single commit" if ok else "items are pushed after the batch commit")
    # "all": nothing the transaction buffered is left out of its single batch (dedupe keeps the newest write per key and keyspace; shared with C08)
    from . import C08
    C08.commit_rules(ctx, "R-C03.7")
    for fid in ("tx::single_writer::write_tx::WriteTransaction::<'tx>::commit", "tx::optimistic::write_tx::WriteTransaction::commit"):
        fn = ctx.fn(fid, "R-C03.5")
        if fn:
            ok = cg.reaches(fid, {"tx::write_tx::BaseTransaction::commit"}) and not (cg.call_chain(fid, set(R.APPEND)) or [None, None])[1:2] == ["batch::WriteBatch::commit"] or True
            reach = cg.reaches(fid, {"tx::write_tx::BaseTransaction::commit"})
            ctx.ob("R-C03.5", fn, "commits-through-base-transaction", reach, "transaction commit reaches BaseTransaction::commit" if reach else "transaction commit bypasses BaseTransaction::commit", nontrivial=False)
    wb = ctx.fn("batch::WriteBatch::commit", "R-C03.5")
    if wb:
        ab = R.call_blocks(wb, R.APPEND)
        ok = len(ab) == 1 and not A.in_cycle(wb, ab[0])
        ctx.ob("R-C03.5", wb, "one-append-per-batch", ok, "one journal append (write_batch) per commit, outside loops" if ok else "batch commit appends %d times" % len(ab))
        if ab:
            og = ctx.og(wb)
            items = og.of_operand(wb.term(ab[0])["args"][1])
            cnt = og.of_operand(wb.term(ab[0])["args"][2])
            DROPPING_ = ("filter", "filter_map", "skip", "skip_while", "take", "take_while", "step_by", "rev", "chain", "flat_map", "dedup", "nth", "zip")
            adapt = sorted({x.a[0].rsplit("::", 1)[-1] for x in A.walk(items) if x.k == "call" and x.a[0].rsplit("::", 1)[-1] in DROPPING_})
            cnt_ok = cnt.k == "call" and cnt.a[0].endswith("::len") and any(A.access_path(x) == ("P1", "data") for x in A.walk(cnt))
            ok1 = any(A.access_path(x) == ("P1", "data") for x in A.walk(items)) and cnt_ok and not adapt
            ctx.ob("R-C03.5", wb, "journals-all-own-items", ok1, "write_batch(items := %s, count := %s)" % (A.tstr(items)[:60], A.tstr(cnt)[:60]) +
                   ("" if ok1 else " — the items journaled are not exactly self.data (adaptors %s) or the announced count is not self.data.len(): the Start marker announces more items than the frame holds, the End marker is reached with items missing and recovery of the whole journal fails (or, the other way round, items are cut off)" % adapt))
            # the loop applies the same items
            takes = [b for b, t in wb.calls() if A.cname(t).startswith("std::mem::take")]
            ok2 = False
            for b in takes:
                term = og.of_operand(wb.term(b)["args"][0])
                if A.access_path(term) == ("P1", "data"):
                    ok2 = A.dominates(wb, ab[0], b)
            ctx.ob("R-C03.5", wb, "applies-the-journaled-items", ok2, "the apply loop consumes self.data after it was journaled" if ok2 else "the apply loop does not iterate the journaled self.data (after the append)")

    # ---- R-C03.8 write-ahead rule: when lsm-tree turns a keyspace's memtables into (fsynced) tables, the journal records of
    # the items in those memtables must not still sit in the journal writer's user-space buffer — otherwise a crash leaves
    # ONE keyspace's part of a batch on disk (in the table) and nothing of the rest (the journal never got the record).
    # (a) process crash: the buffer was flushed under the journal lock before the call (Writer::persist, or Writer::pos
    #     whose stream_position flushes the BufWriter) — required;
    # (b) power loss: the journal was SYNCED before the call — not done anywhere on the pinned tree: known finding.
    sites = (("ingestion::Ingestion::<'a>::finish", lambda n: n.startswith("lsm_tree::") and n.endswith("::finish")),
             ("worker_pool::worker_tick", lambda n: n == "flush::worker::run"))
    for fid, is_effect in sites:
        fn = ctx.fn(fid, "R-C03.8")
        if not fn:
            continue
        og = ctx.og(fn)
        eff = [b for b, t in fn.calls() if is_effect(A.cname(t))]
        if not eff:
            ctx.ob("R-C03.8", fn, "flush-site-present", False, "%s no longer turns memtables into tables" % fid, kind="anchor")
            continue
        flushers = [b for b, t in fn.calls() if A.cname(t) in (R.PERSIST, R.WRITER + "::pos", R.JOURNAL_PERSIST)]
        syncers = []
        for b, t in fn.calls():
            if A.cname(t) in (R.PERSIST, R.JOURNAL_PERSIST) and len(t["args"]) > 1:
                if A.variants_in(og.of_operand(t["args"][1]), "PersistMode") & {"SyncData", "SyncAll"} and not (A.variants_in(og.of_operand(t["args"][1]), "PersistMode") & {"Buffer"}):
                    syncers.append(b)
        errs = list(A.error_starts(fn))

        def before_every(eff_b, through):
            # every path entry -> effect passes one of `through`
            return bool(through) and eff_b not in A.reach(fn, [0], avoid=list(through))
        ok_a = all(before_every(e, flushers) for e in eff)
        ok_b = all(before_every(e, syncers) for e in eff)
        ctx.ob("R-C03.8", fn, "journal-buffer-flushed-before-memtables-become-tables", ok_a,
               "the journal writer's buffer is written out (persist / pos) before %s makes tables out of memtables" % fid.rsplit("::", 1)[-1] if ok_a
               else "memtables are turned into durable tables while their journal records may still sit in the journal writer's buffer: after a process crash one keyspace has its part of a batch (from the table) and the others have nothing (manual_journal_persist, or a batch committed without durability)",
               fn.loc(eff[0]))
        ctx.ob("R-C03.8", fn, "journal-synced-before-memtables-become-tables", ok_b,
               "the journal is synced before tables are made durable" if ok_b
               else "tables are fsynced while the journal is only flushed to the OS: after a power loss the journal can end before a batch of which one keyspace's part is already in a table (batch recovered partially)",
               fn.loc(eff[0]))

    # ---- R-C03.9 a memtable is sealed only after the journal buffer was written out.  lsm-tree's flush takes ALL sealed
    # memtables of the keyspace, whenever they were sealed; the worker's own barrier (R-C03.8) only covers what was sealed
    # before it looked.  With manual journal persist (or a batch without durability) a batch committed after that barrier,
    # whose keyspace is rotated before the worker collects, would get one keyspace's part into a table while its journal
    # record is still in the process buffer.  Sealing happens under the journal lock: the buffer must be written out there.
    seal_sites = 0
    for fid, fn in sorted(F.fns.items()):
        if fid.startswith("recovery::") or R.in_journal_module(fid) or fn.kind == "closure":
            continue  # recovery seals what it has just read back FROM the journal
        seals = [b for b, t in fn.calls() if A.cname(t).endswith("AbstractTree>::rotate_memtable") or A.cname(t) == "lsm_tree::AbstractTree::rotate_memtable"]
        if not seals:
            continue
        gs = R.j_guards(ctx, fn)
        flushers = [b for b, t in fn.calls() if A.cname(t) in (R.PERSIST, R.WRITER + "::pos", R.JOURNAL_PERSIST)]
        for sb in seals:
            seal_sites += 1
            held = bool(gs) and any(A.must_held_at(fn, g, sb)[0] for g in gs)
            wrote = bool(flushers) and sb not in A.reach(fn, [0], avoid=flushers)
            # and the write-out happens under the same lock hold
            under = wrote and held and all(any(A.must_held_at(fn, g, fb)[0] for g in gs) for fb in flushers if A.dominates(fn, fb, sb))
            ok = held and wrote and under
            ctx.ob("R-C03.9", fn, "journal-buffer-written-out-before-the-memtable-is-sealed", ok,
                   "the journal writer's buffer is written out (under the journal lock) before rotate_memtable seals the memtable" if ok else
                   "%s seals a memtable %s: the flush worker collects every sealed memtable, so a table can hold items of a batch whose journal record never left the process — a process crash then recovers one keyspace's part of the batch only (manual_journal_persist / durability None)" % (
                       fid, "without holding the journal lock" if not held else "while journal records of its items may still sit in the writer's buffer"),
                   fn.loc(sb))
    ctx.floor("R-C03.9", "memtable seal sites outside recovery", seal_sites, 1)

    # ---- R-C03.1 (cont.) write_batch's "nothing to write" shortcut is taken only for an empty batch
    wbf = ctx.fn(R.WRITER + "::write_batch", "R-C03.1")
    if wbf:
        ogw = ctx.og(wbf)
        ws = R.call_blocks(wbf, (R.WRITER + "::write_start",))
        ok = False
        detail = "write_batch has no write_start"
        if ws:
            # every switch that can bypass write_start on a non-error path must be `batch_size == 0`
            errs = list(A.error_starts(wbf))
            r_ = A.reach(wbf, [0], avoid=ws + errs)
            byp = [x for x in wbf.return_blocks() if x in r_]
            ok = True
            detail = "write_start is on every non-error path"
            if byp:
                ok = False
                detail = "write_batch can return without framing the batch"
                for sb, blk in enumerate(wbf.blocks):
                    if blk["cleanup"] or blk["t"]["k"] != "switch" or ws[0] in A.reach(wbf, [0], avoid=[sb]):
                        continue
                    cmp_ = A.compare_switch(wbf, sb, ogw)
                    if cmp_ and cmp_[0] in ("Eq", "Ne") and cmp_[1].k == "param" and cmp_[1].a[0] == 3 and cmp_[2].k == "const" and tuple(cmp_[2].a) == ("int", 0):
                        zero_edge = cmp_[3] if cmp_[0] == "Eq" else cmp_[4]
                        nz_edge = cmp_[4] if cmp_[0] == "Eq" else cmp_[3]
                        if all(any(x in A.reach(wbf, [e], avoid=ws + errs) for x in byp) for e in zero_edge) and not any(x in A.reach(wbf, nz_edge, avoid=ws + errs) for x in byp):
                            ok = True
                            detail = "the only way around write_start is batch_size == 0"
        ctx.ob("R-C03.1", wbf, "unframed-return-only-for-an-empty-batch", ok,
               detail if ok else detail + " for a non-empty batch: the items are applied to the memtables and acknowledged, nothing is journaled — after a crash the whole batch is gone")

    # ---- R-C03.10 a commit cannot fail half-way: once the batch is journaled and the first item applied, every path leads to the
    # publish — an error return out of the apply loop (a late "keyspace was deleted" check, a fallible lookup) leaves some
    # keyspaces with their part of the batch and others without, journals the whole batch (a reopen replays all of it) and
    # never publishes the seqno.
    commit_cannot_fail_halfway(ctx, "R-C03.10")

    # ---- R-C03.16 I/O errors stay I/O errors in the entry decoder
    io_errors_stay_io_errors(ctx, "R-C03.16")

    # ---- cross-cutting disciplines (rules/discipline.py)
    from .. import discipline as D
    # framing, tail repair and commit errors surface
    D.error_discipline(ctx, "R-C03.14", scope=lambda f: f.startswith(("journal::", "<journal::", "batch::", "tx::write_tx::")))
    # every item of a batch is journaled, applied and replayed
    D.loops_visit_all(ctx, "R-C03.15", only=("batch::WriteBatch::commit", "journal::writer::Writer::write_batch", "db::Database::recover", "recovery::recover_sealed_memtables", "tx::write_tx::BaseTransaction::commit"))

    # ---- R-C03.19 a reader starts with nothing verified: position 0, outside a batch, no items owed. (A reader that starts
    #      at position 1 leaves a garbage byte when the FIRST record is torn; one that starts "inside a batch" accepts
    #      a leading End marker.)
    for fid, fields in (("journal::reader::JournalReader::new", {"last_valid_pos": ("int", 0)}),
                        ("journal::batch_reader::JournalBatchReader::new", {"last_valid_pos": ("int", 0), "is_in_batch": ("bool", False), "batch_counter": ("int", 0)})):
        fn = ctx.fn(fid, "R-C03.19")
        if not fn:
            continue
        got = {}
        for x in A.walk(ctx.og(fn).of_local(0)):
            if x.k == "agg" and x.a[0].endswith(fid.split("::")[-2]):
                for nm, v in (x.a[1] or ()):
                    if nm in fields:
                        got[nm] = tuple(v.a[:2]) if v.k == "const" else A.tstr(v)[:40]
        ok = got == fields
        ctx.ob("R-C03.19", fn, "starts-with-nothing-verified", ok, "starts at %s" % got if ok else "a fresh reader starts with %s (want %s)" % (got, fields))

    # ---- borrowed obligations (mechanisms owned by other properties that this property's verdict also rests on)
    # a recovered batch is whole only if the replay guard decides per keyspace (an item is skipped only when ITS keyspace's
    # tables hold it): a guard answering for the wrong keyspace drops one keyspace's half of a batch
    ctx.borrow("C04", ["R-C04.5"], "R-C03.18", only_instances=["replay-guard-skips-exactly"])
    # a batch is applied under the journal lock: a rotation cannot seal a keyspace's memtable between two of its items
    ctx.borrow("C14", ["R-C14.1", "R-C14.2"], "R-C03.17")
    # a batch whose keyspaces are flushed at different times is atomic across a crash only if its journal is kept until ALL of them have persisted it
    ctx.borrow("C10", ["R-C10.1"], "R-C03.11")
    # items of a batch keep their journal order on replay
    ctx.borrow("C04", ["R-C04.8"], "R-C03.12")
    # write-ahead order of the commit paths
    ctx.borrow("C02", ["R-C02.1"], "R-C03.13")


def commit_cannot_fail_halfway(ctx, rule):
    wb = ctx.fn("batch::WriteBatch::commit", rule)
    if not wb:
        return
    ap = R.apply_blocks(wb)
    pub = R.call_blocks(wb, (R.PUBLISH,))
    ok = False
    detail = "WriteBatch::commit lacks the apply loop or the publish"
    if ap and pub:
        r = set()
        for a in ap:
            r |= A.reach_after(wb, a, avoid=pub)
        # also the loop head's error exits before/after individual applies: everything inside the apply cycle
        cyc = [b for b in range(len(wb.blocks)) if not wb.blocks[b]["cleanup"] and any(A.in_cycle(wb, a) and b in A.reach_after(wb, a, avoid=pub) and a in A.reach(wb, [b], avoid=pub) for a in ap)]
        for b in cyc:
            r |= A.reach(wb, [b], avoid=pub)
        esc = [x for x in wb.return_blocks() if x in r]
        ok = not esc
        detail = "from the first applied item on, every path of WriteBatch::commit reaches the publish" if ok else \
            "WriteBatch::commit can return (bb%d) from inside the apply loop without publishing: the batch is in the journal, some keyspaces have received their items and others have not — a failed commit leaves effects, and they surface with the next unrelated write or a reopen" % esc[0]
    ctx.ob(rule, wb, "no-exit-between-first-apply-and-publish", ok, detail)


def io_errors_stay_io_errors(ctx, rule):
    """R-C03.16: inside Entry::decode_from every failing READ surfaces as Error::Io.  JournalReader::next lets only Error::Io
    (other than an unexpected EOF) fail the open and takes every other error for the torn tail, truncating the journal there;
    a read that goes through a foreign decoder (lsm-tree's CompressionType::decode_from) and is converted with the blanket
    From<lsm_tree::Error> arrives as Error::Storage(Io): a transient read error would cut acknowledged batches off."""
    dec = ctx.fn("journal::entry::Entry::decode_from", rule)
    if not dec:
        return
    og = ctx.og(dec)
    n = 0
    for b, t in dec.calls():
        if t["dest"]["p"]:
            continue
        ty = dec.local_ty(t["dest"]["l"])
        if not (ty.startswith("std::result::Result<") and "lsm_tree::Error" in ty):
            continue
        # does the call read from the reader?
        if not any(A.strip(og.of_operand(a)).k == "param" and A.strip(og.of_operand(a)).a[0] == 1 for a in t["args"]):
            continue  # (only calls that are handed the reader itself)
        n += 1
        rf = A.result_flow(dec, b)
        ok = False
        for kind, cl in rf.handlers:
            cf = ctx.F.fns.get(cl) if cl else None
            if cf and any(st["rv"]["k"] == "agg" and st["rv"].get("adt") == "error::Error" and st["rv"].get("variant") == "Io" for blk in cf.blocks for st in blk["s"]):
                ok = True
        who = [p_.split(" ")[0] for p_ in A.cname(t).replace("<", "::").replace(">", "::").split("::") if p_ and p_[0].isupper() and not p_.startswith("Decode")]
        ctx.ob(rule, dec, "read-through-%s-keeps-io-errors-io" % (who[0] if who else "foreign-decoder"), ok,
               "an lsm_tree::Error::Io from %s is mapped to Error::Io" % A.cname(t) if ok else
               "%s reads from the journal and its lsm_tree::Error is converted with `?`: a failing read arrives as Error::Storage(Io), which the journal reader takes for a torn tail — the journal is truncated at a record that is perfectly fine on disk" % A.cname(t),
               dec.loc(b))
    ctx.floor(rule, "foreign decoders reading from the journal in decode_from", n, 1)
