"""C06 — a committed batch becomes visible atomically (one seqno, publish after the last apply, shared counters)."""
from .. import analysis as A
from .. import roles as R

META = {
    "technique": "origin-term identity (same definition site) + SCC/dominance on MIR",
    "explanation": (
        "Decides the visibility plumbing: (1) each write entry point draws exactly one sequence number (outside any loop) "
        "and that very value (same definition site) is the seqno operand of the journal append, of every memtable apply arm "
        "and of publish; publish lies outside the per-item apply loop, is never followed by an apply, and every apply "
        "reaches it; (2) SnapshotTracker::publish is a fetch_max of seqno+1 on the visible counter and nothing else; "
        "(3) views take their instant from the tracker's visible counter (open reads self.seqno.get(), the tracker's "
        "counter is the one passed to SnapshotTracker::new); (4) all four lsm_tree::Config::new sites receive the "
        "database's seqno generator as generator and the tracker's visible counter as visible seqno — two distinct roots, "
        "the same pair for the meta keyspace. Together with C05/R-C05.2 (reads at the view's instant) and C14/R-C14.1 "
        "(all under the journal lock) these are the necessary conditions for a batch to become visible all at once. "
        "(5) every multi-key read of a keyspace tree outside the meta keyspace (iter/range/prefix/len/is_empty/"
        "first_key_value/last_key_value — each a scan inside lsm-tree) passes the instant of a registered view "
        "(SnapshotNonce.instant), never SeqNo::MAX or another raw number: a scan at MAX looks into half-applied batches. "
        "(6) nothing raises the visible counter past a batch that is still being applied: every lsm-tree entry point that "
        "installs a new tree version (it draws a seqno from the shared generator and raises the shared visible counter: "
        "flush, compact, major_compact, clear, ingestion finish; table re-derived from lsm-tree's MIR in the thorough tier) "
        "and every direct raise of the visible counter is made under the journal lock or before the database is shared. "
        "SEVEN call sites of the pinned tree are not (flush worker, compaction worker, major_compact, meta keyspace "
        "create/remove/maintenance): demonstrated KNOWN FINDINGS (demos/c06_flush_publishes_demo.rs, five histories)."),
    "not_decided": [
        "the thread schedules themselves",
        "cross-keyspace read atomicity inside lsm-tree (how a super version is chosen for an instant)",
        "single-key point reads: that they, too, read at a view instant is decided under C14 (R-C14.6)",
    ],
    "assumptions": ["SequenceNumberCounter::{next,fetch_max,get} are atomic; the tree exposes to a read at instant i exactly versions with seqno < i"],
}

# lsm-tree entry points that install a new tree version with a fresh seqno (SuperVersions::upgrade_version*); reviewed
# against lsm-tree 's source, re-derived from its MIR in the thorough tier (cross()). rotate_memtable is NOT one: it
# re-publishes the current version's seqno.
VERSION_CHANGING_TABLE = ("flush", "compact", "major_compact", "clear", "drop_range", "register_tables", "finish")

SEQ_ARG = {"write_raw": 5, "write_clear": 2, "write_batch": 3, "insert": 3, "remove": 2, "remove_weak": 2, "publish": 1}


def plus_one_of(term, pred):
    t = term
    while t.k == "field" and t.a[1] == "0":
        t = t.a[0]
    return t.k == "bin" and t.a[0].startswith("Add") and pred(t.a[1]) and t.a[2].k == "const" and t.a[2].a == ("int", 1)


def shared_counters(ctx, rule):
    """every tree (meta, new, recovered) is configured with the database-wide generator and the tracker's visible counter (shared
    with C11: a tree with a private generator stamps bulk-ingested tables with numbers below recovered data)"""
    F = ctx.F
    # ---- R-C06.4 one shared pair of counters
    sites = [(F.fns[f], b) for f, b in ctx.cg.callers("lsm_tree::Config::new") if f in F.fns]
    ctx.floor(rule, "lsm_tree::Config::new sites", sites, 4)
    for fn, b in sites:
        og = ctx.og(fn)
        t = fn.term(b)
        gen = og.of_operand(t["args"][1])
        vis = og.of_operand(t["args"][2])
        ctx.count_sites()
        if fn.id in ("db::Database::recover", "db::Database::create_new"):
            # meta tree: two fresh counters that become the database's generator / the tracker's visible counter
            sup = None
            trk = None
            mk = None
            for blk in fn.blocks:
                for st in blk["s"]:
                    rv = st["rv"]
                    if rv["k"] == "agg" and rv.get("adt") == "supervisor::SupervisorInner":
                        d = dict(zip(rv["fields"], rv["ops"]))
                        sup = og.of_operand(d["seqno"])
                        trk = og.of_operand(d["snapshot_tracker"])
            for bb, tt in fn.calls():
                if A.cname(tt) == "meta_keyspace::MetaKeyspace::new":
                    mk = (og.of_operand(tt["args"][2]), og.of_operand(tt["args"][3]))
            trk_arg = trk.a[1][0] if (trk is not None and trk.k == "call" and trk.a[0] == "snapshot_tracker::SnapshotTracker::new") else None
            ok = sup is not None and trk_arg is not None and mk is not None and \
                A.tkey(gen) == A.tkey(sup) == A.tkey(mk[0]) and A.tkey(vis) == A.tkey(trk_arg) == A.tkey(mk[1]) and A.tkey(gen) != A.tkey(vis)
            ctx.ob(rule, fn, "meta-tree-shares-both-counters", ok,
                   "meta tree, Supervisor.seqno, SnapshotTracker and MetaKeyspace share generator %s and visible counter %s (distinct)" % (A.tkey(gen)[:70], A.tkey(vis)[:70]) if ok
                   else "the meta tree / supervisor / tracker do not share one (generator, visible) counter pair: gen=%s vis=%s sup=%s trk=%s" % (A.tkey(gen)[:60], A.tkey(vis)[:60], A.tkey(sup)[:60] if sup else None, A.tkey(trk_arg)[:60] if trk_arg else None), fn.loc(b))
        else:
            okg = any(A.ends_with_field(x, "supervisor", "seqno") for x in A.alternatives(gen))
            okv = vis.k == "call" and vis.a[0] == "snapshot_tracker::SnapshotTracker::get_ref" and any(A.ends_with_field(x, "supervisor", "snapshot_tracker") for x in vis.a[1])
            ctx.ob(rule, fn, "tree-shares-both-counters", okg and okv,
                   "Config::new(path, generator := %s, visible := %s)" % (A.tstr(gen)[:60], A.tstr(vis)[:80]) + ("" if okg and okv else " — this tree would not see / advance the database-wide counters"), fn.loc(b))



def version_change_rules(ctx, rule):
    """shared with C08 (R-C08.7: "commit applies ... all at once")"""
    F = ctx.F
    # ---- R-C06.6 nothing raises the visible counter past a batch that is still being applied.
    # Every lsm-tree entry point that installs a new tree version draws a seqno from the SHARED generator and raises the
    # SHARED visible counter to it (SuperVersions::upgrade_version: `visible_seqno.fetch_max(seqno.next() + 1)`; thorough
    # tier re-derives this table from lsm-tree's own MIR). A batch draws its seqno and applies its items under the journal
    # lock (R-C14.1). So such an entry point may only be called while the journal lock is held, or before the database is
    # shared (recovery / creation). (keyspaces.write is NOT enough: a batch takes keyspaces.read only after drawing its seqno.)
    VERSION_CHANGING = VERSION_CHANGING_TABLE
    NOT_SHARED_YET = ("db::Database::recover", "db::Database::create_new", "recovery::recover_sealed_memtables", "recovery::recover_keyspaces")
    nvc = 0
    for fid, fn in sorted(F.fns.items()):
        if fid in NOT_SHARED_YET:
            continue
        for b, t in fn.calls():
            n = A.cname(t)
            leaf = n.rsplit("::", 1)[-1]
            is_tree = ("AbstractTree" in n and leaf in VERSION_CHANGING) or (leaf == "finish" and "Ingestion" in n and n.startswith("lsm_tree::"))
            # a direct raise of the visible counter that is not SnapshotTracker::publish (whose callers R-C06.1 / R-C14.1 cover)
            if n == "lsm_tree::SequenceNumberCounter::fetch_max" and fid != R.PUBLISH and fid != "snapshot_tracker::SnapshotTracker::set":
                recv = ctx.og(fn).of_operand(t["args"][0])
                if any(x.k == "field" and x.a[1] == "visible_seqno" for x in A.walk(recv)):
                    is_tree = True
                    leaf = "visible_seqno.fetch_max"
            if not is_tree:
                continue
            nvc += 1
            ctx.count_sites()
            held = None
            for g in R.j_guards(ctx, fn):
                if A.must_held_at(fn, g, b)[0]:
                    held = "the journal lock"
            ctx.ob(rule, fn, "version-change-%s-excluded-from-in-flight-batches" % leaf, held is not None,
                   "tree.%s (new tree version: raises the shared visible counter) is called under %s" % (leaf, held) if held
                   else "tree.%s installs a new tree version — lsm-tree draws a seqno from the shared generator and raises the shared visible counter to it — without the journal lock: when it completes between two applies of a batch that drew its seqno earlier, a snapshot opened now sees the applied half of the batch" % leaf,
                   fn.loc(b))
    ctx.floor(rule, "version-changing lsm-tree calls outside recovery", nvc, 8)



def run(ctx):
    F = ctx.F
    entries = R.write_entries(ctx)
    ctx.floor("R-C06.1", "write entry points", entries, 5)
    for fn in entries:
        og = ctx.og(fn)
        nb = R.seqno_draw_blocks(ctx, fn)
        ok1 = len(nb) == 1 and not A.in_cycle(fn, nb[0])
        ctx.ob("R-C06.1", fn, "one-seqno-per-operation", ok1,
               "exactly one seqno.next(), outside any loop" if ok1 else "%d seqno.next() call(s)%s: items of one operation would get different sequence numbers" % (len(nb), " (inside a loop)" if nb and A.in_cycle(fn, nb[0]) else ""))
        if not nb:
            continue
        draw = og.of_call(fn.term(nb[0]), nb[0])
        dk = A.tkey(draw)
        d2 = A.through_thin(F, draw)
        gen_ok = d2.k == "call" and d2.a[0] == R.SEQNO_NEXT and any(A.ends_with_field(x, "supervisor", "seqno") for x in d2.a[1])
        ctx.ob("R-C06.1", fn, "drawn-from-database-generator", gen_ok, "seqno drawn from %s" % A.tstr(draw.a[1][0]), nontrivial=False)
        sites = []
        for b, t in fn.calls():
            n = A.cname(t)
            leaf = n.rsplit("::", 1)[-1]
            if A.is_call_to(t, R.APPEND) or (A.is_call_to(t, R.APPLY_ANY) and leaf != "clear") or n == R.PUBLISH:
                sites.append((b, leaf))
        for i, (b, leaf) in enumerate(sites):
            t = fn.term(b)
            idx = SEQ_ARG[leaf]
            term = og.of_operand(t["args"][idx]) if len(t["args"]) > idx else None
            ok = term is not None and A.tkey(term) == dk
            ctx.count_sites()
            ctx.ob("R-C06.1", fn, "%s#%d-uses-the-drawn-seqno" % (leaf, i + 1), ok,
                   "%s(.., seqno := %s)" % (leaf, A.tstr(term) if term else "?") + ("" if ok else " — not the sequence number drawn for this operation"), fn.loc(b))
        pub = R.call_blocks(fn, (R.PUBLISH,))
        app = R.apply_blocks(fn)
        if pub and app:
            ok = len(pub) == 1 and not A.in_cycle(fn, pub[0]) and not any(a in A.reach_after(fn, pub[0]) for a in app) and all(pub[0] in A.reach_after(fn, a) for a in app)
            ctx.ob("R-C06.1", fn, "publish-once-after-last-apply", ok,
                   "publish is outside the apply loop, after every apply, and no apply follows it" if ok else "publish can happen before an item of the operation is applied (readers could observe half of it)")

    # ---- R-C06.2 publish = max(visible, seqno+1)
    pf = ctx.fn(R.PUBLISH, "R-C06.2")
    if pf:
        calls = [(b, t) for b, t in pf.calls()]
        fm = [(b, t) for b, t in calls if A.cname(t) == "lsm_tree::SequenceNumberCounter::fetch_max"]
        others = [A.cname(t) for b, t in calls if not A.is_transparent(A.cname(t)) and A.cname(t) != "lsm_tree::SequenceNumberCounter::fetch_max"]
        ok = False
        detail = "publish does not fetch_max the visible counter"
        if len(fm) == 1:
            og = ctx.og(pf)
            recv = og.of_operand(fm[0][1]["args"][0])
            val = og.of_operand(fm[0][1]["args"][1])
            ok = A.access_path(recv) == ("P1", "seqno") and plus_one_of(val, lambda x: x.k == "param" and x.a[0] == 2) and not others
            detail = "publish(s) = visible.fetch_max(%s)" % A.tstr(val) + ("" if ok else " — must be exactly s+1 on the tracker's counter and nothing else (other calls: %s)" % others)
        ctx.ob("R-C06.2", pf, "publish-is-fetch_max-seqno-plus-1", ok, detail)

    # ---- R-C06.3 views take the visible counter
    op = ctx.fn(R.OPEN_VIEW, "R-C06.3")
    if op:
        og = ctx.og(op)
        ok = False
        for b, t in op.calls():
            if A.cname(t) == "snapshot_nonce::SnapshotNonce::new":
                term = A.through_thin(F, og.of_operand(t["args"][0]))
                ok = term.k == "call" and term.a[0] == "lsm_tree::SequenceNumberCounter::get" and A.access_path(term.a[1][0]) == ("P1", "seqno")
                detail = "nonce instant := %s" % A.tstr(term)
        ctx.ob("R-C06.3", op, "instant-is-visible-seqno", ok, detail if ok else "open() does not take the tracker's visible counter as the view instant")
    tn = ctx.fn("snapshot_tracker::SnapshotTracker::new", "R-C06.3")
    if tn:
        ok = False
        for blk in tn.blocks:
            for st in blk["s"]:
                rv = st["rv"]
                if rv["k"] == "agg" and rv.get("adt") == "snapshot_tracker::SnapshotTrackerInner" and "seqno" in rv["fields"]:
                    term = ctx.og(tn).of_operand(rv["ops"][rv["fields"].index("seqno")])
                    ok = term.k == "param" and term.a[0] == 1
        ctx.ob("R-C06.3", tn, "tracker-counter-is-the-given-one", ok, "SnapshotTrackerInner.seqno := the counter passed to new()" if ok else "tracker keeps a different counter than it was given")
    gr = ctx.fn("snapshot_tracker::SnapshotTracker::get_ref", "R-C06.3")
    if gr:
        term = ctx.og(gr).of_local(0)
        ok = A.access_path(term) == ("P1", "seqno")
        ctx.ob("R-C06.3", gr, "get_ref-hands-out-the-same-counter", ok, "get_ref() = self.seqno.clone()" if ok else "get_ref returns %s" % A.tstr(term))

    shared_counters(ctx, "R-C06.4")

    # ---- R-C06.5 scans (and scan-derived single results) read at a registered view's instant
    from . import C05
    SCANS = ("iter", "range", "prefix", "first_key_value", "last_key_value", "is_empty", "len")
    nscan = 0
    for fid, fn in sorted(F.fns.items()):
        if fid.startswith("meta_keyspace::") or fid.startswith("<meta_keyspace::"):
            continue  # the meta keyspace is internal, written and read under the keyspaces lock
        for b, t in C05.tree_read_calls(fn):
            leaf = A.cname(t).rsplit("::", 1)[-1]
            if leaf not in SCANS:
                continue
            og = ctx.og(fn)
            sa = C05.seqno_args(fn, t)
            nscan += 1
            ctx.count_sites()
            terms = [og.of_operand(x) for x in sa]
            ok = len(terms) == 1 and any(x.k == "field" and x.a[1] == "instant" for alt in A.alternatives(terms[0]) for x in [alt])
            ctx.ob("R-C06.5", fn, "scan-%s#%d-at-view-instant" % (leaf, sum(1 for bb, tt in C05.tree_read_calls(fn) if bb < b and A.cname(tt) == A.cname(t)) + 1), ok,
                   "tree.%s reads at %s" % (leaf, ", ".join(A.tstr(x)[:80] for x in terms)) + ("" if ok else " — not the instant of a registered view: the scan looks into batches that are still being applied (seqno drawn, not yet published)"), fn.loc(b))
    ctx.floor("R-C06.5", "multi-key tree reads outside the meta keyspace", nscan, 12)
    C05.view_delegation(ctx, "R-C06.5")

    version_change_rules(ctx, "R-C06.6")

    # ---- R-C06.11 a batch is applied under the `keyspaces` read lock.  Keyspace creation and deletion register their meta
    # rows through an lsm-tree ingestion, which draws a seqno and raises the shared visible counter; they take the keyspaces
    # WRITE lock.  Holding the read lock from the first apply to the publish keeps them from raising the visible seqno past
    # a batch that is half applied.
    from .. import locks as L
    wb11 = ctx.fn("batch::WriteBatch::commit", "R-C06.11")
    if wb11:
        lm11 = L.LockModel(ctx)
        gs = [g for g in lm11.guards(wb11) if g.cls == "keyspaces"]
        ap = R.apply_blocks(wb11)
        pub = R.call_blocks(wb11, (R.PUBLISH,))
        ok = bool(gs) and bool(ap) and bool(pub) and all(A.must_held_at(wb11, gs[0], b)[0] for b in ap + pub)
        ctx.ob("R-C06.11", wb11, "batch-applied-and-published-under-the-keyspaces-lock", ok,
               "keyspaces.read() is held at every apply and at the publish" if ok else
               "WriteBatch::commit applies / publishes without holding the keyspaces read lock: a concurrent keyspace creation or deletion (meta-keyspace ingestion, which raises the shared visible seqno) can complete between two applies — a snapshot opened then sees part of the batch, and more of it later")

    # ---- cross-cutting disciplines (rules/discipline.py)
    from .. import discipline as D
    # a commit's batch contains, and applies, every item
    D.loops_visit_all(ctx, "R-C06.10", only=("tx::write_tx::BaseTransaction::commit", "batch::WriteBatch::commit"))

    # ---- R-C06.12 a read transaction of either transactional database IS Database::snapshot (same instant, same nonce)
    from .. import wrappers as W
    W.db_wrapper_forwarding(ctx, "R-C06.12", only=("read_tx",))

    # ---- borrowed obligations (mechanisms owned by other properties that this property's verdict also rests on)
    # a transaction's batch contains every keyspace's final writes (the dedupe never drops another keyspace's item)
    ctx.borrow("C08", ["R-C08.4"], "R-C06.7")
    # a commit applies all of its items or fails before the first
    ctx.borrow("C03", ["R-C03.5", "R-C03.10"], "R-C06.8")
    # the meta keyspace publishes exactly what it drew
    ctx.borrow("C11", ["R-C11.4"], "R-C06.9")


def cross(ctx, D):
    """thorough tier: re-derive VERSION_CHANGING_TABLE from the pinned lsm-tree's own MIR (D): the AbstractTree methods of
    AnyTree (and default methods calling them) and the ingestion finishers that reach SuperVersions::upgrade_version*"""
    from .. import core
    dctx = core.Ctx("C06", D, ctx.cfg, "thorough")
    cg = dctx.cg
    target = {k for k in D.fns if k.startswith("version::super_version::SuperVersions::upgrade_version")}
    ctx.ob("R-C06.6x", "<lsm_tree>", "upgrade_version-present", bool(target), "lsm-tree has SuperVersions::upgrade_version* (%d)" % len(target), kind="anchor")
    if not target:
        return
    # it is there that the shared visible counter is raised
    raises = False
    for k in target:
        f = D.fns[k]
        for b, t in f.calls():
            if A.cname(t).endswith("SequenceNumberCounter::fetch_max"):
                raises = True
    ctx.ob("R-C06.6x", "<lsm_tree>", "upgrade_version-raises-visible-counter", raises, "upgrade_version_with_seqno does visible_seqno.fetch_max(seqno + 1)" if raises else "lsm-tree's upgrade_version no longer raises the visible counter: R-C06.6's premise changed, review the rule")
    reach = set()
    for k in D.fns:
        if k.startswith("<any_tree::AnyTree as abstract_tree::AbstractTree>::") and cg.reaches(k, target):
            reach.add(k.rsplit("::", 1)[-1])
    changed = True
    while changed:
        changed = False
        for k, f in D.fns.items():
            if k.startswith("abstract_tree::AbstractTree::") and f.kind != "closure":
                m = k.rsplit("::", 1)[-1]
                if m in reach:
                    continue
                for b, t in f.calls():
                    n = A.cname(t)
                    if "AbstractTree" in n and n.rsplit("::", 1)[-1] in reach:
                        reach.add(m)
                        changed = True
                        break
    fin = any(cg.reaches(k, target) for k in D.fns if k.endswith("::finish") and "ngestion" in k)
    called = set()
    for fid, fn in ctx.F.fns.items():
        for b, t in fn.calls():
            n = A.cname(t)
            if "AbstractTree" in n:
                called.add(n.rsplit("::", 1)[-1])
    want = (reach & called) | ({"finish"} if fin else set())
    have = (set(VERSION_CHANGING_TABLE) & called) | ({"finish"} if "finish" in VERSION_CHANGING_TABLE else set())
    ctx.ob("R-C06.6x", "<lsm_tree>", "version-changing-table-matches-lsm-tree", want == have,
           "reviewed table %s = methods of the pinned lsm-tree that reach upgrade_version among those fjall calls" % sorted(have) if want == have
           else "table %s vs lsm-tree %s: review R-C06.6's VERSION_CHANGING_TABLE" % (sorted(have), sorted(want)))
