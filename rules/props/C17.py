"""C17 — one live instance per directory; only compatible directories open (open/drop ordering clauses)."""
from .. import analysis as A
from .. import roles as R
from .. import fs as FS

META = {
    "technique": "dominance over call-graph-summarised fs effects + who-may-call + loop/condition structure on MIR",
    "explanation": (
        "R-C17.5: ownership closure over ADT field types — no strong sender of a queue whose items own Keyspace handles is owned by KeyspaceInner, except the flush queue, which closes before draining and refuses/re-checks in enqueue. R-C17.6: create_new is reached only where holds_database_files() answered false, and every name create_new lays out decides there. "
        "Decides: (1) in Database::recover the version check dominates every call with a file-system effect (including the "
        "lock and the journal recovery, which truncates), check_version only reads and returns Ok solely on the edge where "
        "the parsed header is FormatVersion::V3; (2) the lock (try_acquire on recover, create_new on create) dominates every "
        "fs-mutating call of the open path except the creation of the database folder itself; locking is non-blocking "
        "(File::try_lock) and WouldBlock maps to Error::Locked; the guard is stored in DatabaseInner; (3) every keyspace "
        "handle shares that guard (clone), guards are constructed only in the two open paths and File::unlock is called "
        "only when the last clone drops; (4) Drop for DatabaseInner signals stop first, loops on the active-thread counter "
        "while sending Close, then clears flush manager, keyspace map and journal manager on every path (breaking the Arc "
        "cycles that would keep the lock guard alive); the worker closure decrements the counter when it stops."),
    "not_decided": [
        "'changes nothing on disk' for a refused open as an observed effect; thread-join timing",
        "behaviour for arbitrary marker bytes beyond the parse table",
        "the worker's error arm does not decrement active_thread_counter (observation: drop would spin after a worker failure)",
    ],
    "assumptions": ["File::try_lock is an exclusive advisory lock released by unlock/close"],
}

LOCK_FNS = ("locked_file::LockedFileGuard::try_acquire", "locked_file::LockedFileGuard::create_new")


def mutating_closure(ctx):
    """local fns that (transitively) perform a file-system mutation or open an lsm tree"""
    prims = set(FS.MUTATORS) | {"lsm_tree::Config::open", "std::fs::File::sync_all", "std::fs::File::sync_data"}
    return prims


def call_mutates(ctx, fn, b, prims):
    t = fn.term(b)
    n = A.cname(t).split("::<")[0]
    full = A.cname(t)
    if n in prims or full in prims:
        return n
    if full in ctx.F.fns:
        ch = ctx.cg.call_chain(full, prims | {p for p in prims})
        # call_chain matches exact names; generic instances carry ::<..> suffixes in callee names
        if ch:
            return " -> ".join(ch)
        for c in ctx.cg.reach(full):
            if c.split("::<")[0] in prims:
                return full + " -> .. -> " + c
    for a in t["args"]:
        cl = A.closure_of_operand(fn, a)
        if cl and cl in ctx.F.fns:
            for c in ctx.cg.reach(cl):
                if c.split("::<")[0] in prims:
                    return cl + " -> .. -> " + c
    return None


ACCEPTED_VERSION = "V3"  # the one format check_version lets through (R-C17.1)


def run(ctx):
    F = ctx.F
    cg = ctx.cg
    prims = mutating_closure(ctx)
    rec = ctx.fn("db::Database::recover", "R-C17.1")
    cv = ctx.fn("db::Database::check_version", "R-C17.1")
    # ---- R-C17.1 version before anything
    if rec:
        cvb = R.call_blocks(rec, ("db::Database::check_version",))
        lk = R.call_blocks(rec, LOCK_FNS)
        if not cvb:
            ctx.ob("R-C17.1", rec, "checks-version", False, "Database::recover never calls check_version")
        else:
            rf = A.result_flow(rec, cvb[0])
            n = 0
            bad = []
            for b, t in rec.calls():
                if b == cvb[0]:
                    continue
                m = call_mutates(ctx, rec, b, prims) or (A.cname(t) in LOCK_FNS and A.cname(t))
                if m:
                    n += 1
                    ctx.count_sites()
                    if not (A.dominates(rec, cvb[0], b) and any(A.dominates(rec, okb, b) for okb in rf.ok_blocks)):
                        bad.append((b, m))
            ctx.floor("R-C17.1", "fs-affecting calls in Database::recover", n, 8)
            ctx.ob("R-C17.1", rec, "version-check-dominates-all-fs-effects", not bad,
                   "check_version()? precedes all %d file-system-affecting calls of recover" % n if not bad else "a directory of another format version can be touched before it is refused: %s at %s" % (bad[0][1][:120], rec.loc(bad[0][0])))
    if cv:
        og = ctx.og(cv)
        m = None
        for b, t in cv.calls():
            x = call_mutates(ctx, cv, b, set(FS.MUTATORS) | {"lsm_tree::Config::open"})
            if x:
                m = x
        ctx.ob("R-C17.1", cv, "check-is-read-only", m is None, "check_version performs no file-system mutation" if m is None else "check_version mutates the file system: %s" % m)
        # Ok only on parse = Some(V3)
        oks = [b for b, blk in enumerate(cv.blocks) if not blk["cleanup"] for st in blk["s"] if st["rv"]["k"] == "agg" and st["rv"].get("variant") == "Ok" and st["p"]["l"] == 0]
        ok = False
        detail = "no Ok return in check_version"
        if oks:
            ph = R.call_blocks(cv, ("version::FormatVersion::parse_file_header",))
            conds = A.edge_conditions(cv, oks[0])
            some = any(t.k == "discr" and "Some" in labels and any(x.k == "call" and x.a[0].endswith("parse_file_header") for x in A.walk(t)) for _, t, labels in conds)
            v3 = False
            for sb, t, labels in conds:
                t2, neg = A.strip_not(t)
                if t2.k == "call" and "PartialEq" in t2.a[0] and (t2.a[0].endswith("::eq") or t2.a[0].endswith("::ne")):
                    is_ne = t2.a[0].endswith("::ne")
                    names = set()
                    fv = F.adts.get("version::FormatVersion")
                    dmap = {v["d"]: v["n"] for v in fv["variants"]} if fv else {}
                    for a in t2.a[1]:
                        names |= A.variants_in(a, "FormatVersion")
                        for x in A.walk(a):
                            if x.k == "const" and x.a[0] == "bytes" and len(x.a[1]) == 1 and x.a[1][0] in dmap:
                                names.add(dmap[x.a[1][0]])
                    equal_label = (not is_ne) != neg
                    if names == {"V3"} and (equal_label in labels):
                        v3 = True
            # `match version { FormatVersion::V3 => .. }`
            for sb, t, labels in conds:
                if t.k == "discr" and labels == ["V3"] and any(x.k == "call" and x.a[0].endswith("parse_file_header") for x in A.walk(t)):
                    v3 = True
            ok = some and v3 and bool(ph)
            detail = "Ok(()) only on the edge parse_file_header(bytes) == Some(V3)" if ok else "check_version can return Ok without the header being exactly V3 (Some edge=%s, ==V3 edge=%s)" % (some, v3)
        ctx.ob("R-C17.1", cv, "ok-only-for-v3", ok, detail)
    pf = ctx.fn("version::FormatVersion::parse_file_header", "R-C17.1")
    if pf:
        og = ctx.og(pf)
        eq = [b for b, t in pf.calls() if (t.get("callee") or "").startswith("std::cmp::PartialEq::")]
        okm = False
        for b in eq:
            for a in pf.term(b)["args"]:
                term = og.of_operand(a)
                if any(x.k == "const" and ((x.a[0] == "bytes" and tuple(x.a[1]) == (70, 74, 76)) or (x.a[0] == "def" and "MAGIC_BYTES" in str(x.a[1]))) for x in A.walk(term)):
                    okm = True
        tf = [b for b, t in pf.calls() if "TryFrom" in A.cname(t) or A.cname(t).endswith("::try_from")]
        ctx.ob("R-C17.1", pf, "header-is-magic-plus-version-byte", okm and bool(tf), "header parsed as \"FJL\" + FormatVersion::try_from(byte)" if okm and tf else "parse_file_header does not compare the magic bytes / convert the version byte through the table")

    # ---- R-C17.2 lock before mutation
    for fid, lockfn in (("db::Database::recover", LOCK_FNS[0]), ("db::Database::create_new", LOCK_FNS[1])):
        fn = ctx.fn(fid, "R-C17.2")
        if not fn:
            continue
        og = ctx.og(fn)
        lk = R.call_blocks(fn, (lockfn,))
        if not lk:
            ctx.ob("R-C17.2", fn, "takes-the-lock", False, "%s never calls %s" % (fid, lockfn))
            continue
        rf = A.result_flow(fn, lk[0])
        bad = []
        n = 0
        for b, t in fn.calls():
            if b == lk[0]:
                continue
            m = call_mutates(ctx, fn, b, prims)
            if not m:
                continue
            n += 1
            if A.cname(t).split("::<")[0] == "std::fs::create_dir_all":
                arg = og.of_operand(t["args"][0])
                if A.access_path(arg) == ("P1", "path"):
                    continue  # the database folder must exist before the lock file can be created
            if not (A.dominates(fn, lk[0], b) and any(A.dominates(fn, okb, b) for okb in rf.ok_blocks)):
                bad.append((b, m))
        ctx.ob("R-C17.2", fn, "lock-dominates-all-mutations", not bad, "the lock is held (Ok edge) before any of the %d mutating calls" % n if not bad else "the directory can be modified before/without holding the lock: %s at %s" % (bad[0][1][:120], fn.loc(bad[0][0])))
        # guard stored in DatabaseInner.lock_file
        kept = False
        for blk in fn.blocks:
            for st in blk["s"]:
                rv = st["rv"]
                if rv["k"] == "agg" and rv.get("adt") == "db::DatabaseInner":
                    d = dict(zip(rv["fields"], rv["ops"]))
                    term = og.of_operand(d["lock_file"])
                    kept = any(x.k == "call" and x.a[0] == lockfn for x in A.walk(term))
        ctx.ob("R-C17.2", fn, "guard-kept-by-database", kept, "DatabaseInner.lock_file := the acquired guard" if kept else "the acquired lock guard is not stored in the database (released at the end of open)")
    for fid in LOCK_FNS:
        fn = ctx.fn(fid, "R-C17.2")
        if not fn:
            continue
        tl = R.call_blocks(fn, ("std::fs::File::try_lock",))
        blocking = [b for b, t in fn.calls() if A.cname(t) in ("std::fs::File::lock", "std::fs::File::lock_shared", "std::fs::File::try_lock_shared")]
        ok = bool(tl) and not blocking
        ctx.ob("R-C17.2", fn, "non-blocking-exclusive-lock", ok, "uses File::try_lock (exclusive, non-blocking)" if ok else "lock acquisition is blocking or shared (%s)" % [A.cname(fn.term(b)) for b in blocking])
        # WouldBlock -> Error::Locked somewhere in fn or its closures
        bodies = [fn] + F.closures_of(fid)
        locked = any(st["rv"]["k"] == "agg" and st["rv"].get("variant") == "Locked" for f in bodies for blk in f.blocks for st in blk["s"])
        ctx.ob("R-C17.2", fn, "wouldblock-maps-to-Locked", locked, "a held lock is reported as Error::Locked" if locked else "a held lock is not reported as Error::Locked")
        # the guard is built on the lock's success edge and never on its hard-error edge
        gb = [b for b, blk in enumerate(fn.blocks) if not blk["cleanup"] for st in blk["s"] if st["rv"]["k"] == "agg" and st["rv"].get("adt") == "locked_file::LockedFileGuardInner"]
        okg = False
        detail = "no try_lock / guard construction"
        if gb and tl:
            rf = A.result_flow(fn, tl[0])
            from_ok = bool(rf.ok_blocks) and all(any(g in A.reach(fn, [o]) for o in rf.ok_blocks) for g in gb)
            if not rf.ok_blocks and rf.returned:
                from_ok = all(g in A.reach_after(fn, tl[0], avoid=rf.err_blocks) for g in gb)
            hard = list(rf.err_blocks)
            # `match e { TryLockError::Error(..) => return Err, TryLockError::WouldBlock => retry / Locked }`
            err_arm = []
            for eb in rf.err_blocks:
                for x in A.reach(fn, [eb], stop=gb):
                    t = fn.term(x)
                    if t["k"] == "switch":
                        vm = A.discr_variants(fn, t["d"])
                        if vm and set(vm.values()) == {"Error", "WouldBlock"}:
                            _, labels = A.switch_info(fn, x)
                            err_arm = [tg for tg, ns in labels.items() if "Error" in ns]
                            wb_arm = [tg for tg, ns in labels.items() if "WouldBlock" in ns]
            if err_arm:
                no_guard_on_error = not any(g in A.reach(fn, err_arm) for g in gb)
                locked_from_wb = any(st["rv"]["k"] == "agg" and st["rv"].get("variant") == "Locked" for x in A.reach(fn, wb_arm) for st in fn.blocks[x]["s"])
            else:
                # `?` / map_err: the Break edge must not reach the guard
                no_guard_on_error = bool(rf.err_blocks) and not any(g in A.reach(fn, rf.err_blocks) for g in gb)
                locked_from_wb = True
            okg = from_ok and no_guard_on_error and locked_from_wb
            detail = "guard is built on try_lock's success edge; its hard-error edge returns without a guard; WouldBlock can end in Error::Locked" if okg else \
                "guard construction vs try_lock outcome: from-success=%s none-on-error=%s locked-reachable-on-WouldBlock=%s" % (from_ok, no_guard_on_error, locked_from_wb)
        ctx.ob("R-C17.2", fn, "guard-only-on-lock-success", okg, detail)

    # ---- R-C17.3 shared guard, single release
    for fid in ("keyspace::Keyspace::create_new", "keyspace::Keyspace::from_database"):
        fn = ctx.fn(fid, "R-C17.3")
        if not fn:
            continue
        og = ctx.og(fn)
        ok = False
        for blk in fn.blocks:
            for st in blk["s"]:
                rv = st["rv"]
                if rv["k"] == "agg" and rv.get("adt") == "keyspace::KeyspaceInner":
                    d = dict(zip(rv["fields"], rv["ops"]))
                    term = og.of_operand(d["lock_file"])
                    ok = A.ends_with_field(term, "lock_file") and any(x.k == "param" for x in A.walk(term))
        ctx.ob("R-C17.3", fn, "keyspace-shares-database-lock", ok, "KeyspaceInner.lock_file := db.lock_file.clone()" if ok else "keyspace handle does not hold a clone of the database's lock guard (the lock could be released while a keyspace handle lives)")
    for lf in LOCK_FNS:
        for f, b in cg.callers(lf):
            okc = f in ("db::Database::recover", "db::Database::create_new")
            why = "%s called from %s" % (lf, f)
            if not okc and f in F.fns:
                # a transient probe (is somebody creating this database right now?) whose guard never leaves the function:
                # every alias of the guard ends in a plain drop, none is moved into an aggregate / another call / the return place
                pf = F.fns[f]
                t_ = pf.term(b)
                g_ = A.Guard("L", pf, b, A.guard_aliases(pf, t_["dest"]["l"]), "lock")
                kills = A.guard_kills(pf, g_)
                # (the Err residual of `?` also flows into the return place: only locals that can hold a guard count)
                escapes = [k for k in kills.values() if k != "drop"] or (0 in g_.aliases and "LockedFileGuard" in pf.local_ty(0))
                if kills and not escapes:
                    okc = True
                    why += " — a probe: the guard is dropped inside the function and never stored"
            ctx.ob("R-C17.3", F.fns[f], "constructs-lock-guard", okc, why, F.fns[f].loc(b), nontrivial=False)
    ul = cg.callers("std::fs::File::unlock")
    ctx.floor("R-C17.3", "File::unlock call sites", ul, 1)
    for f, b in ul:
        okc = f == "<locked_file::LockedFileGuardInner as std::ops::Drop>::drop"
        ctx.ob("R-C17.3", F.fns[f], "unlock-only-on-last-drop", okc, "File::unlock called from %s" % f, F.fns[f].loc(b), nontrivial=False)
    a = F.adts.get("locked_file::LockedFileGuard")
    okarc = bool(a) and any("Arc<locked_file::LockedFileGuardInner>" in f["ty"] for v in a["variants"] for f in v["fields"])
    ctx.ob("R-C17.3", "locked_file::LockedFileGuard", "guard-is-arc-of-inner", okarc, "LockedFileGuard(Arc<LockedFileGuardInner>): unlock happens when the last clone drops" if okarc else "LockedFileGuard is not an Arc of the unlocking inner type", nontrivial=False)

    # the lock file itself: created once (with the database), opened — never created, truncated or unlinked — afterwards.
    # Unlinking it on drop (or re-creating it on open) lets an opener that already holds an fd on the old inode and a later
    # opener of the new file both "own" the directory.
    n_lock = FS.check_fs_table(ctx, "R-C17.3", fn_filter=lambda fid: fid.startswith("locked_file::") or fid.startswith("<locked_file::"))
    ctx.floor("R-C17.3", "fs calls of the lock-file module", n_lock, 3)

    # ---- R-C17.4 drop quiesces and breaks cycles
    dd = ctx.fn("<db::DatabaseInner as std::ops::Drop>::drop", "R-C17.4")
    if dd:
        og = ctx.og(dd)
        stop = R.call_blocks(dd, ("lsm_tree::stop_signal::StopSignal::send",))
        ld = [b for b, t in dd.calls() if A.cname(t) == "std::sync::atomic::Atomic::<usize>::load" and any(x.k == "field" and x.a[1] == "active_thread_counter" for x in A.walk(og.of_operand(t["args"][0])))]
        snd = [b for b, t in dd.calls() if A.cname(t).startswith("flume::Sender") and (A.cname(t).endswith("::send") or A.cname(t).endswith("::try_send"))]
        clears = {"flush_manager": [b for b, t in dd.calls() if A.cname(t) == "flush::manager::FlushManager::clear"],
                  "keyspaces": [b for b, t in dd.calls() if A.cname(t).endswith("HashMap::<K, V, S, A>::clear") and any(x.k == "field" and x.a[1] == "keyspaces" for x in A.walk(og.of_operand(t["args"][0])))],
                  "journal_manager": [b for b, t in dd.calls() if A.cname(t) == "journal::manager::JournalManager::clear"]}
        ok1 = bool(stop) and all(A.dominates(dd, stop[0], x) for x in ld + snd + [c for v in clears.values() for c in v])
        ctx.ob("R-C17.4", dd, "stop-signal-first", ok1, "stop_signal.send() precedes the wait loop and the clean-up" if ok1 else "workers are not signalled to stop before the database waits/cleans up")
        ok2 = False
        if ld and snd:
            in_loop = A.in_cycle(dd, ld[0]) and A.in_cycle(dd, snd[0])
            closes = any(A.variants_in(og.of_operand(dd.term(s)["args"][1]), "WorkerMessage") == {"Close"} for s in snd)
            sw = A.switch_after_call(dd, ld[0])
            exit_ok = False
            if sw is None:
                # `load() > 0` comparison
                for b2, blk in enumerate(dd.blocks):
                    if blk["t"]["k"] == "switch" and not blk["cleanup"]:
                        c = A.compare_switch(dd, b2, og)
                        if c and any(x.k == "call" and x.site == (dd.id, ld[0]) for x in A.walk(c[1])):
                            sw = b2
            if sw is not None:
                # leaving the loop is only possible through the counter test
                exit_ok = all(A.dominates(dd, sw, c) for v in clears.values() for c in v)
            ok2 = in_loop and closes and exit_ok
        ctx.ob("R-C17.4", dd, "waits-for-workers", ok2, "loops on active_thread_counter, sending Close, and only then cleans up" if ok2 else "drop does not wait for the worker threads (counter loop with Close messages) before cleaning up")
        # the wait loop must not block on the queue whose only consumers are the threads it waits for
        blocking = [b for b in snd if A.cname(dd.term(b)).endswith("::send") and A.in_cycle(dd, b)]
        nonblock = [b for b, t in dd.calls() if A.cname(t).startswith("flume::Sender") and A.cname(t).endswith("::try_send") and A.in_cycle(dd, b)]
        ctx.ob("R-C17.4", dd, "wait-loop-never-blocks-on-worker-queue", not blocking and bool(nonblock + blocking),
               "Close messages are offered with try_send: the loop keeps polling the thread counter" if (not blocking and nonblock)
               else "the wait loop uses the BLOCKING flume::Sender::send on the bounded worker queue: when the queue is full and the last worker exits between the counter check and the send, nobody receives any more and drop never returns (observed as hanging drops under CPU load)",
               dd.loc(blocking[0]) if blocking else "")
        # ... and a FULL queue is emptied: a worker that is itself sending into the queue (re-queued compaction, flush wake-up) blocks
        # on a queue full of close messages, never receives one, and the counter never reaches zero
        ts = [b for b, t in dd.calls() if A.cname(t).endswith("Sender::<T>::try_send") and A.in_cycle(dd, b)]
        okf = False
        for b in ts:
            rf = A.result_flow(dd, b)
            drains_in_loop = [x for x, t in dd.calls() if A.cname(t).endswith("Receiver::<T>::drain") and A.in_cycle(dd, x)]
            if rf.err_blocks and drains_in_loop and any(d in A.reach(dd, rf.err_blocks) for d in drains_in_loop):
                okf = True
            else:
                # `if try_send(..).is_err() { drain }`
                ie = [x for x, t in dd.calls() if A.cname(t).endswith(("Result::<T, E>::is_err", "Result::<T, E>::is_ok")) and A.in_cycle(dd, x)]
                for c in ie:
                    sw = A.switch_after_call(dd, c)
                    if sw is None:
                        continue
                    z_, t_ = A.bool_edges(dd, sw)
                    failed = z_ if A.cname(dd.term(c)).endswith("is_ok") else t_
                    if any(d in A.reach(dd, list(failed), avoid=ts) for d in drains_in_loop):
                        okf = True
        ctx.ob("R-C17.4", dd, "wait-loop-makes-room-in-a-full-queue", okf,
               "when the close message does not fit, the wait loop drains the queue" if okf else
               "the wait loop ignores a full queue: a worker blocked in its own send into that queue (worker 0 re-queues compaction requests) never gets a close message and the drop of the last handle never returns")
        snd = snd + nonblock
        for name, bs in clears.items():
            # every path to the end of drop passes one of the clear() calls (they may sit in the arms of a match)
            okc = bool(bs) and not any(rb in A.reach(dd, [0], avoid=list(bs)) for rb in dd.return_blocks())
            ctx.ob("R-C17.4", dd, "breaks-cycle-%s" % name, okc, "%s.clear() runs on every path of drop" % name if okc else "%s is not cleared on every path: an Arc cycle keeps the lock guard alive after the last handle is dropped" % name)
    wc = ctx.fn("worker_pool::WorkerPool::start::{closure#0}::{closure#0}", "R-C17.4")
    if wc:
        og = ctx.og(wc)
        # decrement sites: an explicit fetch_sub, or the drop of a local whose Drop impl does the fetch_sub (RAII guard)
        dec = [b for b, t in wc.calls() if A.cname(t) == "std::sync::atomic::Atomic::<usize>::fetch_sub"]
        for b, blk in enumerate(wc.blocks):
            t = blk["t"]
            if t["k"] == "drop" and not blk["cleanup"] and not t["pl"]["p"]:
                dfn = F.fns.get("<%s as std::ops::Drop>::drop" % t["ty"])
                if dfn and any(A.cname(t2) == "std::sync::atomic::Atomic::<usize>::fetch_sub" for _, t2 in dfn.calls()):
                    src = og.of_local(t["pl"]["l"])
                    if any(x.k == "field" and x.a[1] == "thread_counter" for x in A.walk(src)):
                        dec.append(b)
        tick = R.call_blocks(wc, ("worker_pool::worker_tick",))
        ok = oke = False
        if dec and tick:
            rf = A.result_flow(wc, tick[0])
            # on the Ok(true) path (abort requested) the counter is decremented before returning
            r = A.reach(wc, rf.ok_blocks, avoid=dec + tick)
            ok = not [x for x in wc.return_blocks() if x in r]
            # ... and on the Err path (the worker failed and poisoned the database) as well: drop waits on the counter
            re_ = A.reach(wc, rf.err_blocks, avoid=dec + tick)
            oke = bool(rf.err_blocks) and not [x for x in wc.return_blocks() if x in re_]
        ctx.ob("R-C17.4", wc, "worker-decrements-counter-on-stop", ok, "a worker leaving its loop on the stop path decrements active_thread_counter" if ok else "a worker can stop without decrementing active_thread_counter (drop would wait forever)")
        ctx.ob("R-C17.4", wc, "worker-decrements-counter-on-failure", oke, "a worker leaving its loop because worker_tick failed decrements active_thread_counter" if oke
               else "a worker whose tick fails (I/O error in flush/compaction/rotation) returns without decrementing active_thread_counter: DatabaseInner::drop then waits forever for a thread that has already exited")
    if wc:
        # "after the last handle is dropped ... the journal is synced": the journal's final sync runs in the Drop of the last
        # Arc<Journal>, and each worker holds one (WorkerState.supervisor). DatabaseInner::drop returns once the counter is 0,
        # so a worker must let go of its state BEFORE it decrements: the decrement (guard drop / fetch_sub) is the last
        # thing the thread body does — no drop of captured / moved worker state may follow it.
        dec2 = list(dec) if 'dec' in dir() else []
        later = []
        for d in dec2:
            for x in A.reach_after(wc, d):
                t = wc.blocks[x]["t"]
                if t["k"] == "drop" and not wc.blocks[x]["cleanup"] and any(k_ in t.get("ty", "") for k_ in ("WorkerState", "Supervisor", "PoisonDart", "Journal")):
                    later.append((d, x, t.get("ty", "")))
        ctx.ob("R-C17.4", wc, "worker-releases-its-state-before-the-counter-drops", bool(dec2) and not later,
               "the thread-counter decrement is the last drop of the worker body: the worker's Supervisor clone (and with it the journal) is released before DatabaseInner::drop can return" if (dec2 and not later)
               else "the worker decrements active_thread_counter and only THEN drops %s: DatabaseInner::drop can return while a worker still holds the last Arc<Journal>, whose final sync then happens after the database drop returned (observed: 1 of 2,200 drops under strace)" % (later[0][2] if later else "its state"),
               wc.loc(later[0][1]) if later else "")
    ws = ctx.fn("worker_pool::WorkerPool::start", "R-C17.4")
    if ws:
        # the counter must equal the number of threads that really run: it is raised by one per spawn ATTEMPT (inside
        # the per-thread closure, before the spawn) and taken back by one when that spawn fails. A bulk `+= pool_size`
        # up front leaves the never-attempted threads counted when a spawn fails: the drop of the failed open spins.
        FADD, FSUB = "std::sync::atomic::Atomic::<usize>::fetch_add", "std::sync::atomic::Atomic::<usize>::fetch_sub"
        bulk = [b for b, t in ws.calls() if A.cname(t) == FADD]
        per = [f for fid2, f in F.fns.items() if fid2.startswith(ws.id + "::{closure") and fid2.count("{closure") == 1]
        ok, detail = False, "no per-thread closure with a spawn found"
        for c in per:
            sp = [b for b, t in c.calls() if A.cname(t).endswith("Builder::spawn") or A.cname(t).endswith("thread::spawn")]
            if not sp:
                continue
            og2 = ctx.og(c)
            add = [b for b, t in c.calls() if A.cname(t) == FADD and any(x.k == "const" and x.a[:2] == ("int", 1) for x in A.walk(og2.of_operand(t["args"][1])))]
            before = bool(add) and all(A.dominates(c, add[0], b) for b in sp)
            # the give-back lives in the error adaptor of the spawn result
            back = [f for fid3, f in F.fns.items() if fid3.startswith(c.id + "::{closure") and
                    any(A.cname(t) == FSUB and any(x.k == "const" and x.a[:2] == ("int", 1) for x in A.walk(ctx.og(f).of_operand(t["args"][1]))) for _, t in f.calls())]
            adaptor = any(A.cname(t).endswith(("::inspect_err", "::map_err")) for _, t in c.calls())
            ok = before and len(add) == 1 and bool(back) and adaptor and not bulk
            detail = "one count per spawn attempt, before the spawn; given back when that spawn fails; no bulk raise" if ok else \
                "per-attempt raise before the spawn: %s; given back on a failed spawn: %s; bulk raise in start(): %d — when a spawn fails the counter stays above the number of running threads and DatabaseInner::drop (run by the failing open) waits forever" % (before, bool(back) and adaptor, len(bulk))
            break
        ctx.ob("R-C17.4", ws, "counter-counts-exactly-the-threads-that-run", ok, detail)
        gd = ctx.fn("<worker_pool::ThreadCounterGuard as std::ops::Drop>::drop", "R-C17.4")
        if gd:
            subs = [ctx.og(gd).of_operand(t["args"][1]) for _, t in gd.calls() if A.cname(t) == FSUB]
            okg = len(subs) == 1 and subs[0].k == "const" and subs[0].a[:2] == ("int", 1)
            ctx.ob("R-C17.4", gd, "a-leaving-worker-takes-back-exactly-one", okg, "the guard's drop is counter -= 1" if okg else
                   "the worker's counter guard subtracts %s: the counter reaches zero before every worker has left (or wraps and never does)" % [A.tstr(x) for x in subs])

    # ---- R-C17.4 (cont.) what drop calls to break the cycles actually empties the containers that hold keyspace handles
    jmc = ctx.fn("journal::manager::JournalManager::clear", "R-C17.4")
    if jmc:
        ogj = ctx.og(jmc)
        okc = any(A.cname(t).endswith("Vec::<T, A>::clear") and any(x.k == "field" and x.a[1] == "items" for x in A.walk(ogj.of_operand(t["args"][0]))) for b, t in jmc.calls()) \
            or bool(A.field_assigns(jmc, "items"))
        ctx.ob("R-C17.4", jmc, "journal-manager-clear-empties-the-sealed-journal-list", okc,
               "JournalManager::clear drops every sealed-journal item (and the keyspace handles in their watermarks)" if okc else
               "JournalManager::clear leaves the sealed-journal items in place: their watermarks hold keyspace handles (supervisor -> journal manager -> item -> keyspace -> supervisor), so the lock guard outlives the last handle and every later open returns Locked")
    fmc = ctx.fn("flush::manager::FlushManager::clear", "R-C17.4")
    if fmc:
        okc = any(A.cname(t).endswith("Receiver::<T>::drain") for b, t in fmc.calls()) and any(A.cname(t).endswith("::count") or A.cname(t).endswith("::for_each") or A.cname(t).endswith("::collect") or "drop" in A.cname(t) for b, t in fmc.calls())
        ctx.ob("R-C17.4", fmc, "flush-manager-clear-drains-the-queue", okc,
               "FlushManager::clear drains (and consumes) the task queue" if okc else "FlushManager::clear does not consume the queued tasks (a lazy drain() that is never iterated removes nothing): queued tasks keep their keyspace handles alive")

    # ---- R-C17.5 a handle that outlives the database cannot re-create the ownership cycle that DatabaseInner::drop broke.
    # Queued worker messages and flush tasks own keyspace handles; a keyspace handle owns the database lock.  If a handle
    # (strongly) owns a queue whose items own handles, a message queued AFTER the drop drained the queues keeps the lock
    # alive forever: handle -> queue -> message -> handle.  So: (a) no strong flume::Sender whose item type owns a Keyspace
    # is owned by KeyspaceInner, except (b) the flush queue, which refuses tasks once the drop has cleared it.
    owns = _ownership_closure(F, "keyspace::KeyspaceInner")
    n_send = 0
    for adt, fld, ty in owns:
        for snd in _senders_in(ty):
            item_owns_handle = "keyspace::Keyspace" in snd or any("keyspace::Keyspace" in t_ for a_, f_, t_ in _ownership_closure(F, None, seed_ty=snd))
            if not item_owns_handle:
                continue
            n_send += 1
            closable = adt == "flush::manager::FlushManager"
            ctx.ob("R-C17.5", adt, "strong-sender-%s-owned-by-keyspace-handles" % fld, closable,
                   "%s.%s : %s is the flush queue, closed by DatabaseInner::drop (see refuses-after-clear)" % (adt, fld, ty) if closable else
                   "%s.%s : %s — every Keyspace handle strongly owns a queue whose items own Keyspace handles: a message queued through a handle that outlives the database (a writer racing the drop, a rotation through the surviving handle) is never consumed and keeps handle, lock file and journal alive: every later open of the directory fails with Locked" % (adt, fld, ty),
                   nontrivial=True)
    ctx.floor("R-C17.5", "strong senders of handle-owning items reachable from KeyspaceInner", n_send, 1)
    fm_clear = ctx.fn("flush::manager::FlushManager::clear", "R-C17.5")
    fm_enq = ctx.fn("flush::manager::FlushManager::enqueue", "R-C17.5")
    if fm_clear and fm_enq:
        st = [b for b, t in fm_clear.calls() if A.cname(t) == "std::sync::atomic::Atomic::<bool>::store" and (t["args"][1].get("const") or {}).get("val") is True]
        dr = [b for b, t in fm_clear.calls() if A.cname(t).endswith("Receiver::<T>::drain")]
        ok = bool(st) and bool(dr) and all(A.dominates(fm_clear, st[0], d) for d in dr)
        ctx.ob("R-C17.5", fm_clear, "clear-closes-before-draining", ok, "FlushManager::clear sets the closed flag, then drains" if ok else
               "FlushManager::clear does not close the queue before draining it: a task enqueued right after the drain is never dequeued and keeps its keyspace handle (and the database lock) alive")
        loads = [b for b, t in fm_enq.calls() if A.cname(t) == "std::sync::atomic::Atomic::<bool>::load"]
        sends = [b for b, t in fm_enq.calls() if A.cname(t).endswith("Sender::<T>::send")]
        ok = False
        detail = "FlushManager::enqueue does not consult the closed flag"
        if loads and sends:
            first = [l for l in loads if A.dominates(fm_enq, l, sends[0])]
            after = [l for l in loads if A.dominates(fm_enq, sends[0], l)]
            ok1 = False
            for l in first:
                sw = A.switch_after_call(fm_enq, l)
                if sw is not None:
                    zero, true_t = A.bool_edges(fm_enq, sw)
                    ok1 = ok1 or (bool(true_t) and sends[0] not in A.reach(fm_enq, true_t))
            ok2 = False
            drains = [b for b, t in fm_enq.calls() if A.cname(t).endswith("Receiver::<T>::drain")]
            for l in after:
                sw = A.switch_after_call(fm_enq, l)
                if sw is not None:
                    zero, true_t = A.bool_edges(fm_enq, sw)
                    r = A.reach(fm_enq, true_t, avoid=drains)
                    ok2 = ok2 or (bool(drains) and not [x for x in fm_enq.return_blocks() if x in r])
            ok = ok1 and ok2
            detail = "enqueue refuses on a closed queue, and re-checks after sending (a close in between drains the task again)" if ok else \
                ("enqueue sends although the queue is closed" if not ok1 else "enqueue does not re-check the closed flag after sending: a clear() between the check and the send leaves the task (and its keyspace handle) in the queue forever")
        ctx.ob("R-C17.5", fm_enq, "refuses-after-clear", ok, detail)

    # ---- R-C17.6 a populated folder without version marker is refused, not initialised on top: Database::create_new is reached
    # only when the folder holds nothing of a database (lock file, keyspaces folder, journal)
    cor = ctx.fn("db::Database::create_or_recover", "R-C17.6")
    if cor:
        cn = R.call_blocks(cor, ("db::Database::create_new",))
        hd = R.call_blocks(cor, ("db::Database::holds_database_files",))
        ok = False
        detail = "create_or_recover never asks whether the folder already holds database files before it calls create_new"
        if cn and hd and all(A.dominates(cor, hd[0], c) for c in cn):
            rf = A.result_flow(cor, hd[0])
            okb = list(rf.ok_blocks) or cor.succs(hd[0])
            # the bool payload is switched on: find the first bool switch after the call
            sw = None
            for x in sorted(A.reach(cor, okb)):
                t_ = cor.term(x)
                if t_["k"] == "switch" and t_.get("dty") == "bool":
                    tm = ctx.og(cor).of_operand(t_["d"])
                    if any(y.k == "call" and y.a[0] == "db::Database::holds_database_files" for y in A.walk(tm)):
                        sw = x
                        break
            if sw is not None:
                zero, true_t = A.bool_edges(cor, sw)
                # on the "holds files" edge create_new may be reached only through the "this is an interrupted first creation"
                # answer (repair 34): everything else that holds files is refused
                ic = [b for b, t in cor.calls() if A.cname(t) == "db::Database::is_interrupted_creation"]
                gate = []
                for icb in ic:
                    for x in sorted(A.reach(cor, cor.succs(icb))):
                        t_ = cor.term(x)
                        if t_["k"] == "switch" and t_.get("dty") == "bool" and any(y.k == "call" and y.a[0] == "db::Database::is_interrupted_creation" for y in A.walk(ctx.og(cor).of_operand(t_["d"]))):
                            tm2, neg2 = A.strip_not(ctx.og(cor).of_operand(t_["d"]))
                            z2, t2 = A.bool_edges(cor, x)
                            gate.append((x, list(t2 if neg2 else z2)))   # (switch, its "NOT interrupted" edge)
                            break
                not_interrupted = [e for _, es in gate for e in es]
                reach_true = A.reach(cor, true_t, avoid=[g for g, _ in gate])
                ok = bool(true_t) and not any(c in reach_true for c in cn) and not any(c in A.reach(cor, rf.err_blocks) for c in cn) \
                    and not any(c in A.reach(cor, not_interrupted) for c in cn)
                detail = "create_new is reached only where holds_database_files() answered false, or the folder is an interrupted first creation" if ok else "create_new is reachable although holds_database_files() answered true (or failed) and the folder is not an interrupted first creation"
        ctx.ob("R-C17.6", cor, "populated-folder-without-marker-is-not-initialised", ok,
               detail if ok else detail + ": a database folder whose version marker went missing is initialised as a NEW database on top of the existing files (new journal, new marker, the old keyspaces no longer listed)",
               cor.loc(cn[0]) if cn else "")
        # ... and on that refusing edge a HELD lock is reported as a lock error first: a second opener can arrive while the first
        # instance is still inside create_new (lock taken, marker not yet written)
        if cn and hd:
            inv = [b for b, blk in enumerate(cor.blocks) if not blk["cleanup"] for st_ in blk["s"]
                   if st_["rv"]["k"] == "agg" and st_["rv"].get("adt") == "error::Error" and st_["rv"].get("variant") == "InvalidVersion"]
            probes = R.call_blocks(cor, LOCK_FNS)
            # (no lock file, nothing to probe: the existence test of the lock file is the one way around the probe)
            exists = [b_ for b_, t_ in cor.calls() if A.cname(t_) == "std::path::Path::try_exists" and A.dominates(cor, hd[0], b_)]
            okp = bool(inv) and bool(probes) and all(any(A.dominates(cor, pb_, i_) for pb_ in probes) or
                                                     (exists and i_ not in A.reach(cor, cor.succs(hd[0]), avoid=probes + exists)) for i_ in inv)
            if okp:
                rfp = A.result_flow(cor, probes[0])
                okp = bool(rfp.returned or rfp.err_blocks) and not rfp.swallowed
            ctx.ob("R-C17.6", cor, "held-lock-reported-before-the-markerless-folder-is-refused", okp,
                   "the lock is probed (and a held lock returned as the error) before InvalidVersion is answered" if okp else
                   "a marker-less folder that holds database files is refused with InvalidVersion without looking at the lock: a second opener racing a creation (lock held, marker not yet written) does not get the lock error the property promises")
    iic = ctx.fn("db::Database::is_interrupted_creation", "R-C17.6")
    if iic:
        ogi = ctx.og(iic)
        false_ret = [b for b, blk in enumerate(iic.blocks) if not blk["cleanup"] for st_ in blk["s"]
                     if st_["rv"]["k"] == "agg" and st_["rv"].get("variant") == "Ok" and any((o.get("const") or {}).get("val") is False for o in st_["rv"]["ops"])]
        # (a) a keyspaces folder with ANY entry is not an interrupted creation: a second read_dir whose first next() being Some answers false
        rds = [b for b, t in iic.calls() if A.cname(t) == "std::fs::read_dir"]
        oka = False
        for cc, tt in iic.calls():
            if not A.cname(tt).endswith(("Option::<T>::is_some", "Option::<T>::is_none")):
                continue
            recv = ogi.of_operand(tt["args"][0])
            # the emptiness test reads the keyspaces folder itself: next() of a read_dir of the entry's own path
            inner = any(x.k == "call" and x.a[0] == "std::fs::read_dir" and any(y.k == "call" and y.a[0] == "std::fs::DirEntry::path" for y in A.walk(x)) for x in A.walk(recv))
            s2 = A.switch_after_call(iic, cc)
            if not inner or s2 is None:
                continue
            z_, t_ = A.bool_edges(iic, s2)
            has_entry = z_ if A.cname(tt).endswith("is_none") else t_
            oka = oka or any(fr in A.reach(iic, list(has_entry), avoid=[b for b, t in iic.calls() if A.cname(t).endswith("Iterator>::next") and b != cc]) for fr in false_ret)
        # (b) a journal that is not the first one: the comparison with the first journal's name decides
        cs = _string_consts(F, iic)
        okb = "jnl" in cs and any(c.endswith(".jnl") for c in cs) and bool(false_ret)
        ctx.ob("R-C17.6", iic, "interrupted-creation-means-empty-keyspaces-folder-and-first-journal-only", bool(oka and okb and len(rds) >= 2),
               "a non-empty keyspaces folder, or a journal other than the first, makes the folder a database (refused), not an interrupted creation" if (oka and okb) else
               "is_interrupted_creation does not rule out %s: a real database whose marker went missing would be taken for an interrupted creation, and create_new would delete its first journal and start over on top of it" % (
                   "a non-empty keyspaces folder" if not oka else "later journals"))
    cnf6 = ctx.fn("db::Database::create_new", "R-C17.6")
    if cnf6:
        og6 = ctx.og(cnf6)
        rm = [b for b, t in cnf6.calls() if A.cname(t) in ("std::fs::remove_file", "std::fs::remove_dir_all")]
        icb = [b for b, t in cnf6.calls() if A.cname(t) == "db::Database::is_interrupted_creation"]
        locks = R.call_blocks(cnf6, LOCK_FNS)
        okg = True
        detailg = "create_new removes nothing"
        if rm:
            okg = False
            detailg = "create_new removes a file without asking whether the folder is an interrupted first creation"
            for ib in icb:
                rfi = A.result_flow(cnf6, ib)
                for x in sorted(A.reach(cnf6, cnf6.succs(ib))):
                    t_ = cnf6.term(x)
                    if t_["k"] == "switch" and t_.get("dty") == "bool" and any(y.k == "call" and y.a[0] == "db::Database::is_interrupted_creation" for y in A.walk(og6.of_operand(t_["d"]))):
                        tm_, neg_ = A.strip_not(og6.of_operand(t_["d"]))
                        z_, tt_ = A.bool_edges(cnf6, x)
                        no_edge = tt_ if neg_ else z_
                        okg = all(A.dominates(cnf6, ib, r_) for r_ in rm) and not any(r_ in A.reach(cnf6, list(no_edge)) for r_ in rm) \
                            and bool(locks) and all(A.dominates(cnf6, locks[0], r_) for r_ in rm)
                        detailg = "the leftover journal is removed only under the lock and only where is_interrupted_creation() answered true" if okg else \
                            "create_new can remove a journal file although the folder is NOT an interrupted first creation (or before the lock is held): a real database's first journal would be deleted"
                        break
        ctx.ob("R-C17.6", cnf6, "create-new-removes-only-an-interrupted-creations-journal", okg, detailg, cnf6.loc(rm[0]) if rm else "")
        # a folder that already has a marker is refused before anything is created or removed
        ex = [b for b, t in cnf6.calls() if A.cname(t) == "std::path::Path::try_exists" and any("version" in str(c).lower() for c in _string_consts_of_term(og6.of_operand(t["args"][0])))]
        muts = [b for b, t in cnf6.calls() if A.cname(t) in ("std::fs::remove_file", "std::fs::File::create", "std::fs::rename", "journal::Journal::create_new") or (A.cname(t) == "std::fs::create_dir_all" and locks and A.dominates(cnf6, locks[0], b))]
        okm = bool(ex) and all(any(A.dominates(cnf6, e, m_) for e in ex) for m_ in muts)
        ctx.ob("R-C17.6", cnf6, "existing-marker-refused-before-anything-is-touched", okm,
               "create_new looks for an existing version marker (under the lock) before it creates or removes anything" if okm else
               "create_new creates / removes files without first refusing a folder that already has a version marker: called on an existing database it would start over on top of it")
    hdf = ctx.fn("db::Database::holds_database_files", "R-C17.6")
    if hdf:
        cs = _string_consts(F, hdf)
        # what Database::create_new lays out (names taken from create_new itself, not from this rule)
        cnf = ctx.fn("db::Database::create_new", "R-C17.6")
        laid = {}
        if cnf:
            ogc = ctx.og(cnf)
            for b, t in cnf.calls():
                n = A.cname(t)
                role = "lock" if n == "locked_file::LockedFileGuard::create_new" else "journal" if n == "journal::Journal::create_new" else \
                    "folder" if n == "std::fs::create_dir_all" else None
                if role and t["args"]:
                    for c in A.consts_in(ogc.of_operand(t["args"][0])):
                        v = _const_str(c)
                        if v:
                            laid.setdefault(role, set()).add(v.rsplit(".", 1)[-1] if role == "journal" else v)
        # each name must DECIDE: a switch on a comparison mentioning it whose true edge answers Ok(true)
        ogh = ctx.og(hdf)
        true_ret = [b for b, blk in enumerate(hdf.blocks) if not blk["cleanup"] for st_ in blk["s"]
                    if st_["rv"]["k"] == "agg" and st_["rv"].get("variant") == "Ok" and any((o.get("const") or {}).get("val") is True for o in st_["rv"]["ops"])]
        deciding = {}
        decisions = []
        for b, blk in enumerate(hdf.blocks):
            t_ = blk["t"]
            if blk["cleanup"] or t_["k"] != "switch" or t_.get("dty") != "bool":
                continue
            tm = ogh.of_operand(t_["d"])
            names_here = set()
            for x in A.walk(tm):
                if x.k == "const":
                    v = _const_str(x.a)
                    if v:
                        names_here.add(v)
                if x.k == "closure":
                    g_ = F.fns.get(x.a[0])
                    if g_:
                        names_here |= _string_consts(F, g_)
            zero, true_t = A.bool_edges(hdf, b)
            neg = False
            while tm.k == "un" and tm.a[0] == "Not":
                neg = not neg
                tm = tm.a[1]
            if tm.k == "call" and str(tm.a[0]).endswith("::ne"):
                neg = not neg  # `name != X` is true for everything BUT X
            yes = zero if neg else true_t
            decisions.append((b, yes, names_here))
        dec_blocks = [d[0] for d in decisions]
        for b, yes, names_here in decisions:
            # the name decides ALONE: its "equal" edge answers Ok(true) without needing another comparison to agree (`||`, not `&&`)
            if any(tr in A.reach(hdf, yes, avoid=[x for x in dec_blocks if x != b]) for tr in true_ret):
                for nm in names_here:
                    deciding[nm] = True
        for _ in ():
            if False:
                for nm in ():
                    deciding[nm] = True
        need = {}
        for role, names in laid.items():
            for nm in names:
                need["%s:%s" % (role, nm)] = nm in cs and deciding.get(nm, False)
        ok = all(need.values()) and len(laid) >= 3 and bool(true_ret)
        ctx.ob("R-C17.6", hdf, "recognises-lock-keyspaces-and-journals", ok,
               "the lock file, the keyspaces folder and *.jnl files count as database files" if ok else "not recognised as database files: %s" % ", ".join(k for k, v in need.items() if not v))

    # ---- R-C17.10 "opening succeeds": recovery hands the leftover work to the workers only after they were started, and not under
    # the keyspaces lock — the queues are bounded and nobody receives before the pool runs
    rec10 = ctx.fn("db::Database::recover", "R-C17.10")
    if rec10:
        st10 = R.call_blocks(rec10, ("worker_pool::WorkerPool::start",))
        q10 = [b for b, t in rec10.calls() if A.cname(t).endswith(("Sender::<T>::send",)) or A.cname(t) == "flush::manager::FlushManager::enqueue"]
        ok10 = bool(st10) and bool(q10) and all(A.dominates(rec10, st10[0], b) for b in q10)
        ctx.ob("R-C17.10", rec10, "leftover-work-queued-after-the-workers-started", ok10,
               "WorkerPool::start dominates every blocking send / flush-queue enqueue of Database::recover" if ok10 else
               "Database::recover sends into the bounded worker / flush queue before the worker pool is started: with more keyspaces needing a flush or compaction than the queue has slots (1000) the open blocks forever, holding the database lock")
    # ---- R-C17.11 a temporary database's folder is removed by the LAST holder of the lock, while the lock is still held
    gd = ctx.fn("<locked_file::LockedFileGuardInner as std::ops::Drop>::drop", "R-C17.11")
    if gd:
        rmd = [b for b, t in gd.calls() if A.cname(t) == "std::fs::remove_dir_all"]
        ul = [b for b, t in gd.calls() if A.cname(t) == "std::fs::File::unlock"]
        ok11 = bool(ul) and all(b not in A.reach_after(gd, u) for b in rmd for u in ul)
        ctx.ob("R-C17.11", gd, "temporary-folder-removed-before-the-lock-is-released", ok11,
               "remove_dir_all (if requested) runs before File::unlock" if ok11 else "the folder is removed AFTER the lock was released: a second opener can create its database in between and lose it")
    dd11 = ctx.fn("<db::DatabaseInner as std::ops::Drop>::drop", "R-C17.11")
    if dd11:
        direct = [b for b, t in dd11.calls() if A.cname(t) in ("std::fs::remove_dir_all", "std::fs::remove_dir", "std::fs::remove_file")]
        via = [b for b, t in dd11.calls() if A.cname(t) == "locked_file::LockedFileGuard::remove_folder_on_release"]
        ctx.ob("R-C17.11", dd11, "database-drop-leaves-the-folder-to-the-lock-guard", not direct and bool(via),
               "DatabaseInner::drop only registers the folder for removal with the lock guard" if (not direct and via) else
               "DatabaseInner::drop removes the folder of a temporary database itself: keyspace handles that outlive the database still hold the lock on the unlinked lock file, a second open of the path succeeds, and the stale handle's drop later deletes files of the new instance")
        # ---- R-C17.12 "background threads have stopped": drop joins the worker threads after they left their loops
        jn = R.call_blocks(dd11, ("worker_pool::WorkerPool::join",))
        cnt = [b for b, t in dd11.calls() if A.cname(t) == "std::sync::atomic::Atomic::<usize>::load"]
        ok12 = bool(jn) and bool(cnt) and all(j_ in A.reach_after(dd11, c_) for j_ in jn for c_ in cnt) and not any(A.in_cycle(dd11, j_) for j_ in jn)
        ctx.ob("R-C17.12", dd11, "drop-joins-the-worker-threads", ok12,
               "after the wait loop, DatabaseInner::drop joins the worker threads" if ok12 else
               "DatabaseInner::drop does not join the worker threads (it waits for a counter each worker decrements while still running): threads can be alive when the drop of the last handle returns")
    wj = ctx.fn("worker_pool::WorkerPool::join", "R-C17.12")
    if wj:
        cur = [b for b, t in wj.calls() if A.cname(t) == "std::thread::current"]
        jh = [b for b, t in wj.calls() if A.cname(t) == "std::thread::JoinHandle::<T>::join"]
        ctx.ob("R-C17.12", wj, "join-waits-for-every-other-thread", bool(jh) and bool(cur),
               "every stored handle is joined, except the calling thread's own" if (jh and cur) else "WorkerPool::join does not join the stored handles (or would join the calling thread itself)")

    # ---- R-C17.13 the lock guard is the LAST field to be dropped.  Rust drops fields in declaration order; a handle whose drop
    # is the last one of the instance releases the lock only after everything that still writes to the folder (the supervisor
    # with the journal — its Drop flushes and syncs —, the tree, the worker pool) is gone.
    for adt_id, owners in (("keyspace::KeyspaceInner", ("supervisor", "tree")), ("db::DatabaseInner", ("supervisor", "worker_pool", "meta_keyspace"))):
        adt = F.adts.get(adt_id)
        if not adt:
            ctx.ob("R-C17.13", adt_id, "anchor-present", False, "struct %s not found" % adt_id, kind="anchor")
            continue
        names = [f["n"] for f in adt["variants"][0]["fields"]]
        lock = [i for i, f in enumerate(adt["variants"][0]["fields"]) if "LockedFileGuard" in f["ty"]]
        late = [n for n in owners if n in names and lock and names.index(n) > lock[0]]
        ok = bool(lock) and not late
        ctx.ob("R-C17.13", adt_id, "lock-guard-declared-after-what-writes-to-the-folder", ok,
               "%s: the lock guard field is declared (= dropped) after %s" % (adt_id, ", ".join(owners)) if ok else
               "%s declares its lock guard BEFORE %s: when such a handle is the last of the instance, the directory lock is released first and the journal is flushed / synced afterwards — a second opener gets in while the previous instance has not written out its journal yet" % (adt_id, ", ".join(late) or "?"))

    # ---- R-C17.14 the version byte: the writer's and the reader's tables are inverse to each other, the header is
    #      magic + table byte, and a new database is stamped with the version check_version accepts
    version_tables(ctx, "R-C17.14")

    # ---- R-C17.15 a documented argument panic of a Database method fires BEFORE the keyspaces write lock is taken: a panic
    #      under that lock poisons it, DatabaseInner::drop then panics half-way (it `expect`s the lock) and the folder
    #      lock is never released in this process
    argument_panics_before_the_lock(ctx, "R-C17.15")

    # ---- R-C17.16 the database drop takes its locks poison-tolerantly: a panic under the keyspaces / journal-manager lock
    #      (the options closure of Database::keyspace runs under it) must not make the drop panic before it has broken
    #      the handle cycles — the keyspace handles kept alive by them hold the folder lock
    dd16 = ctx.fn("<db::DatabaseInner as std::ops::Drop>::drop", "R-C17.16")
    if dd16:
        og16 = ctx.og(dd16)
        LOCKS = ("std::sync::RwLock::<T>::write", "std::sync::RwLock::<T>::read", "std::sync::Mutex::<T>::lock")
        acq = [b for b, t in dd16.calls() if A.cname(t) in LOCKS]
        bad = []
        for b, t in dd16.calls():
            n = A.cname(t)
            if n.endswith(("Result::<T, E>::expect", "Result::<T, E>::unwrap")) and any(x.k == "call" and x.a[0] in LOCKS for x in A.walk(og16.of_operand(t["args"][0]))):
                bad.append(b)
        ctx.ob("R-C17.16", dd16, "drop-does-not-panic-on-a-poisoned-lock", not bad and len(acq) >= 2,
               "%d lock acquisitions in drop, none unwrapped with expect/unwrap" % len(acq) if (not bad and len(acq) >= 2) else
               "DatabaseInner::drop unwraps a lock result with expect/unwrap (%d site(s), %d acquisitions): after a panic under that lock the drop panics before it clears the keyspaces map, the handle cycles stay, and the folder can never be opened again in this process" % (len(bad), len(acq)),
               dd16.loc(bad[0]) if bad else "")

    # ---- cross-cutting disciplines (rules/discipline.py)
    from .. import discipline as D
    # open/lock/marker errors surface
    D.error_discipline(ctx, "R-C17.8", scope=lambda f: f.startswith(("db::Database::create", "db::Database::recover", "db::Database::check_version", "db::Database::holds", "db::Database::is_interrupted", "version::", "locked_file::", "<locked_file::", "<db::DatabaseInner")))
    # every directory entry is looked at
    D.loops_visit_all(ctx, "R-C17.9", only=("db::Database::holds_database_files",))

    # ---- borrowed obligations (mechanisms owned by other properties that this property's verdict also rests on)
    # after the last handle is dropped the journal is synced — sealed journals at seal time, the active one at drop
    ctx.borrow("C09", ["R-C09.4", "R-C09.6"], "R-C17.7")


def _strip_weak(ty):
    """remove Weak<..> / WeakSender<..> sub-terms (they do not own)"""
    out = ty
    for head in ("std::sync::Weak<", "flume::WeakSender<", "std::rc::Weak<"):
        while head in out:
            i = out.index(head)
            j = i + len(head)
            depth = 1
            while j < len(out) and depth:
                depth += out[j] == "<"
                depth -= out[j] == ">"
                j += 1
            out = out[:i] + "()" + out[j:]
    return out


def _senders_in(ty):
    """item types X of every strong flume::Sender<X> inside the type string"""
    out = []
    ty = _strip_weak(ty)
    head = "flume::Sender<"
    k = 0
    while head in ty[k:]:
        i = ty.index(head, k)
        j = i + len(head)
        depth = 1
        while j < len(ty) and depth:
            depth += ty[j] == "<"
            depth -= ty[j] == ">"
            j += 1
        out.append(ty[i + len(head):j - 1])
        k = j
    return out


def _ownership_closure(F, root, seed_ty=None):
    """(adt, field, type) triples owned (strongly) from ADT `root`, following crate ADTs named inside field types"""
    import re
    seen = set()
    out = []
    work = []
    if root:
        work.append(root)
    if seed_ty:
        work += [n for n in re.findall(r"[A-Za-z_][A-Za-z0-9_]*(?:::[A-Za-z_][A-Za-z0-9_]*)+", _strip_weak(seed_ty)) if n in F.adts]
        if seed_ty in F.adts:
            work.append(seed_ty)
    while work:
        a = work.pop()
        if a in seen or a not in F.adts:
            continue
        seen.add(a)
        for v in F.adts[a]["variants"]:
            for f in v["fields"]:
                ty = _strip_weak(f["ty"])
                out.append((a, f["n"], ty))
                for n in re.findall(r"[A-Za-z_][A-Za-z0-9_]*(?:::[A-Za-z_][A-Za-z0-9_]*)+", ty):
                    if n in F.adts and n not in seen:
                        work.append(n)
    return out


def _const_str(c):
    if isinstance(c, (list, tuple)) and len(c) == 2:
        if c[0] == "str":
            return c[1]
        if c[0] == "bytes":
            try:
                return bytes(c[1]).decode()
            except Exception:
                return None
    return None


def _string_consts(F, fn):
    """string constants mentioned by fn and its closures"""
    out = set()
    fns = [fn] + [g for gid, g in F.fns.items() if gid.startswith(fn.id + "::{closure")]
    for g in fns:
        og = A.Origins(g)
        for b, t in g.calls():
            for a in t["args"]:
                for c in A.consts_in(og.of_operand(a)):
                    v = _const_str(c)
                    if v:
                        out.add(v)
        for blk in g.blocks:
            for st_ in blk["s"]:
                for c in A.consts_in(og.of_rvalue(st_["rv"])):
                    v = _const_str(c)
                    if v:
                        out.add(v)
    return out


def _string_consts_of_term(term):
    out = set()
    for c in A.consts_in(term):
        v = _const_str(c)
        if v:
            out.add(v)
        elif isinstance(c, (list, tuple)) and len(c) == 2 and c[0] == "def":
            out.add(str(c[1]))
    return out


def version_tables(ctx, rule):
    F = ctx.F
    enc_fn = ctx.fn("version::<impl std::convert::From<version::FormatVersion> for u8>::from", rule)
    dec_fn = ctx.fn("<version::FormatVersion as std::convert::TryFrom<u8>>::try_from", rule)
    enc, dec = {}, {}
    if enc_fn:
        sws = [b for b, blk in enumerate(enc_fn.blocks) if blk["t"]["k"] == "switch"]
        if len(sws) == 1:
            _, labels = A.switch_info(enc_fn, sws[0])
            for tgt, names in labels.items():
                vals = {st["rv"]["a"]["const"]["val"] for st in enc_fn.blocks[tgt]["s"]
                        if st["p"]["l"] == 0 and not st["p"]["p"] and st["rv"]["k"] == "use" and "const" in st["rv"]["a"]}
                for nm in names:
                    enc[nm] = vals.pop() if len(vals) == 1 else None
    if dec_fn:
        sws = [b for b, blk in enumerate(dec_fn.blocks) if blk["t"]["k"] == "switch"]
        if len(sws) == 1:
            t = dec_fn.blocks[sws[0]]["t"]
            for v, tgt in t["vs"]:
                var = None
                for x in A.reach(dec_fn, [tgt]):
                    for st in dec_fn.blocks[x]["s"]:
                        if st["rv"]["k"] == "agg" and st["rv"].get("adt") == "version::FormatVersion":
                            var = st["rv"].get("variant") if var in (None, st["rv"].get("variant")) else "<several>"
                dec[v] = var
            # the otherwise edge must not produce a version
            other = [x for x in dec_fn.succs(sws[0]) if x not in [tg for _, tg in t["vs"]]]
            for o in other:
                for x in A.reach(dec_fn, [o]):
                    for st in dec_fn.blocks[x]["s"]:
                        if st["rv"]["k"] == "agg" and st["rv"].get("adt") == "version::FormatVersion":
                            dec["<any other byte>"] = st["rv"].get("variant")
    fv = F.adts.get("version::FormatVersion")
    variants = [v["n"] for v in fv["variants"]] if fv else []
    inv = {v: k for k, v in enc.items()}
    ok = bool(variants) and set(enc) == set(variants) and None not in enc.values() and len(inv) == len(enc) and dec == inv
    ctx.ob(rule, enc_fn or "version::FormatVersion", "byte-tables-are-inverse", ok,
           "u8::from = %s, try_from = its inverse and nothing else" % enc if ok else
           "writer table %s vs reader table %s (variants %s): a version written by one is read as another / a foreign byte is accepted" % (enc, dec, variants))
    wh = ctx.fn("version::FormatVersion::write_file_header", rule)
    if wh and enc_fn:
        og = ctx.og(wh)
        magic = [b for b, t in wh.calls() if A.cname(t).endswith("::write_all") and any(
            x.k == "const" and ((x.a[0] == "bytes" and tuple(x.a[1]) == (70, 74, 76)) or (x.a[0] == "def" and "MAGIC_BYTES" in str(x.a[1])))
            for a in t["args"] for x in A.walk(og.of_operand(a)))]
        # the table is consulted either directly (`u8::from(self)`) or through the blanket `Into` (`self.into()`)
        tab = [(b, t) for b, t in wh.calls() if A.cname(t) == enc_fn.id or
               (A.cname(t).endswith("::into") and wh.local_ty(t["dest"]["l"]) == "u8" and t["args"] and
                "FormatVersion" in wh.local_ty(((t["args"][0].get("move") or t["args"][0].get("copy") or {}).get("l", 0))))]
        wr = [(b, t) for b, t in wh.calls() if A.cname(t).endswith("::write_u8")]
        ok = len(magic) == 1 and len(tab) == 1 and len(wr) == 1
        detail = "write_all(MAGIC)=%d, table call=%d, write_u8=%d" % (len(magic), len(tab), len(wr))
        if ok:
            a1 = wr[0][1]["args"][1]
            pl = a1.get("move") or a1.get("copy") or {}
            cur, hops = pl.get("l"), 0
            while cur is not None and cur != tab[0][1]["dest"]["l"] and hops < 6:
                # follow plain `let byte = <local>` copies back to their source
                defs = [st["rv"]["a"] for blk in wh.blocks if not blk["cleanup"] for st in blk["s"]
                        if st["p"]["l"] == cur and not st["p"]["p"] and st["rv"]["k"] == "use"]
                src = (defs[0].get("move") or defs[0].get("copy")) if len(defs) == 1 else None
                cur = src["l"] if src and not src["p"] else None
                hops += 1
            from_table = cur == tab[0][1]["dest"]["l"] and not pl.get("p")
            self_arg = A.tstr(og.of_operand(tab[0][1]["args"][0])).startswith("P1")
            order = A.dominates(wh, magic[0], wr[0][0]) and A.dominates(wh, tab[0][0], wr[0][0])
            oks = [b for b, blk in enumerate(wh.blocks) if not blk["cleanup"] for st in blk["s"] if st["rv"]["k"] == "agg" and st["rv"].get("variant") == "Ok" and st["p"]["l"] == 0 and not st["p"]["p"]]
            every = bool(oks) and all(A.dominates(wh, wr[0][0], b) for b in oks)
            ok = from_table and self_arg and order and every
            detail = "header = \"FJL\" then u8::from(self), Ok only after both" if ok else \
                "byte written comes from the table: %s (of self: %s); magic first: %s; Ok only after the byte: %s" % (from_table, self_arg, order, every)
        ctx.ob(rule, wh, "header-is-magic-then-table-byte", ok, detail)
    cn = ctx.fn("db::Database::create_new", rule)
    if cn:
        og = ctx.og(cn)
        w = [(b, t) for b, t in cn.calls() if A.cname(t).startswith("version::FormatVersion::write_file_header")]
        names = set()
        for b, t in w:
            names |= A.variants_in(og.of_operand(t["args"][0]), "FormatVersion")
        ok = len(w) == 1 and names == {ACCEPTED_VERSION}
        ctx.ob(rule, cn, "new-database-is-stamped-with-the-accepted-version", ok,
               "create_new writes FormatVersion::%s, the version check_version accepts" % ACCEPTED_VERSION if ok else
               "create_new stamps %s (%d header writes) but check_version accepts only %s: the database cannot be reopened / a foreign one is taken for ours" % (sorted(names), len(w), ACCEPTED_VERSION),
               cn.loc(w[0][0]) if w else "")


PANICS = ("core::panicking::", "std::rt::begin_panic", "std::rt::panic_fmt")


def argument_panics_before_the_lock(ctx, rule):
    from .. import locks
    F = ctx.F
    lm = locks.LockModel(ctx)
    n = 0
    for fid, fn in sorted(F.fns.items()):
        if fn.kind == "closure" or not fid.startswith("db::Database::"):
            continue
        gs = [g for g in lm.guards(fn) if g.cls == "keyspaces" and g.mode == "write" and not g.from_param]
        if not gs:
            continue
        pan = [b for b, t in fn.calls() if A.cname(t).startswith(PANICS) and not fn.blocks[b]["cleanup"]]
        bad = []
        for g in gs:
            held, _ = A.held_blocks(fn, g)
            bad += [b for b in pan if b in held]
        n += 1
        ctx.ob(rule, fn, "no-assert-fires-under-the-keyspaces-write-lock", not bad,
               "%d explicit panic site(s), all before the lock is taken" % len(pan) if not bad else
               "an assert / panic can fire while the keyspaces write lock is held: the lock is poisoned, DatabaseInner::drop panics on it before it breaks the handle cycles, and the folder stays locked for the rest of the process",
               fn.loc(bad[0]) if bad else "")
    ctx.floor(rule, "Database methods that take the keyspaces write lock", n, 1)
