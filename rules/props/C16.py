"""C16 — keyspace options chosen at creation stay in force (stored-form agreement + option plumbing)."""
import re
from .. import analysis as A
from .. import roles as R
from .. import codec as C

META = {
    "technique": "writer/reader key-table and codec-sequence agreement + origin terms (literal <-> field) + control dependence on MIR",
    "explanation": (
        "Decides the agreement between the two sibling implementations of the stored option form and the plumbing around "
        "it: (1) the config keys read by CreateOptions::from_kvs are a subset of those written by encode_kvs (plus the "
        "compaction strategy's own keys), each key \"X\" is written from self.X and the value read under \"X\" initialises "
        "field X; (2) scalar widths agree (u64 le memtable size, one-byte booleans compared with [1], f32/u64/u32 le blob "
        "options, CompressionType codec, leveled u8/u64/(u8+n*f32)); (3) the six policy codecs agree position by position "
        "including loop structure, and the filter-policy tag tables agree; (4) in Database::keyspace the create_options "
        "closure runs only when the name is not yet registered and its result is what reaches Keyspace::create_new and the "
        "meta entry; (5) the options recovered by from_kvs(id) for a directory are the ones applied to that tree and "
        "stored in the handle (same for creation); (6) apply_to_base_config hands every policy field to the like-named "
        "lsm_tree::Config setter, the remaining fields being consumed at tabled places."),
    "not_decided": [
        "value round-trip for extreme numbers / vectors longer than 255 entries",
        "that lsm-tree acts on the options it is given; behaviour that depends on an option",
        "the literal keys emitted by lsm-tree's Leveled/Fifo::get_config are taken from a reviewed table in the quick tier",
    ],
    "assumptions": ["lsm_tree compaction strategies store their parameters under the keys leveled_* / fifo_* (lsm-tree 3.1)"],
}

OPT = "keyspace::options::CreateOptions"
ENCODE = OPT + "::encode_kvs"
FROM = OPT + "::from_kvs"
STRATEGY_KEYS = {"leveled_l0_threshold", "leveled_target_size", "leveled_level_ratio_policy", "fifo_limit", "fifo_ttl", "fifo_ttl_seconds"}
WRITTEN_NOT_READ = {"level_count": "levels are fixed to 7 on recovery", "version": "format version marker", }
# reader field for keys whose name differs from the field
KEY_FIELD_ALIAS = {"blob": "kv_separation_opts", "blob_age_cutoff": "kv_separation_opts", "blob_compression": "kv_separation_opts",
                   "blob_file_target_size": "kv_separation_opts", "blob_separation_threshold": "kv_separation_opts",
                   "blob_staleness_threshold": "kv_separation_opts", "compaction_strategy": "compaction_strategy"}
BLOB_FIELD = {"blob_age_cutoff": "age_cutoff", "blob_compression": "compression", "blob_file_target_size": "file_target_size",
              "blob_separation_threshold": "separation_threshold", "blob_staleness_threshold": "staleness_threshold"}
for k in STRATEGY_KEYS:
    KEY_FIELD_ALIAS[k] = "compaction_strategy"

CONTROL_KEYS = {"compaction_strategy": "selects the strategy arm", "fifo_ttl": "selects whether a ttl is read",
                "leveled_level_ratio_policy": "accumulated into a Vec through &mut"}
SETTER_ALIAS = {"kv_separation_opts": "with_kv_separation", "compaction_filter_factory": "with_compaction_filter_factory"}
CONSUMED_ELSEWHERE = {
    "max_memtable_size": ("keyspace::Keyspace::check_memtable_rotate", "rotation threshold"),
    "manual_journal_persist": ("keyspace::Keyspace::insert", "write entries"),
    "compaction_strategy": ("compaction::worker::run", "compaction worker"),
    "level_count": (None, "fixed upstream (commented-out setter)"),
    "index_block_restart_interval_policy": (None, "not supported by lsm-tree yet (commented-out setter)"),
}


def control_fields(fn, og, operand, depth=0):
    """fields of `self` that decide (by a branch) which constant value the operand carries: `if self.flag { [1] } else { [0] }`"""
    out = set()
    l = A.op_local(operand)
    if l is None or depth > 6:
        return []
    for d in A.defs_of(fn, l):
        if d[0] == "stmt":
            rv = d[3]
            if rv["k"] in ("use", "cast") and A.op_local(rv["a"]) is not None:
                out.update(control_fields(fn, og, rv["a"], depth + 1))
            else:
                for sb, term, labels in A.edge_conditions(fn, d[1]):
                    t2, _ = A.strip_not(term)
                    ap = A.access_path(t2)
                    if ap and ap[0] == "P1" and len(ap) == 2:
                        out.add(ap[1])
        elif d[0] == "call" and A.is_transparent(A.cname(d[2])) and d[2]["args"]:
            out.update(control_fields(fn, og, d[2]["args"][0], depth + 1))
    return sorted(out)


def lits(term):
    return [x.a[1] for x in A.walk(term) if x.k == "const" and x.a[0] == "str"]


def width_of_writer(term):
    """encoded form of the value written under a key, from its origin term"""
    for x in A.walk(term):
        if x.k == "call":
            m = re.search(r"impl (u8|u16|u32|u64|f32|f64)>::to_(le|be)_bytes$", x.a[0])
            if m:
                return m.group(1) + m.group(2)
            if x.a[0].endswith("::encode_into_vec"):
                return "enc"
            m = re.search(r"EncodeConfig for (.+?)>::encode$", x.a[0])
            if m:
                return "policy:" + m.group(1)
            if x.a[0].endswith("::get_name"):
                return "name"
    # a one-element array literal: [u8::from(flag)] / [1u8] / [0u8]
    alts = A.alternatives(term)
    if alts and all(a.k == "agg" and a.a[0] == "(tuple)" and len(a.a[1]) == 1 for a in alts):
        return "1byte"
    return None



VALUE_OPS = ("min", "max", "clamp", "pow", "next_power_of_two", "abs", "round", "floor", "ceil", "trunc", "rem_euclid", "div_euclid",
             "swap_bytes", "to_be", "from_be", "reverse_bits", "not", "neg", "isqrt", "midpoint", "div_ceil", "next_multiple_of")


def value_manipulations(ctx, fn, tainted):
    """arithmetic / clamping / rounding applied in fn to a value for which `tainted(term)` holds: list of (block, what)"""
    og = ctx.og(fn)
    out = []
    for b, blk in enumerate(fn.blocks):
        if blk["cleanup"]:
            continue
        for st in blk["s"]:
            rv = st["rv"]
            if rv["k"] in ("bin", "un"):
                op = rv.get("op") or ""
                if op in ("Eq", "Ne", "Lt", "Le", "Gt", "Ge", "Offset", "PtrMetadata", "Not") and rv["k"] == "bin":
                    continue
                if rv["k"] == "un" and op in ("PtrMetadata",):
                    continue
                ops = [rv[k] for k in ("a", "b", "l", "r") if k in rv and isinstance(rv[k], dict)]
                if any(tainted(og.of_operand(o)) for o in ops):
                    out.append((b, "%s" % op))
        t = blk["t"]
        if t["k"] == "call":
            n = A.cname(t)
            leaf = n.rsplit("::", 1)[-1].split("<")[0]
            if leaf in VALUE_OPS or leaf.startswith(("saturating_", "wrapping_", "checked_", "overflowing_", "rotate_")):
                if any(tainted(og.of_operand(a)) for a in t["args"]):
                    out.append((b, n))
    return out


def run(ctx):
    F = ctx.F
    enc = ctx.fn(ENCODE, "R-C16.1")
    frm = ctx.fn(FROM, "R-C16.1")
    written = {}
    wwidth = {}
    if enc:
        og = ctx.og(enc)
        # (key, value) tuples: key = encode_config_key(id, "L")
        for b, blk in enumerate(enc.blocks):
            if blk["cleanup"]:
                continue
            for st in blk["s"]:
                rv = st["rv"]
                if rv["k"] == "agg" and rv.get("tuple") and len(rv["ops"]) == 2:
                    k = og.of_operand(rv["ops"][0])
                    v = og.of_operand(rv["ops"][1])
                    kc = [x for x in A.walk(k) if x.k == "call" and x.a[0] == "meta_keyspace::encode_config_key"]
                    if not kc:
                        continue
                    ls = lits(kc[0].a[1][1])
                    if len(ls) != 1:
                        continue
                    fields = [x.a[1] for x in A.walk(v) if x.k == "field" and (A.access_path(x) or ("",))[0] == "P1" and len(A.access_path(x)) == 2]
                    if not fields:
                        fields = control_fields(enc, og, rv["ops"][1])
                    sub = [x.a[1] for x in A.walk(v) if x.k == "field" and x.a[1] in BLOB_FIELD.values()]
                    written[ls[0]] = (sorted(set(fields)), sorted(set(sub)))
                    wwidth[ls[0]] = width_of_writer(v)
        # policy! macro builds the tuple from (key.into(), field.encode()) — also an aggregate tuple; handled above
        ctx.floor("R-C16.1", "config keys written by encode_kvs", written, 23)
    read = {}
    rwidth = {}
    if frm:
        og = ctx.og(frm)
        # closures of from_kvs (blob options are decoded inside a map closure)
        bodies = [frm] + F.closures_of(FROM)
        for fn in bodies:
            fog = ctx.og(fn)
            for b, t in fn.calls():
                if A.cname(t) == "meta_keyspace::MetaKeyspace::get_kv_for_config":
                    ls = lits(fog.of_operand(t["args"][2]))
                    if len(ls) == 1:
                        read.setdefault(ls[0], []).append((fn, b))
        ctx.floor("R-C16.1", "config keys read by from_kvs", read, 24)
        # which struct field is initialised from which key
        field_keys = {}
        for blk in frm.blocks:
            for st in blk["s"]:
                rv = st["rv"]
                if rv["k"] == "agg" and rv.get("adt") == OPT:
                    for fname, o in zip(rv["fields"], rv["ops"]):
                        term = og.of_operand(o)
                        ks = set()
                        for x in A.walk(term):
                            if x.k == "call" and x.a[0] == "meta_keyspace::MetaKeyspace::get_kv_for_config":
                                ks.update(lits(x.a[1][2]))
                            if x.k == "closure":
                                cf = F.fns.get(x.a[0])
                                if cf:
                                    for bb, tt in cf.calls():
                                        if A.cname(tt) == "meta_keyspace::MetaKeyspace::get_kv_for_config":
                                            ks.update(lits(A.Origins(cf).of_operand(tt["args"][2])))
                        field_keys[fname] = ks
        for key in sorted(read):
            want_field = KEY_FIELD_ALIAS.get(key, key)
            in_writer = key in written or key in STRATEGY_KEYS
            ctx.ob("R-C16.1", frm, "key-%s-is-written" % key, in_writer, "key \"%s\" read on recovery is written at creation" % key if in_writer else "from_kvs reads key \"%s\" which encode_kvs never writes: recovery of every keyspace would fail or use a default" % key)
            got = [f for f, ks in field_keys.items() if key in ks]
            okf = got == [want_field]
            if not got and key in CONTROL_KEYS:
                # the value steers control flow (which strategy / whether a ttl exists) or is accumulated through a &mut Vec:
                # require that the read precedes the construction of the result
                aggb = [bb for bb, blk in enumerate(frm.blocks) if not blk["cleanup"] for st in blk["s"] if st["rv"]["k"] == "agg" and st["rv"].get("adt") == OPT]
                okf = all(fn_ is frm and any(a_ in A.reach_after(frm, b_) for a_ in aggb) for fn_, b_ in read[key])
            ctx.ob("R-C16.1", frm, "key-%s-initialises-field-%s" % (key, want_field), okf,
                   "value stored under \"%s\" initialises CreateOptions.%s" % (key, want_field) if okf else "value stored under \"%s\" ends up in field(s) %s instead of %s" % (key, got, want_field))
            if key in written and key not in ("blob",):
                wf, sub = written[key]
                if key in BLOB_FIELD:
                    okw = "kv_separation_opts" in wf and BLOB_FIELD[key] in sub
                    exp = "kv_separation_opts.%s" % BLOB_FIELD[key]
                else:
                    okw = wf == [want_field]
                    exp = "self.%s" % want_field
                ctx.ob("R-C16.1", enc, "key-%s-written-from-%s" % (key, exp), okw, "\"%s\" is written from %s" % (key, exp) if okw else "\"%s\" is written from %s (expected %s): the option stored is not the option read back" % (key, wf + sub, exp))
        for key in sorted(set(written) - set(read)):
            ok = key in WRITTEN_NOT_READ
            ctx.ob("R-C16.1", enc, "key-%s-written-not-read" % key, ok, "tabled: %s" % WRITTEN_NOT_READ.get(key) if ok else "key \"%s\" is stored but never read back: that option is silently lost on reopen" % key, nontrivial=False)
        # every persisted field of CreateOptions is covered by from_kvs
        a = F.adts.get(OPT)
        if a:
            for f in a["variants"][0]["fields"]:
                n = f["n"]
                if n in ("compaction_filter_factory", "level_count"):
                    continue
                ok = bool(field_keys.get(n))
                ctx.ob("R-C16.1", frm, "field-%s-recovered-from-storage" % n, ok, "CreateOptions.%s is initialised from stored key(s) %s" % (n, sorted(field_keys.get(n, []))) if ok else "CreateOptions.%s is not recovered from storage (reopen would use a constant)" % n)

        # values are stored and recovered as they are: no arithmetic, clamping or rounding between the stored bytes and the field
        def from_storage(term):
            return any(x.k == "call" and (x.a[0] == "meta_keyspace::MetaKeyspace::get_kv_for_config" or (C.PRIM.search(x.a[0]) and "read" in x.a[0])) for x in A.walk(term))
        bad = []
        for fn_ in bodies:
            bad += [(fn_, b_, w_) for b_, w_ in value_manipulations(ctx, fn_, from_storage)]
        ctx.ob("R-C16.1", frm, "recovered-values-untransformed", not bad,
               "from_kvs applies no arithmetic / clamping / rounding to a value read from storage" if not bad
               else "a stored option value is transformed while it is recovered (%s at %s): the option in force after a reopen differs from the one chosen at creation" % (bad[0][2], bad[0][0].loc(bad[0][1])))
        if enc:
            def from_self(term):
                return any(x.k == "param" and x.a[0] == 1 for x in A.walk(term))
            badw = []
            for fn_ in [enc] + F.closures_of(ENCODE):
                badw += [(fn_, b_, w_) for b_, w_ in value_manipulations(ctx, fn_, from_self)]
            ctx.ob("R-C16.1", enc, "stored-values-untransformed", not badw,
                   "encode_kvs applies no arithmetic / clamping / rounding to an option before storing it" if not badw
                   else "an option value is transformed before it is stored (%s at %s): what is recovered is not what was chosen" % (badw[0][2], badw[0][0].loc(badw[0][1])))

        # ---- R-C16.2 scalar widths
        for key, sites in sorted(read.items()):
            fn, b = sites[0]
            fog = ctx.og(fn)
            # how is the value consumed: first primitive read / decode / comparison on a term containing this call
            site = (fn.id, b)
            width = None
            for bb, tt in fn.calls():
                n = A.cname(tt)
                if not tt["args"]:
                    continue
                if not any(x.k == "call" and x.site == site for a in tt["args"] for x in A.walk(fog.of_operand(a))):
                    continue
                m = C.PRIM.search(n) or C.PRIM.search(tt.get("callee") or "")
                if m and m.group(1) == "read":
                    width = "1byte" if m.group(2) == "u8" else m.group(2) + C.endian(tt)
                    break
                mm = re.search(r"DecodeConfig for (.+?)>::decode$", n)
                if mm:
                    width = "policy:" + mm.group(1)
                    break
                if n.endswith("Decode>::decode_from"):
                    width = "enc"
                    break
                if (tt.get("callee") or "").startswith("std::cmp::PartialEq::"):
                    other = [fog.of_operand(a) for a in tt["args"]]
                    if any(x.k == "const" and x.a[0] == "bytes" and tuple(x.a[1]) == (1,) for o in other for x in A.walk(o)):
                        width = "1byte"
                        break
                if n.endswith("str::from_utf8") or n.endswith("::from_utf8"):
                    width = "name"
                    break
            rwidth[key] = width
        norm = {"u64le": "u64le", "u32le": "u32le", "f32le": "f32le", "u8": "u8", "bool": "bool", "enc": "enc", "policy": "policy", "name": "name"}
        for key in sorted(set(read) & set(written)):
            if key == "blob":
                continue
            w, r = wwidth.get(key), rwidth.get(key)
            ok = w is not None and w == r
            ctx.ob("R-C16.2", frm, "width-%s" % key, ok, "\"%s\": written as %s, read as %s" % (key, w, r) if ok else "\"%s\" is written as %s but read as %s" % (key, w, r))
        # strategy keys: reviewed reader widths (writer side lives in lsm-tree)
        EXPECT = {"leveled_l0_threshold": "1byte", "leveled_target_size": "u64le", "leveled_level_ratio_policy": "1byte", "fifo_limit": "u64le", "fifo_ttl": "1byte", "fifo_ttl_seconds": "u64le"}
        for key, exp in EXPECT.items():
            if key in read:
                ok = rwidth.get(key) == exp
                ctx.ob("R-C16.2", frm, "width-%s" % key, ok, "\"%s\" read as %s (lsm-tree writes %s)" % (key, rwidth.get(key), exp) if ok else "\"%s\" read as %s but lsm-tree stores %s" % (key, rwidth.get(key), exp))

    # ---- R-C16.3 policy codecs agree
    pairs = 0
    for mod in ("filter", "pinning", "compression", "block_size", "hash_ratio", "restart_interval"):
        es = [f for k, f in F.fns.items() if k.startswith("keyspace::config::%s::" % mod) and "EncodeConfig" in k and f.kind != "closure"]
        ds = [f for k, f in F.fns.items() if k.startswith("keyspace::config::%s::" % mod) and "DecodeConfig" in k and f.kind != "closure"]
        if not es or not ds:
            ctx.ob("R-C16.3", "keyspace::config::" + mod, "codec-pair-present", False, "policy codec pair for %s not found" % mod, kind="anchor")
            continue
        pairs += 1
        ws = {C.shape(s) for s in C.sequences(F, es[0], [0], "w")}
        rs = {C.shape(s) for s in C.sequences(F, ds[0], [0], "r")}
        ok = ws == rs and any("<back>" in s for s in ws)
        ctx.ob("R-C16.3", es[0], "codec-%s-writer-equals-reader" % mod, ok, "%s policy: %s" % (mod, sorted(ws)) if ok else "%s policy: writer paths %s vs reader paths %s" % (mod, sorted(ws), sorted(rs)))
        # values travel untransformed: what the reader stores is what it read (enum wrappers and the `== 1` bool decoding
        # aside), what the writer writes is the stored element / the element count
        def transformed(term, side):
            bad = []
            for x in A.walk(term):
                if x.k == "call":
                    n = x.a[0]
                    leaf = n.rsplit("::", 1)[-1].split("<")[0]
                    if C.PRIM.search(n) or n.endswith("::branch") or n.endswith("Decode>::decode_from") or n.endswith("::decode_from") or A.is_transparent(n):
                        continue
                    if side == "w" and (leaf in ("next", "len", "iter", "deref", "as_ref") or n.endswith("Encode>::encode_into")):
                        continue
                    bad.append(n)
                elif x.k == "bin":
                    op = x.a[0]
                    if side == "r" and op in ("Eq", "Ne") and (x.a[1].k == "const" or x.a[2].k == "const"):
                        # bool decoding: the writer stores u8::from(flag), i.e. 1 for true — `== 1` or `!= 0`, nothing else
                        c_ = x.a[1] if x.a[1].k == "const" else x.a[2]
                        cv = c_.a[1] if isinstance(c_.a, (list, tuple)) and len(c_.a) > 1 else None
                        if (op, cv) in (("Eq", 1), ("Ne", 0)):
                            continue
                        bad.append("%s %s (inverted flag)" % (op, cv))
                        continue
                    bad.append(op)
                elif x.k in ("un", "cast") and side == "r":
                    bad.append(x.k)
            return bad
        for side, fn0 in (("r", ds[0]), ("w", es[0])):
            og0 = ctx.og(fn0)
            bad = []
            nvals = 0
            for b, t in fn0.calls():
                n = A.cname(t)
                if side == "r" and n.endswith("Vec::<T, A>::push"):
                    nvals += 1
                    bad += transformed(og0.of_operand(t["args"][1]), side)
                if side == "w" and (C.PRIM.search(n) or C.PRIM.search(t.get("callee") or "")) and len(t["args"]) > 1:
                    nvals += 1
                    bad += transformed(og0.of_operand(t["args"][1]), side)
            ctx.ob("R-C16.3", fn0, "codec-%s-%s-values-untransformed" % (mod, "decoded" if side == "r" else "encoded"), nvals > 0 and not bad,
                   "%s policy: every %s value is the %s" % (mod, "decoded" if side == "r" else "written", "bytes just read (no arithmetic, clamping or mapping)" if side == "r" else "stored element / element count") if (nvals and not bad)
                   else "%s policy: a value is transformed on the way %s (%s): the option in force after a reopen differs from the one chosen at creation" % (mod, "in" if side == "r" else "out", ", ".join(sorted(set(bad)))[:120] or "no values found"))
        # element ORDER and COUNT: the encoder walks the policy front to back, the decoder pushes every element it decodes
        ADAPT = ("::rev", "::skip", "::take", "::step_by", "::filter", "::skip_while", "::take_while", "::filter_map", "::chain", "::zip", "::cycle")
        for side, fn0 in (("r", ds[0]), ("w", es[0])):
            adap = [A.cname(t) for f2 in [fn0] + F.closures_of(fn0.id) for b, t in f2.calls()
                    if any(A.cname(t).split("::<")[0].endswith(a_) for a_ in ADAPT) and ("Iterator" in A.cname(t) or "iter::" in A.cname(t))]
            okp = not adap
            detailp = "no reordering / element-dropping iterator adaptor"
            if side == "r" and okp:
                pushes = [b for b, t in fn0.calls() if A.cname(t).endswith("Vec::<T, A>::push")]
                heads = [b for b, t in fn0.calls() if A.cname(t).endswith("::next") and A.in_cycle(fn0, b)]
                for h in heads:
                    sw_ = A.switch_after_call(fn0, h)
                    if sw_ is None:
                        continue
                    _, labels_ = A.switch_info(fn0, sw_)
                    some_t = [tg for tg, ns in labels_.items() if "Some" in ns]
                    errs_ = list(A.error_starts(fn0))
                    r_ = A.reach(fn0, some_t, avoid=pushes + errs_)
                    if h in r_:
                        okp = False
                        detailp = "an iteration of the decode loop can finish without pushing the element it decoded"
            ctx.ob("R-C16.3", fn0, "codec-%s-%s-keeps-every-element-in-order" % (mod, "decoder" if side == "r" else "encoder"), okp,
                   "%s policy %s: %s" % (mod, "decoder" if side == "r" else "encoder", detailp) if okp else
                   "%s policy %s: %s — the per-level policy in force after a reopen is not the one chosen at creation" % (mod, "decoder" if side == "r" else "encoder", ("goes through " + adap[0].rsplit("::", 1)[-1]) if adap else detailp))
        if mod == "filter":
            # tag tables
            def writer_tags(fn, variants):
                og = A.Origins(fn)
                out = {}
                for b, blk in enumerate(fn.blocks):
                    t = blk["t"]
                    if t["k"] == "switch" and not blk["cleanup"]:
                        vm = A.discr_variants(fn, t["d"])
                        if vm and set(vm.values()) == set(variants):
                            _, labels = A.switch_info(fn, b)
                            for tg, names in labels.items():
                                writes = [x for x in A.reach(fn, [tg], stop=[bb for bb, tt in fn.calls() if C.PRIM.search(A.cname(tt)) or C.PRIM.search(tt.get("callee") or "")])
                                          if fn.term(x)["k"] == "call" and (C.PRIM.search(A.cname(fn.term(x))) or C.PRIM.search(fn.term(x).get("callee") or ""))]
                                for n in names:
                                    for w in writes[:1]:
                                        c = og.of_operand(fn.term(w)["args"][1])
                                        if c.k == "const":
                                            out[n] = c.a[1]
                return out

            def reader_tags(fn, adt, variants):
                """the u8 switch whose arms construct exactly the variants of `adt`, one variant per tag"""
                best = {}
                for b, blk in enumerate(fn.blocks):
                    t = blk["t"]
                    if t["k"] == "switch" and not blk["cleanup"] and t["dty"] == "u8":
                        heads = [bb for bb, tt in fn.calls() if A.cname(tt).endswith("::next") and A.in_cycle(fn, bb)]
                        out = {}
                        for v, tg in t["vs"]:
                            region = A.reach(fn, [tg], avoid=heads)
                            vs = {st["rv"]["variant"] for x in region for st in fn.blocks[x]["s"] if st["rv"]["k"] == "agg" and st["rv"].get("adt") == adt}
                            if vs:
                                out[v] = vs
                        allv = set()
                        for vs in out.values():
                            allv |= vs
                        if allv == set(variants) and len(out) == len(variants):
                            best = out
                return best
            for adt, variants in (("lsm_tree::config::FilterPolicyEntry", ("None", "Bloom")), ("lsm_tree::config::BloomConstructionPolicy", ("BitsPerKey", "FalsePositiveRate"))):
                wt = writer_tags(es[0], variants)
                rt = reader_tags(ds[0], adt, variants)
                inv = {}
                for k, v in wt.items():
                    inv.setdefault(v, set()).add(k)
                rt2 = {k: v for k, v in rt.items()}
                ok = bool(wt) and inv == rt2
                ctx.ob("R-C16.3", es[0], "filter-tag-table-%s" % adt.rsplit("::", 1)[-1], ok, "tags %s round-trip" % wt if ok else "tag table mismatch for %s: writer %s vs reader %s" % (adt, wt, rt))
    ctx.floor("R-C16.3", "policy codec pairs", pairs, 6)

    # ---- R-C16.4 existing keyspace ignores new options
    kf = ctx.fn("db::Database::keyspace", "R-C16.4")
    if kf:
        og = ctx.og(kf)
        get = [b for b, t in kf.calls() if A.cname(t).endswith("HashMap::<K, V, S, A>::get")]
        co = [b for b, t in kf.calls() if (t.get("callee") or "") == "std::ops::FnOnce::call_once" and og.of_operand(t["args"][0]).k == "param"]
        cn = R.call_blocks(kf, ("keyspace::Keyspace::create_new",))
        ck = R.call_blocks(kf, ("meta_keyspace::MetaKeyspace::create_keyspace",))
        ok = False
        detail = "Database::keyspace lacks the lookup / the create_options call"
        if get and co:
            sw, labels = A.option_switch_on(kf, og, get[0])
            some_t = [tg for tg, ns in labels.items() if "Some" in ns]
            none_t = [tg for tg, ns in labels.items() if "None" in ns]
            ok = bool(some_t) and not any(x in A.reach(kf, some_t) for x in co + cn + ck) and all(A.dominates(kf, get[0], c) for c in co)
            detail = "create_options() is evaluated only when the name is not registered; an existing keyspace is returned as is" if ok else "the options closure (or creation) is reachable for an existing keyspace: passed options could override the stored ones"
        ctx.ob("R-C16.4", kf, "options-closure-only-for-new-keyspace", ok, detail)
        if co and cn:
            opts = og.of_operand(kf.term(cn[0])["args"][3])
            okp = any(x.k == "call" and x.site == (kf.id, co[0]) for x in A.walk(opts))
            errs = A.error_starts(kf)
            r = A.reach_after(kf, co[0], avoid=cn + errs)
            r2 = A.reach_after(kf, co[0], avoid=ck + errs)
            allp = not any(x in r for x in kf.return_blocks()) and not any(x in r2 for x in kf.return_blocks())
            ctx.ob("R-C16.4", kf, "created-with-the-closure-result", okp and allp, "the closure's options reach Keyspace::create_new and the keyspace is registered in the meta keyspace on every success path" if okp and allp else "new keyspace is not created/registered with the options the closure returned")
    ck = ctx.fn("meta_keyspace::MetaKeyspace::create_keyspace", "R-C16.4")
    if ck:
        og = ctx.og(ck)
        ok = False
        for b, t in ck.calls():
            if A.cname(t) == ENCODE:
                recv = og.of_operand(t["args"][0])
                idt = og.of_operand(t["args"][1])
                ok = A.access_path(recv) == ("P4", "config") and idt.k == "param" and idt.a[0] == 2
        ctx.ob("R-C16.4", ck, "stores-the-handle-config-under-its-id", ok, "create_keyspace persists keyspace.config.encode_kvs(keyspace_id)" if ok else "create_keyspace does not persist the handle's own config under its id")

    # ---- R-C16.5 recovered options are the ones applied
    rk = ctx.fn("recovery::recover_keyspaces", "R-C16.5")
    if rk:
        og = ctx.og(rk)
        fk = R.call_blocks(rk, (FROM,))
        ab = R.call_blocks(rk, ("keyspace::apply_to_base_config",))
        fd = R.call_blocks(rk, ("keyspace::Keyspace::from_database",))
        ok = False
        detail = "recover_keyspaces lacks from_kvs / apply_to_base_config / from_database"
        if fk and ab and fd:
            site = (rk.id, fk[0])
            a1 = og.of_operand(rk.term(ab[0])["args"][1])
            a2 = og.of_operand(rk.term(fd[0])["args"][4])
            same_id = A.tkey(og.of_operand(rk.term(fk[0])["args"][0])) == A.tkey(og.of_operand(rk.term(fd[0])["args"][0]))
            both = any(x.k == "call" and x.site == site for x in A.walk(a1)) and any(x.k == "call" and x.site == site for x in A.walk(a2))
            ok = both and same_id
            detail = "from_kvs(dir id) feeds both the tree config and the recovered handle" if ok else "recovered options are not the ones applied/stored: both consumers fed=%s same id=%s" % (both, same_id)
        ctx.ob("R-C16.5", rk, "recovered-config-applied-and-kept", ok, detail)
    cn = ctx.fn("keyspace::Keyspace::create_new", "R-C16.5")
    if cn:
        og = ctx.og(cn)
        ab = R.call_blocks(cn, ("keyspace::apply_to_base_config",))
        ok = False
        if ab:
            a1 = og.of_operand(cn.term(ab[0])["args"][1])
            kept = False
            for blk in cn.blocks:
                for st in blk["s"]:
                    rv = st["rv"]
                    if rv["k"] == "agg" and rv.get("adt") == "keyspace::KeyspaceInner":
                        d = dict(zip(rv["fields"], rv["ops"]))
                        t = og.of_operand(d["config"])
                        kept = t.k == "param" and t.a[0] == 4
            ok = a1.k == "param" and a1.a[0] == 4 and kept
        ctx.ob("R-C16.5", cn, "created-config-applied-and-kept", ok, "the `config` parameter is applied to the tree and stored in the handle" if ok else "create_new applies or stores a different config than it was given")
    fdb = ctx.fn("keyspace::Keyspace::from_database", "R-C16.5")
    if fdb:
        og = ctx.og(fdb)
        kept = False
        for blk in fdb.blocks:
            for st in blk["s"]:
                rv = st["rv"]
                if rv["k"] == "agg" and rv.get("adt") == "keyspace::KeyspaceInner":
                    d = dict(zip(rv["fields"], rv["ops"]))
                    t = og.of_operand(d["config"])
                    kept = t.k == "param" and t.a[0] == 5
        ctx.ob("R-C16.5", fdb, "handle-keeps-recovered-config", kept, "from_database stores the recovered config in the handle" if kept else "from_database drops the recovered config")

    # ---- R-C16.6 every option reaches the tree
    ap = ctx.fn("keyspace::apply_to_base_config", "R-C16.6")
    a = F.adts.get(OPT)
    if ap and a:
        og = ctx.og(ap)
        setters = {}
        for b, t in ap.calls():
            n = A.cname(t)
            if n.startswith("lsm_tree::Config::") and len(t["args"]) == 2:
                term = og.of_operand(t["args"][1])
                ap_ = [A.access_path(x) for x in A.alternatives(term)]
                fld = [p[1] for p in ap_ if p and p[0] == "P2" and len(p) >= 2]
                setters[n.rsplit("::", 1)[-1].split("<")[0]] = fld
        n_set = 0
        for f in a["variants"][0]["fields"]:
            name = f["n"]
            if name in CONSUMED_ELSEWHERE:
                where, why = CONSUMED_ELSEWHERE[name]
                if where:
                    wf = F.fns.get(where)
                    used = False
                    if wf:
                        for blk in wf.blocks:
                            for st in blk["s"]:
                                for x in A.walk(A.Origins(wf).of_rvalue(st["rv"])):
                                    if x.k == "field" and x.a[1] == name:
                                        used = True
                    ctx.ob("R-C16.6", where, "option-%s-consumed" % name, used, "%s is consumed by %s (%s)" % (name, where, why) if used else "%s is no longer read by %s" % (name, where), nontrivial=False)
                else:
                    ctx.ob("R-C16.6", ap, "option-%s-tabled" % name, True, "tabled: %s" % why, nontrivial=False)
                continue
            setter = SETTER_ALIAS.get(name, name)
            got = setters.get(setter)
            ok = got == [name]
            n_set += 1
            ctx.ob("R-C16.6", ap, "option-%s-reaches-tree-config" % name, ok, "Config::%s(our_config.%s)" % (setter, name) if ok else "option %s is not handed to lsm_tree::Config::%s (got %s): the tree would run with a default" % (name, setter, got))
        ctx.floor("R-C16.6", "options handed to the tree config", n_set, 13)

    # ---- R-C16.8 option rows are keyed per keyspace: encode_config_key writes the row tag, the keyspace id and the option name —
    # without the id all keyspaces share one set of option rows (the last created keyspace's options are everybody's after
    # a reopen); and both the writer (create_keyspace) and the reader (get_kv_for_config / recovery) go through it
    eck = ctx.fn("meta_keyspace::encode_config_key", "R-C16.8")
    if eck:
        ogk = ctx.og(eck)
        wrote = {"tag": False, "id": False, "name": False}
        for b, t in eck.calls():
            n = A.cname(t)
            if len(t["args"]) < 2:
                continue
            a1 = ogk.of_operand(t["args"][1])
            if n.endswith("::write_u8") and a1.k == "const":
                wrote["tag"] = True
            if n.endswith("::write_u64") and a1.k == "param" and a1.a[0] == 1:
                wrote["id"] = True
            if n.endswith("::write_all") and a1.k == "param" and a1.a[0] == 2:
                wrote["name"] = True
        ok = all(wrote.values())
        ctx.ob("R-C16.8", eck, "option-rows-are-keyed-by-tag-keyspace-id-and-name", ok,
               "config key = tag ++ keyspace id ++ option name" if ok else
               "encode_config_key does not write %s: option rows of different keyspaces / different options collide — after a reopen a keyspace runs with another keyspace's (or another option's) stored value" % ", ".join(k for k, v in wrote.items() if not v))
        users = [f for f, b in ctx.cg.callers("meta_keyspace::encode_config_key")]
        ctx.floor("R-C16.8", "users of encode_config_key (writer and reader side)", users, 2)

    # ---- cross-cutting disciplines (rules/discipline.py)
    from .. import discipline as D
    # an option row that cannot be read or written fails the call (never silently replaced by a default)
    D.error_discipline(ctx, "R-C16.9", scope=lambda f: f.startswith(("keyspace::options::", "meta_keyspace::", "keyspace::config::", "<keyspace::config::")))

    # ---- R-C16.10 the transactional databases hand the caller's name and options closure to Database::keyspace unchanged
    from .. import wrappers as W
    W.db_wrapper_forwarding(ctx, "R-C16.10", only=("keyspace", "keyspace_exists", "list_keyspace_names", "keyspace_count"))

    # ---- borrowed obligations (mechanisms owned by other properties that this property's verdict also rests on)
    # an existing keyspace is never created a second time with other options
    ctx.borrow("C12", ["R-C12.7"], "R-C16.6")
    # a keyspace is maintained with its OWN settings
    ctx.borrow("C12", ["R-C12.10"], "R-C16.7")


def cross(ctx, D):
    """thorough tier: cross-check the reviewed table of strategy keys / widths against the pinned lsm-tree's own
    `get_config` implementations (D = fact base of lsm_tree). Structure only: key literals and encoded widths."""
    F = ctx.F
    frm = F.fns.get(FROM)
    if frm is None:
        return
    # reader side (as in R-C16.2)
    rwidth = {}
    for fn in [frm] + F.closures_of(FROM):
        fog = ctx.og(fn)
        for b, t in fn.calls():
            if A.cname(t) != "meta_keyspace::MetaKeyspace::get_kv_for_config":
                continue
            ls = lits(fog.of_operand(t["args"][2]))
            if len(ls) != 1 or ls[0] not in STRATEGY_KEYS:
                continue
            site = (fn.id, b)
            for bb, tt in fn.calls():
                if not tt["args"] or not any(x.k == "call" and x.site == site for a in tt["args"] for x in A.walk(fog.of_operand(a))):
                    continue
                m = C.PRIM.search(A.cname(tt)) or C.PRIM.search(tt.get("callee") or "")
                if m and m.group(1) == "read":
                    rwidth[ls[0]] = "1byte" if m.group(2) == "u8" else m.group(2) + C.endian(tt)
                    break
                if (tt.get("callee") or "").startswith("std::cmp::PartialEq::"):
                    rwidth[ls[0]] = "1byte"
                    break
    wwidth = {}
    for fid, fn in D.fns.items():
        if not fid.endswith("CompactionStrategy>::get_config") or fn.kind == "closure":
            continue
        og = A.Origins(fn)
        for blk in fn.blocks:
            if blk["cleanup"]:
                continue
            for st in blk["s"]:
                rv = st["rv"]
                if rv["k"] == "agg" and rv.get("tuple") and len(rv["ops"]) == 2:
                    k = lits(og.of_operand(rv["ops"][0]))
                    if len(k) != 1:
                        continue
                    v = og.of_operand(rv["ops"][1])
                    w = None
                    for x in A.walk(v):
                        name = x.a[0] if x.k == "call" else (x.a if x.k == "fnitem" else "")
                        m = re.search(r"impl (u8|u16|u32|u64|f32|f64)>::to_(le|be)_bytes$", name or "")
                        if m:
                            w = "1byte" if m.group(1) == "u8" else m.group(1) + m.group(2)
                    if w is None:
                        alts = A.alternatives(v)
                        if alts and all(a.k == "agg" and a.a[0] == "(tuple)" and len(a.a[1]) == 1 for a in alts):
                            w = "1byte"
                    if w is None and any(x.k == "call" and x.a[0].endswith("Vec::<T>::new") for x in A.walk(v)):
                        # built incrementally: first primitive write decides
                        seqs = C.sequences(D, fn, [0], "w")
                        firsts = {C.shape(q)[0] for q in seqs if q}
                        if firsts == {"u8"}:
                            w = "1byte"
                    wwidth[k[0]] = w
    ctx.ob("R-C16.2x", "<lsm_tree get_config>", "strategy-key-table-matches-dependency", set(wwidth) == STRATEGY_KEYS,
           "lsm-tree's Leveled/Fifo::get_config emit exactly the keys of the reviewed table: %s" % sorted(wwidth) if set(wwidth) == STRATEGY_KEYS
           else "reviewed strategy key table %s differs from what the pinned lsm-tree emits %s" % (sorted(STRATEGY_KEYS), sorted(wwidth)))
    for k in sorted(set(wwidth) & set(rwidth)):
        ok = wwidth[k] is not None and wwidth[k] == rwidth[k]
        ctx.ob("R-C16.2x", frm, "width-%s-vs-lsm-tree" % k, ok, "\"%s\": lsm-tree writes %s, from_kvs reads %s" % (k, wwidth[k], rwidth[k]) if ok
               else "\"%s\" is written by lsm-tree as %s but read by from_kvs as %s" % (k, wwidth[k], rwidth[k]))
